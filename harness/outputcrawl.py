"""Shared machinery of C11 / C12: generate a project + options, run the REAL `pydoctor.driver.main`
in a worker process, read the facts of the real System the run used (object tree, privacy, relations,
resolved cross-references) and crawl the output directory (files, anchors, links attributed to a
producer row by DOM context, listing entries with their `private` marker, all-documents.html, the lunr
indexes, objects.inv).

One crawl serves both properties:   cases = make_cases(rng, quick) ; results = run_cases(cases)
Each result is a plain dict (picklable):  {"case", "facts", "crawl", "log"}  or  {"case", "crash"}.

Canonical forms (shared with lean/PdModel/OutputIO.lean)
    file   : I (index.html) | S:<summary page stem> | P:<enc(fullName of the page object)>
    href   : <file or ->#<enc(fragment) or ->        (as written: `-` file = same-page link)
    item   : fields joined by '>'
"""
from __future__ import annotations

import contextlib
import io
import json
import os
import re
import shutil
import tempfile
import zlib
from typing import Any, Dict, List, Optional, Sequence, Tuple
from urllib.parse import unquote

from .core import enc
from .gen.project import Gen, Knobs, Unit, write_tree

SUMMARY_PAGES = ["moduleIndex", "classIndex", "nameIndex", "undoccedSummary", "all-documents"]
THEMES = ["classic", "readthedocs", "base"]


# =========================================================================== projects

def U(q: str, src: str, pkg: bool = False) -> Unit:
    return Unit(q, pkg, src, q.rpartition(".")[0] or None)


def NESTED_HEADER_SRC(outer: str, base: str, tv: str, n1: str, n2: str) -> str:
    return ("'''Shapes.'''\nfrom collections import namedtuple\nfrom typing import Generic, TypeVar, List\n"
            "class %(o)s:\n    '''outer'''\n    %(b)s = namedtuple('%(b)s', 'x y')\n    '''the base'''\n    %(t)s = TypeVar('%(t)s')\n    '''the variable'''\n"
            "    class Plain:\n        '''a nested base'''\n        def area(self):\n            '''a'''\n"
            "    class %(n1)s(%(b)s):\n        '''a point'''\n        origin: '%(t)s' = None\n        '''annotated with an outer variable'''\n"
            "        def move(self, by: %(b)s = None) -> 'List[%(t)s]':\n            '''m'''\n"
            "    class %(n2)s(Generic[%(t)s], Plain):\n        '''a layer'''\n        def area(self):\n            pass\n"
            "        class Deep(%(b)s):\n            '''two levels down'''\n"
            % {"o": outer, "b": base, "t": tv, "n1": n1, "n2": n2})


def HUNT_FIELD_TYPE_UNITS(pk: str) -> List[Unit]:
    return [U(pk, "'''The package.'''\n", True),
            U(pk + ".a", "'''\nModule a.\n\n@var x: The x.\n@type x: what L{helper} returns\n'''\ndef helper():\n    '''Make an x.'''\nx = helper()\n"),
            U(pk + ".b", "'''Module b.'''\nfrom .a import x\n__all__ = ['x']\n")]


def scenario_projects() -> List[Dict[str, Any]]:
    """the situations the quantifiers of C11/C12 name explicitly, as small hand-written projects"""
    S: List[Dict[str, Any]] = []

    def add(name, units, privacy=(), **kw):
        S.append({"name": name, "units": units, "privacy": list(privacy), **kw})

    # hidden base of a visible class; its member overridden; cross-referenced; summary copied around
    add("hidden-base", [
        U("hidmod", '"""pkg doc"""\n'
                    "class _Hid:\n    '''hid'''\n    def meth(self):\n        '''m'''\n    def other(self):\n        '''o'''\n"
                    "class Vis(_Hid):\n    '''see L{_Hid} and L{_Hid.meth}'''\n    def meth(self):\n        '''over'''\n"
                    "class W(Vis):\n    def other(self):\n        '''mine'''\n", True),
        U("hidmod.sub", "from hidmod import Vis\nclass S(Vis):\n    x: Vis = None\n    '''attr'''\n"),
    ], ["HIDDEN:hidmod._Hid"])
    # hidden module that is imported from: bases, annotations, signatures, docstrings
    add("hidden-module-imported", [
        U("pkg", "'''top'''\n", True),
        U("pkg._impl", "class Base:\n    '''base'''\n    def run(self):\n        '''r'''\ndef helper(a):\n    '''h'''\nCONST = 1\n'''c'''\n"),
        U("pkg.api", "from pkg._impl import Base, helper\n"
                     "class K(Base):\n    '''k, see L{helper}'''\n    def run(self):\n        '''mine, see L{Base.run}'''\n"
                     "x: Base = None\n'''an x'''\n"
                     "def f(a: Base, b=helper) -> Base:\n    '''see L{pkg._impl.CONST}'''\n"),
    ], ["HIDDEN:pkg._impl"])
    # hidden member overridden in a visible subclass and cross-referenced
    add("hidden-member-overridden", [
        U("m", "class B:\n    '''b'''\n    def m(self):\n        '''bm'''\n    def n(self):\n        '''see L{m}'''\n    secret = 1\n    '''s'''\n"
               "class D(B):\n    '''d see L{B.m} and L{B.secret}'''\n    def m(self):\n        '''dm'''\n    secret = 2\n"),
        U("other", "import m\nclass E(m.D):\n    def m(self):\n        '''em see L{m.B.m}'''\n"),
    ], ["HIDDEN:m.B.m", "HIDDEN:m.B.secret"])
    # private objects at every level (module, class, nested class, method, attribute, inherited)
    add("private-everywhere", [
        U("pp", "'''p'''\nfrom pp._priv import _H\n", True),
        U("pp._priv", "'''private module'''\nclass _H:\n    '''h'''\n    def _m(self):\n        '''pm'''\n    _a = 1\n    '''pa'''\n"
                      "    class _N:\n        '''n'''\n        def z(self): pass\n    def pub(self):\n        '''x'''\n"
                      "def _f():\n    '''pf'''\n_v = 1\n'''pv'''\n"),
        U("pp.use", "from pp._priv import _H\nclass Pub(_H):\n    '''pub see L{_H._m}'''\n    def _own(self):\n        '''o'''\n"
                    "class _Q(Pub):\n    pass\n"),
        U("pp._sub", "'''private package'''\nclass Z:\n    '''z'''\n", True),
        U("pp._sub.deep", "def g():\n    '''g'''\n"),
    ], [])
    add("private-by-rule", [
        U("pp", "'''p'''\n", True),
        U("pp.a", "class K:\n    '''k'''\n    def f(self):\n        '''f'''\n    def g(self):\n        '''g'''\nclass L(K):\n    def f(self):\n        '''lf'''\n"),
    ], ["PRIVATE:pp.a.K.f", "PRIVATE:pp.a.L", "PRIVATE:**.g"])
    # a class defined twice (superseded 'C 0'), used as a base in between, with a nested class
    add("duplicate-class", [
        U("dup", "class Base:\n    '''base'''\n    def f(self):\n        '''bf'''\n"
                 "class C(Base):\n    '''first'''\n    def __init__(self, a):\n        '''init'''\n    def f(self):\n        '''ff'''\n"
                 "    def g0(self):\n        '''g0'''\n    class Inner:\n        '''in'''\n"
                 "class D(C):\n    '''d see L{D.g0}'''\n    def f(self):\n        '''df'''\n"
                 "class C(Base):\n    '''second'''\n    def g(self):\n        '''gg'''\n"
                 "def h(): pass\ndef h():\n    '''h2'''\n"),
    ], [])
    add("duplicate-in-package", [
        U("dp", "", True),
        U("dp.m", "class C:\n    def f(self): pass\n    def f(self):\n        '''again'''\nclass E(C):\n    '''e'''\nx = 1\nx = 2\n'''x'''\n"),
    ], ["HIDDEN:dp.m.E"])
    # inherited docstring whose cross-reference is relative to the class it was written in
    add("inherited-docstring", [
        U("inh", "class Base:\n    '''base'''\n    def meth(self):\n        '''m'''\n    def other(self):\n        '''see L{meth}'''\n"
                 "class Sub(Base):\n    '''sub'''\n    def other(self):\n        pass\n"
                 "class Sub2(Base):\n    '''sub2'''\n    def other(self): pass\n    def meth(self):\n        '''own'''\n"),
    ], [])
    # the same with the links in @see / @note / @author / @since fields: FieldHandler only stores these fields and formats
    # them in FieldHandler.format(), after format_docstring's switch_context(obj) blocks have ended
    add("inherited-docstring-late-fields", [
        U("inl", "class Base:\n    '''base'''\n    def other(self):\n        '''o'''\n"
                 "    def m(self):\n        '''The m.\n\n        @see: L{other}\n        @note: also L{other}\n"
                 "        @author: the author of L{Base.other}\n        @since: L{other} exists\n        '''\n"
                 "    attr = 1\n    '''an attribute\n\n    @see: L{m}\n    '''\n"
                 "class Sub(Base):\n    '''sub'''\n    def m(self):\n        pass\n    attr = 2\n"
                 "class Sub2(Base):\n    '''sub2 defines the sibling itself'''\n    def m(self): pass\n    def other(self):\n        '''own'''\n"),
    ], [])
    # ... and the subclass's own sibling of that name is hidden: the mis-shortened '#other' is then the address of a hidden object
    S.append({"name": "inherited-docstring-late-fields-hidden-sibling", "units": S[-1]["units"], "privacy": ["HIDDEN:inl.Sub2.other"]})
    # class-private names (__name): mangled with the class name, they override, are overridden by and mask nothing (d869973)
    add("class-private-names", [
        U("cp", "class Base:\n    '''base'''\n    def __setup(self):\n        '''s'''\n    def run(self):\n        '''r'''\n    __slot = 1\n    '''sl'''\n"
                "class Sub(Base):\n    '''sub'''\n    def __setup(self):\n        '''own'''\n    def run(self):\n        '''r2'''\n"
                "class Sub2(Sub):\n    '''sub2'''\n    __slot = 2\n    def __dunder__(self):\n        '''d'''\n"
                "class Sub3(Sub2):\n    '''sub3'''\n    def __dunder__(self):\n        '''d3'''\n"),
    ], [])
    # hidden roots: the only root / one of two
    # class index: a base that could not be resolved although a class of that name exists (import cycle + re-export)
    # shares its dict key with that class, which is registered later and overwrites the entry
    add("class-index-key-collision", [
        U("ck", "from ck.d import C_r\nclass K:\n    '''k'''\n", True),
        U("ck.api", "import ck as m_ck\nclass C(m_ck.K):\n    '''c'''\n"),
        U("ck.d", "from ck.api import C as C_r\n__all__ = ['C_r']\n"),
    ], [])
    # reStructuredText footnote: docutils writes the back-link without going through pydoctor's starttag()
    add("rst-footnote", [
        U("fn", "\"\"\"\nText with a footnote [1]_.\n\n.. [1] The note.\n\"\"\"\n"
                "__docformat__ = 'restructuredtext'\ndef f():\n    \"\"\"Summary line.\n\n    Section\n    =======\n\n    body\n    \"\"\"\n"
                "class K:\n    \"\"\"Title\n    =====\n\n    Sub\n    ---\n\n    text\n    \"\"\"\n"),
    ], [])
    # reStructuredText internal reference (`name_` -> `.. _name:`) in the first sentence: the summary is copied to the
    # parent's table, moduleIndex / classIndex / all-documents, the target stays on the object's page
    add("rst-summary-internal-reference", [
        U("rr", "\"\"\"See details_ for more.\n\nLater.\n\n.. _details:\n\nThe details paragraph.\n\"\"\"\n"
                "__docformat__ = 'restructuredtext'\n"
                "class K:\n    \"\"\"Read notes_ first.\n\n    .. _notes:\n\n    The notes.\n    \"\"\"\n"
                "    def f(self):\n        \"\"\"Uses `the target`_ here.\n\n        .. _the target:\n\n        Target paragraph.\n        \"\"\"\n"
                "def g():\n    \"\"\"Plain summary.\n\n    Body refers to more_.\n\n    .. _more:\n\n    More.\n    \"\"\"\n"),
    ], [])
    # the header / annotations of a NESTED class (own page) naming variables and classes of the OUTER class that are not
    # defined at module level: _AnnotationLinker resolves them through the scope's linker, whose links must be made for
    # the nested class's page too (seeded change C11-r5-2)
    add("nested-class-header-names-outer-variables", [U("shapes", NESTED_HEADER_SRC("Canvas", "_PointBase", "T", "Point", "Layer"))], [])
    add("nested-class-header-private-outer", [U("shapes", NESTED_HEADER_SRC("_Canvas", "PB", "T", "Point", "Layer"))],
        ["PRIVATE:shapes._Canvas.T"])
    # hunter round (C12/1, C12/2): a property is three objects (the attribute 'secret' and the sibling functions
    # 'secret.setter', 'secret.deleter'): a rule for the property does not name the accessors; a PRIVATE class with a
    # public (or a superseded, invisible) subclass in the class index
    pasrc = ("'''m'''\nclass C:\n    '''c'''\n    @property\n    def secret(self):\n        '''Getter.'''\n        return 1\n"
             "    @secret.setter\n    def secret(self, value):\n        '''Setter.'''\n    @secret.deleter\n    def secret(self):\n        '''Deleter.'''\n"
             "    @property\n    def _quiet(self):\n        '''private by its name'''\n        return 1\n    @_quiet.setter\n    def _quiet(self, v):\n        '''s'''\n")
    add("hidden-property-accessors", [U("pa", pasrc)], ["HIDDEN:pa.C.secret"])
    add("private-property-accessors", [U("pa", pasrc)], ["PRIVATE:pa.C.secret"])
    add("private-class-with-public-subclass", [
        U("pcs", "'''m'''\nclass _Base:\n    '''b'''\nclass Public(_Base):\n    '''p'''\nclass _Lonely:\n    '''l'''\n"
                 "class Twice(_Lonely):\n    '''first'''\nclass Twice:\n    '''second'''\nclass _Leaf(_Base):\n    '''leaf'''\n"),
    ], [])
    # hunter round (C11/1..4) -----------------------------------------------------------------------------------------
    # the type of a re-exported variable given by an @type field of the ORIGINAL module's docstring: extract_fields hands
    # the very ParsedDocstring of the field body to the attribute; the module's FieldHandler.handle_type formats it too
    # and ParsedDocstring.to_stan caches the first rendering whatever page it was made for (oracle-only: which page
    # comes first is not part of the Output model)
    add("reexported-variable-field-type", HUNT_FIELD_TYPE_UNITS("pkgvt"), [], oracle_only=True)
    # a sectioned docstring that cannot be rendered (html2stan refuses &nbsp;) falls back to plain text, without
    # headings; the sidebar table of contents only needs to_node()
    add("sectioned-docstring-plain-text-fallback", [
        U("tool", "\"\"\"\nCommand line tool.\n\nUsage\n=====\n\n-v                        be verbose\n"
                  "--output-directory=DIR    where the files go\n\nDetails\n=======\n\nSome more text.\n\"\"\"\n"
                  "__docformat__ = 'restructuredtext'\nclass K:\n    \"\"\"\n    A class.\n\n    Usage\n    =====\n\n"
                  "    --a-very-long-option=VALUE    what it does\n    \"\"\"\n"),
        U("tool2", "'''\nEpytext with a no-break space.\n\nUsage\n=====\n\nuse\u00a0it\n\nDetails\n=======\n\nmore\n'''\n"),
    ], [])
    # a reST docstring that is ONE top-level section: docutils promotes its title to the document title, whose ids are
    # never written
    add("rst-promoted-title", [
        U("frob", "\"\"\"\n.. _top:\n\nFrobnicator\n===========\n\nFrobnicates things.\n\nInstallation\n------------\n\nNothing to do.\n\n"
                  "Usage\n-----\n\nSee Installation_ first, then go back to the introduction of Frobnicator_ (top_).\n\"\"\"\n"
                  "__docformat__ = 'restructuredtext'\n"),
    ], [])
    # a label before a code example: visit_doctest_block writes the colorized example without the node's ids
    add("rst-label-before-code-example", [
        U("net", "__docformat__ = 'restructuredtext'\ndef connect(host):\n    \"\"\"\n    Open a connection.\n\n"
                 "    See the example_ and the `longer example`_ below, and the remark_.\n\n    .. _example:\n\n    >>> connect('localhost')\n    <Connection>\n\n"
                 "    .. _longer example:\n\n    .. code-block:: python\n\n       with connect('localhost') as c:\n           c.send(b'x')\n\n"
                 "    .. _remark:\n\n    A labelled paragraph.\n    \"\"\"\n"),
    ], [])
    # a re-exported function keeps the linker (and its page) of the module it was defined in
    add("reexported-function-context", [
        U("rx", "'''pkg'''\nfrom ._impl import api\n__all__ = ['api']\n", True),
        U("rx._impl", "def helper():\n    '''h'''\ndef api(a, b=1):\n    '''see L{helper}'''\n"),
    ], [])
    # what is inside a re-exported class keeps the module it was defined in (sidebar), here a hidden one
    add("moved-class-nested", [
        U("mv", "'''pkg'''\nfrom ._impl import Outer\n__all__ = ['Outer']\n", True),
        U("mv._impl", "class Outer:\n    '''o'''\n    class Inner:\n        '''i'''\n        def f(self):\n            '''f'''\n"
                      "class Stay:\n    '''s'''\n"),
    ], ["HIDDEN:mv._impl"])
    # the same exact name in several rules: the LAST one wins (both orders), also against a later pattern; rules given
    # in setup.cfg; command-line rules replacing the configuration file's; a rule for a member of a hidden container
    dupsrc = ("'''m'''\nclass _Secret:\n    '''s'''\n    def secret_method(self):\n        '''sm'''\nclass Old:\n    '''o'''\n"
              "class Api(_Secret):\n    '''see L{_Secret} and L{Old}'''\n")
    add("duplicate-exact-rules", [U("dr", dupsrc)],
        ["PUBLIC:dr._Secret", "PUBLIC:dr.Old", "HIDDEN:dr._Secret", "PRIVATE:dr.Old"])
    add("duplicate-exact-rules-reversed", [U("dr", dupsrc)],
        ["PRIVATE:dr.Old", "HIDDEN:dr._Secret", "PUBLIC:dr.Old", "PUBLIC:dr._Secret"])
    add("exact-beats-later-pattern", [U("dr", dupsrc)], ["HIDDEN:dr.Old", "PUBLIC:dr.*", "PRIVATE:*.Api"])
    add("rules-in-config-file", [U("dr", dupsrc)], [], cfg_privacy=["PUBLIC:dr._Secret", "HIDDEN:dr._Secret", "HIDDEN:dr.Api"])
    add("config-replaced-by-command-line", [U("dr", dupsrc)], ["PRIVATE:dr.Api"], cfg_privacy=["HIDDEN:dr.Api", "HIDDEN:dr.Old"])
    add("member-of-hidden-container", [U("dr", dupsrc)], ["PUBLIC:dr._Secret.secret_method", "HIDDEN:dr._Secret"])
    # sectioned docstrings (module and class; reStructuredText and epytext) x --sidebar-expand-depth 1..4: the sidebar
    # builds a table of contents for nested items too, the titles' back-references must lead to an entry on the page
    rst_mod = ('"""\nModule with sections.\n\nUsage\n=====\n\nUse it.\n\nDetails\n=======\n\nMore.\n"""\n'
               "__docformat__ = 'restructuredtext'\n"
               'class K:\n    """\n    Class doc.\n\n    Title\n    =====\n\n    text\n\n    Sub\n    ---\n\n    t\n    """\n'
               '    def m(self):\n        """m"""\n'
               'def f():\n    """f"""\n')
    rst_other = '"""\nOther.\n\nIntro\n=====\n\nx\n"""\n' "__docformat__ = 'restructuredtext'\n" 'class Z:\n    """\n    Z.\n\n    Zed\n    ===\n\n    z\n    """\n'
    epy_mod = ('"""\nEpytext module.\n\nUsage\n=====\n\nUse it.\n"""\n'
               'class E:\n    """\n    Class doc.\n\n    Title\n    =====\n\n    text\n    """\n')
    for depth in (1, 2, 3, 4):
        add("sectioned-docstrings-depth%d" % depth,
            [U("sd", "'''pkg'''\n", True), U("sd.secs", rst_mod), U("sd.other", rst_other), U("sd.epy", epy_mod)], [],
            opts={"expand": depth, "toc": 6})
    add("sectioned-docstrings-two-roots", [U("secs", rst_mod), U("other", rst_other)], [], opts={"expand": 3})
    # a re-exported object whose default value / decorator argument / constant value names a variable of the module
    # it was DEFINED in: the link is made by the object's own linker, created while that module was visited
    impl = ("DEFAULT = 1\n'''d'''\nOTHER = 2\n'''o'''\n"
            "def f(x=DEFAULT):\n    '''f'''\n"
            "def deco(a):\n    return lambda fn: fn\n"
            "@deco(OTHER)\ndef g(y: int = 0):\n    '''g'''\n"
            "X = DEFAULT + 1\n'''x'''\n"
            "class Base:\n    '''b'''\n"
            "class Moved(Base):\n    '''moved'''\n    def meth(self, z=DEFAULT):\n        '''mm'''\n    limit = OTHER\n    '''l'''\n")
    add("reexported-default-value", [U("rd", "from ._impl import f, DEFAULT\n__all__ = ['f']\n", True), U("rd._impl", impl)], [])
    add("reexported-default-value-with-constant", [U("rd", "from ._impl import f, DEFAULT\n__all__ = ['f', 'DEFAULT']\n", True),
                                                    U("rd._impl", impl)], [])
    add("reexported-decorator-constant-class", [U("rd", "from ._impl import g, X, Moved\n__all__ = ['g', 'X', 'Moved']\n", True),
                                                U("rd._impl", impl)], ["PRIVATE:rd._impl"])
    # a root module named like a summary page: which of the two writers wins?
    cls_src = "'''m'''\nclass C:\n    '''c'''\n    def m(self):\n        '''mm'''\n"
    for nm in ("classIndex", "nameIndex", "moduleIndex", "undoccedSummary", "index"):
        add("root-named-%s" % nm, [U(nm, cls_src)], [], oracle_only=True)
    add("roots-named-classIndex-and-other", [U("classIndex", cls_src), U("other", "'''o'''\nfrom classIndex import C\nclass D(C):\n    '''d'''\n")],
        [], oracle_only=True)
    # --html-subject: only the named objects are written (no summary pages: C11 does not judge these partial outputs);
    # the traversal does not start at the roots, so nothing above the subject is looked at on the way down
    hs = [U("hs", "'''pkg'''\n", True),
          U("hs._impl", "'''impl'''\nclass Engine:\n    '''e'''\n    def start(self):\n        '''s'''\n    class Part:\n        '''p'''\n"),
          U("hs.api", "'''api'''\nclass Client:\n    '''c'''\n    def call(self):\n        '''call'''\n    def _secret(self):\n        '''s'''\n")]
    add("html-subject-inside-hidden-module", hs, ["HIDDEN:hs._impl"], opts={"subject": ["hs._impl.Engine"]}, oracle_only=True)
    add("html-subject-hidden-module", hs, ["HIDDEN:hs._impl"], opts={"subject": ["hs._impl"]}, oracle_only=True)
    add("html-subject-visible-class", hs, ["HIDDEN:hs.api.Client._secret"], opts={"subject": ["hs.api.Client", "hs._impl"]}, oracle_only=True)
    # the only root is hidden: nothing is documented, the summary pages are still written (and link to index.html)
    add("hidden-single-root", [U("solo", "'''s'''\nclass A:\n    '''a'''\n", True), U("solo.m", "x = 1\n")], ["HIDDEN:solo"])
    # a module named __main__ is PRIVATE by default; since c8d85b0 a --privacy rule overrides that default like any other:
    # a rule that hides it really hides it (before, Module.privacyClass answered PRIVATE whatever the rules said)
    main_pkg = [U("tool", "'''tool, see L{tool.__main__.run}'''\n", True),
                U("tool.__main__", "'''entry point'''\ndef run(argv):\n    '''run it'''\nclass Cmd:\n    '''c'''\n"),
                U("tool.lib", "from tool.__main__ import Cmd\nclass Sub(Cmd):\n    '''see L{tool.__main__}'''\n")]
    add("dunder-main-hidden-by-exact-rule", main_pkg, ["HIDDEN:tool.__main__"])
    add("dunder-main-hidden-by-pattern", main_pkg, ["PUBLIC:tool.*", "HIDDEN:**.__main__"])
    # dunder-named classes, functions and variables (public by default) targeted by exact rules and patterns
    add("dunder-names-targeted", [
        U("dn", "'''dn'''\n__version__ = '1'\n'''v'''\nclass __Meta__:\n    '''meta'''\n    def __call__(self):\n        '''call'''\n"
                "    def __len__(self):\n        '''len'''\n"
                "class User(__Meta__):\n    '''see L{__Meta__} and L{__Meta__.__call__} and L{__version__}'''\n    def __call__(self):\n        '''mine'''\n", True),
        U("dn.__private__", "'''a dunder module'''\ndef helper():\n    '''h'''\n"),
    ], ["HIDDEN:dn.__Meta__", "PRIVATE:**.__call__", "HIDDEN:*.__version__", "HIDDEN:dn.__private__"])
    # --- shapes the seeded changes under /verif/seeded/C11*, C12* need (deterministic, whatever the seed)
    # C11-1 / C11-r2-2: exactly one root package whose name is reused by a nested module and a nested class, the root
    # documenting members of its own (links to index.html#member)
    add("root-name-reused", [
        U("tasks", "'''root, see L{run} and L{tasks.tasks.helper}'''\ndef run():\n    '''r'''\nLIMIT = 1\n'''l'''\n", True),
        U("tasks.tasks", "'''inner module of the same name, see L{tasks.run}'''\ndef helper():\n    '''h'''\n"),
        U("tasks.mod", "from tasks import run\nclass tasks:\n    '''a class of the same name, see L{run}'''\n    def m(self):\n        '''see L{tasks.LIMIT}'''\n"),
    ], [])
    # C11-2: a first sentence that links a member documented on the parent's page, shown on other pages
    add("summary-links-sibling", [
        U("sl", "'''m'''\ndef util():\n    '''u'''\nclass K:\n    '''uses L{util} of its module'''\n    def a(self):\n        '''see L{b}'''\n"
                "    def b(self):\n        '''b'''\nclass Sub(K):\n    '''sub'''\n    def b(self):\n        '''mine'''\n"),
    ], [])
    # C11-3 / C12-3: a hidden container with two and three levels below it, referenced from outside
    add("hidden-container-deep", [
        U("hp", "'''root'''\n", True),
        U("hp.tests", "'''hidden package'''\n", True),
        U("hp.tests.test_api", "class ApiTests:\n    '''t'''\n    def test_one(self):\n        '''one'''\n    class Inner:\n        '''i'''\n        def deep(self):\n            '''d'''\n"),
        U("hp.api", "from hp.tests.test_api import ApiTests\nclass Base:\n    '''b'''\nclass Shown(ApiTests, Base):\n    '''see L{hp.tests.test_api.ApiTests.Inner.deep}'''\n"),
    ], ["HIDDEN:hp.tests"])
    # C12-r2-1: a member hidden on its own inside a visible class, inherited (not overridden) by a visible subclass
    add("hidden-member-inherited", [
        U("shop", "class Base:\n    '''b'''\n    def zz_secret_a(self):\n        '''s'''\n    def open(self):\n        '''o'''\n    zz_secret_v = 1\n    '''v'''\n"
                  "class Child(Base):\n    '''c'''\n    def own(self):\n        '''own'''\n"),
    ], ["HIDDEN:shop.Base.zz_secret_*"])
    # C12-r2-2: two patterns matching the same object with different levels, the more restrictive one later (and earlier)
    acme = [U("acme", "'''a'''\n", True), U("acme._vendored", "class V:\n    '''v'''\n    def m(self):\n        '''m'''\n"),
            U("acme.compat", "from acme._vendored import V\nclass C(V):\n    '''see L{acme._vendored.V}'''\n")]
    add("overlapping-patterns", acme, ["PUBLIC:**", "HIDDEN:acme._vendored**", "PRIVATE:acme.compat*"])
    add("overlapping-patterns-general-last", acme, ["HIDDEN:acme._vendored**", "PRIVATE:acme.compat*", "PUBLIC:**"])
    # C12-r2-3 / C12-1: a PRIVATE class whose only subclass is hidden (class index marker); a private class's own page
    add("private-class-hidden-subclass", [
        U("pc", "class _Priv:\n    '''p'''\n    def m(self):\n        '''m'''\nclass Gone(_Priv):\n    '''g'''\n"
                "class Marked:\n    '''by rule'''\nclass Kid(Marked):\n    '''k'''\n"),
    ], ["HIDDEN:pc.Gone", "PRIVATE:pc.Marked"], opts={"expand": 2})
    # C12-r3-1: rules whose only wildcard is a character set ([seq], [!seq], ranges), alone and next to exact rules
    brk = [U("bk", "'''b'''\n", True),
           U("bk.test_1", "'''t1'''\ndef t():\n    '''t'''\n"), U("bk.test_2", "'''t2'''\n"), U("bk.test_x", "'''tx'''\n"),
           U("bk.core", "class ImplA:\n    '''a'''\n    def m(self):\n        '''m'''\nclass ImplB(ImplA):\n    '''b see L{ImplA}'''\n"
                        "class ImplC(ImplA):\n    '''c'''\nclass User(ImplB):\n    '''see L{bk.test_1.t} and L{ImplC}'''\n")]
    add("bracket-only-patterns", brk, ["HIDDEN:bk.test_[0-9]", "PRIVATE:bk.core.Impl[AB]"])
    add("bracket-negated-and-range", brk, ["HIDDEN:bk.test_[!0-9]", "PRIVATE:bk.core.Impl[B-C]", "PUBLIC:bk.core.ImplC"])
    add("bracket-then-exact-and-twice", brk, ["HIDDEN:bk.core.Impl[AB]", "PUBLIC:bk.core.ImplA", "PRIVATE:bk.test_[12]", "HIDDEN:bk.test_[12]"])
    # identifiers outside ASCII: url percent-encodes them; a browser decodes the href before asking for the file (since
    # b01e5ed the writer names the file by the decoded url; the crawl resolves hrefs percent-decoded, path and fragment)
    add("non-ascii-names", [
        U("na", "'''pkg'''\n", True),
        U("na.caf\u00e9", "'''module caf\u00e9'''\nclass Caf\u00e9:\n    '''c'''\n    def cr\u00e8me(self):\n        '''m'''\n"
                          "def gr\u00fc\u00dfe():\n    '''g'''\nclass Th\u00e9(Caf\u00e9):\n    '''t'''\n"),
    ], [])
    # several roots, one of them named `index`: its page and the project's IndexPage share index.html
    add("roots-named-index-and-other", [U("index", cls_src), U("other", "'''o'''\n")], [], oracle_only=True)
    add("roots-named-nameIndex-and-other", [U("nameIndex", cls_src), U("other", "'''o'''\n")], [], oracle_only=True)
    # (a project whose only root is hidden has no visible object at all: lunr then divides by zero and the run aborts
    #  before anything is written - nothing to crawl; counted as `run-crash` when a random rule list does it)
    add("hidden-one-of-two-roots", [U("r1", "'''one see L{r2.B}'''\nclass A:\n    '''a'''\n"), U("r2", "'''two'''\nfrom r1 import A\nclass B(A):\n    '''see L{r1}'''\n")],
        ["HIDDEN:r1"])
    add("two-roots", [U("r1", "'''one'''\nclass A:\n    '''a'''\n    def __init__(self, a):\n        '''i'''\n", True),
                      U("r1._p", "def f(): pass\n"),
                      U("r2", "'''two'''\nfrom r1 import A\nclass B(A):\n    '''see L{r1.A}'''\n")], [])
    # constructors, nested classes, a hidden nested class and a hidden constructor
    add("constructors-nested", [
        U("cn", "class A:\n    '''a'''\n    def __init__(self, a, b=1):\n        '''init'''\n    class N:\n        '''n'''\n        def __init__(self, z):\n            '''ni'''\n"
                "        class NN:\n            '''nn'''\n            v = 1\n"
                "class B(A):\n    '''b'''\n    def __init__(self, c):\n        '''bi'''\n"
                "class H(A.N):\n    '''h see L{A.N.NN}'''\n"),
    ], ["HIDDEN:cn.A.N.NN", "HIDDEN:cn.B.__init__"])
    # annotations and signatures mentioning hidden and private classes; via-bases through a hidden class
    add("annotations-and-via", [
        U("av", "class Root:\n    '''r'''\n    def r(self):\n        '''rr'''\n"
                "class Mid(Root):\n    '''m'''\n"
                "class Leaf(Mid):\n    '''l'''\n    attr: Mid = None\n    '''the attr'''\n"
                "    def meth(self, a: Root, b: 'Mid' = None) -> Mid:\n        '''mm'''\n"
                "def fn(x: Mid) -> Root:\n    '''f'''\nV: Mid = None\n'''v'''\n"),
    ], ["HIDDEN:av.Mid"])
    return S


XREF_HOOK = re.compile(r"'''(m|f|attr doc|var doc|inst doc) ?([A-Za-z_]*)'''")
DOC_HOOK = re.compile(r'"""(doc of|module) ([A-Za-z_.]+)')


def random_project(rng) -> List[Unit]:
    """a project of harness.gen.project.Gen with explicit L{...} cross-references planted in docstrings"""
    knobs = Knobs(dup=rng.choice([0.1, 0.25, 0.4]), reexport=rng.choice([0.0, 0.35]), star=0.2,
                  dotted_names=rng.random() < 0.3, fields=0.2, max_modules=rng.choice([2, 4, 6]))
    g = Gen(rng, knobs)
    units = g.project()
    # candidate targets: qualified names of top-level definitions, members by bare name
    cands: List[str] = []
    for q, ns in list(g.defs.items()) + list(g.funcs.items()):
        for n in ns:
            cands.append(q + "." + n)
            cands.append(n)
    for u in units:
        cands.append(u.qname)
    cands += ["f", "g", "x", "K.f", "Base", "_Q", "run", "nosuch.thing"]
    # a project written in reStructuredText (the docformat of a package is inherited by its modules: all or nothing);
    # no L{...} is planted there
    rst_project = rng.random() < 0.10
    out = []
    for u in units:
        # names of the methods / functions of this unit: a late field often names a sibling by its bare name
        siblings = re.findall(r"^\s*def ([A-Za-z_][A-Za-z_0-9]*)\(", u.source, flags=re.M)

        def plant(m):
            body = "%s %s" % (m.group(1), m.group(2))
            hit = False
            if rng.random() < 0.45 and cands:
                body += " see L{%s}" % rng.choice(cands)
                hit = True
            # fields that FieldHandler.format() formats itself (@see, @note, @author, @since): when the docstring is
            # inherited by an override without docstring, their links are made for the page of the base class
            if m.group(1) in ("m", "f", "attr doc") and rng.random() < 0.25 and (cands or siblings):
                for tag in rng.sample(["see", "note", "author", "since", "seealso"], rng.choice([1, 1, 2])):
                    t = rng.choice(siblings) if siblings and rng.random() < 0.6 else rng.choice(cands or siblings)
                    body += "\n\n@%s: L{%s}" % (tag, t) if not hit else "\n@%s: L{%s}" % (tag, t)
                    hit = True
            return "'''%s'''" % body if hit else m.group(0)

        def plant2(m):
            if rng.random() < 0.45 and cands:
                return '"""%s %s see L{%s}' % (m.group(1), m.group(2), rng.choice(cands))
            return m.group(0)
        src = u.source
        if not rst_project:
            src = XREF_HOOK.sub(plant, src)
            src = DOC_HOOK.sub(plant2, src)
        # a sectioned docstring (epytext and reStructuredText share the underlined-title syntax): sidebar tables of
        # contents, heading back-references
        r_sect = rng.random()
        if rst_project:
            # summaries that hold internal references (`name_` -> `.. _name:`): the summary is copied to other pages
            # (tables, moduleIndex, classIndex, all-documents), the target is not
            q3 = '"' * 3
            variant = rng.choice(["summary-ref", "summary-ref", "promoted-title", "label-before-example", "unrenderable", "plain"])
            tail = {"summary-ref": " see details_ here.\n\nMore.\n\n.. _details:\n\nthe details\n",
                    # one top-level section (+ label): docutils promotes the title, its ids are never written
                    "promoted-title": "\n\n.. _top:\n\nGuide\n=====\n\nText.\n\nInstall\n-------\n\nSee Guide_ and top_ and Install_.\n",
                    # a label before a doctest block / code-block
                    "label-before-example": "\n\nSee the example_ and `the other`_.\n\n.. _example:\n\n>>> 1 + 1\n2\n\n.. _the other:\n\n.. code-block:: python\n\n   x = 1\n",
                    # sections + an option list with a long option (&nbsp; in docutils' HTML: html2stan fails, plain-text fallback)
                    "unrenderable": "\n\nUsage\n=====\n\n--output-directory=DIR    where the files go\n\nDetails\n=======\n\nmore\n",
                    "plain": ""}[variant]
            if tail:
                src = re.sub(r'^("""module [^\n]*?)"""',
                             lambda m: (m.group(1) + tail + q3) if variant == "summary-ref" else (q3 + tail.lstrip("\n") + "\n" + m.group(1)[3:] + ".\n" + q3)
                             if variant == "promoted-title" else (q3 + "\n" + m.group(1)[3:] + "." + tail + q3),
                             src, count=1, flags=re.M)
            src = re.sub(r'^(    """doc of [^\n]*)\n    """',
                         lambda m: (m.group(1) + " with notes_ first.\n\n    .. _notes:\n\n    the notes\n    " + q3)
                         if rng.random() < 0.7 else m.group(0), src, flags=re.M)
            src += "\n__docformat__ = 'restructuredtext'\n"
            r_sect = 1.0
        if r_sect < 0.3:
            # (one time in five the text has a no-break space: html2stan refuses the entity, the docstring falls back to
            # plain text without headings; not when the docstring holds an L{...}: the model expects that link on the page)
            sect = "\n\nUsage\n=====\n\nuse%sit\n\nDetails\n-------\n\nmore\n" % ("\u00a0" if rng.random() < 0.2 else " ")
            src = re.sub(r'^("""module [^\n]*?)"""', lambda m: m.group(1) + (sect.replace("\u00a0", " ") if "L{" in m.group(1) else sect) + '"""', src, count=1, flags=re.M)
            src = re.sub(r'^(    """doc of [^\n]*)\n    """', lambda m: m.group(1) + "\n\n    Notes\n    =====\n\n    n\n    \"\"\"", src, flags=re.M)
        # a default value that names a variable of the module (the link is made by the function's own linker)
        tops = re.findall(r"^([A-Za-z_][A-Za-z_0-9]*) = 1$", src, flags=re.M)
        if tops and rng.random() < 0.5:
            src = src.replace("(a, b=1):", "(a, b=%s):" % rng.choice(tops))
        # a documented method with late-formatted fields naming a sibling, inherited by an override without docstring
        # (the subclass sometimes defines the sibling itself, sometimes the sibling is private or nested deeper)
        if not rst_project and rng.random() < 0.12:
            a, b = rng.sample(["f", "g", "run", "_p", "x", "y", "__q"], 2)
            tags = rng.sample(["see", "note", "author", "since", "seealso"], rng.choice([1, 2]))
            ref = rng.choice([a, a, "LBase." + a])
            fam = ["class LBase:", "    '''doc of LBase'''", "    def %s(self):" % a, "        '''m %s'''" % a,
                   "    def %s(self):" % b, "        '''m %s%s\n" % (b, rng.choice(["", " see L{%s}" % a]))]
            fam += ["        @%s: L{%s}" % (t, ref) for t in tags] + ["        '''"]
            fam += ["class LSub(LBase):", "    def %s(self): pass" % b]
            if rng.random() < 0.3:
                fam += ["    def %s(self):" % a, "        '''own %s'''" % a]
            if rng.random() < 0.3:
                fam += ["class LSubSub(LSub):", "    '''doc of LSubSub'''", "    def %s(self): return 3" % b]
            src += "\n" + "\n".join(fam) + "\n"
        # nested classes whose bases / generic arguments / annotations name variables of the outer class
        if not rst_project and rng.random() < 0.08 and "class NOuter" not in src:
            src += "\n" + NESTED_HEADER_SRC(rng.choice(["NOuter", "_NOuter"]), rng.choice(["_PB", "PB"]), rng.choice(["T", "_T"]),
                                            rng.choice(["Point", "_Pt", "f"]), rng.choice(["Layer", "K", "x"])).split("\n", 1)[1] + "\n"
        out.append(Unit(u.qname, u.is_package, src, u.parent))
    # sometimes a package gets a __main__ module (private by default, rules apply; see random_privacy)
    pkgs = [u.qname for u in out if u.is_package]
    if pkgs and rng.random() < 0.15:
        pk = rng.choice(pkgs)
        out.append(Unit(pk + ".__main__", False, "\'\'\'entry point see %s\'\'\'\ndef main(argv):\n    \'\'\'run\'\'\'\n"
                        % (pk if rst_project else "L{%s}" % pk), pk))
    return out


def known_names(units: Sequence[Unit]) -> List[str]:
    """qualified names defined in the project (by a quick regex; only used to aim privacy rules)"""
    names: List[str] = []
    for u in units:
        names.append(u.qname)
        stack: List[Tuple[int, str]] = []
        for line in u.source.split("\n"):
            m = re.match(r"^(\s*)(class|def)\s+([A-Za-z_][A-Za-z_0-9]*)", line)
            m2 = re.match(r"^(\s*)([A-Za-z_][A-Za-z_0-9]*)\s*(:[^=]+)?=", line)
            mm = m or m2
            if not mm:
                continue
            ind = len(mm.group(1))
            nm = mm.group(3) if m else mm.group(2)
            while stack and stack[-1][0] >= ind:
                stack.pop()
            full = ".".join([u.qname] + [s[1] for s in stack] + [nm])
            names.append(full)
            if m and m.group(2) == "class":
                stack.append((ind, nm))
    return list(dict.fromkeys(names))


LEVELS = ["HIDDEN", "PRIVATE", "PUBLIC"]


def random_privacy(rng, units: Sequence[Unit]) -> List[str]:
    """a list of rules: exact names and patterns, three levels, any order; the same exact name in two or three rules with
    different levels (both orders occur), exact-vs-pattern conflicts on one object (both orders), rules for members of a
    hidden container"""
    names = known_names(units)
    nonroot = [n for n in names if "." in n] or names
    rules: List[str] = []

    def bracket_only(n: str) -> str:
        """a pattern whose only wildcard is a character set: it matches n (or, negated / with another set, does not)"""
        parts = n.split(".")
        last = parts[-1]
        i = rng.randrange(len(last))
        ch = last[i]
        other = "x" if ch != "x" else "y"
        cls = rng.choice(["[%s]" % ch, "[%s%s]" % (ch, other), "[!%s]" % other, "[!%s]" % ch,
                          "[%s-%s]" % (ch, ch) if ch.isalnum() else "[%s]" % ch,
                          "[a-z]" if ch.islower() else "[A-Z]" if ch.isupper() else "[0-9_]"])
        return ".".join(parts[:-1] + [last[:i] + cls + last[i + 1:]])

    def pattern_for(n: str) -> str:
        parts = n.split(".")
        if rng.random() < 0.25:
            return bracket_only(n)
        return rng.choice([
            "*." + parts[-1], "**." + parts[-1], ".".join(parts[:-1]) + ".*", "*._*", "**._*",
            parts[0] + ".**", "*.?", ".".join(parts[:-1] + [parts[-1][:1] + "*"]), "**.[a-f]",
        ])
    for _ in range(rng.choice([0, 1, 1, 2, 3, 4])):
        level = rng.choice(["HIDDEN", "HIDDEN", "PRIVATE", "PUBLIC"])
        form = rng.choice(["exact", "exact", "exact", "pattern", "pattern"])
        if form == "exact":
            pool = nonroot if rng.random() < 0.93 else names
            pat = rng.choice(pool)
        else:
            pat = pattern_for(rng.choice(nonroot))
        rules.append("%s:%s" % (level, pat))
    mains = [n for n in names if n.endswith(".__main__")]
    if mains and rng.random() < 0.7:
        rules.append(rng.choice(["HIDDEN:" + mains[0], "HIDDEN:**.__main__", "PUBLIC:" + mains[0]]))
    shape = rng.choice(["plain", "plain", "dup", "dup", "dup3", "exact-pattern", "pattern-exact", "inside-hidden",
                        "bracket", "bracket", "bracket-exact"])
    extra: List[str] = []
    if shape in ("dup", "dup3"):
        n = rng.choice(nonroot)
        lv = rng.sample(LEVELS, 3 if shape == "dup3" else 2)
        extra = ["%s:%s" % (l, n) for l in lv]
    elif shape in ("exact-pattern", "pattern-exact"):
        n = rng.choice(nonroot)
        parts = n.split(".")
        la, lb = rng.sample(LEVELS, 2)
        ex = "%s:%s" % (la, n)
        pt = "%s:%s" % (lb, rng.choice(["*." + parts[-1], "**." + parts[-1], ".".join(parts[:-1]) + ".*"]))
        extra = [ex, pt] if shape == "exact-pattern" else [pt, ex]
    elif shape == "bracket":
        # a rule whose only wildcard is [seq] / [!seq] / a range
        extra = ["%s:%s" % (rng.choice(["HIDDEN", "PRIVATE", "HIDDEN", "PUBLIC"]), bracket_only(rng.choice(nonroot)))]
    elif shape == "bracket-exact":
        # the same object named exactly and through a character set, in both orders; the same bracket rule twice
        n = rng.choice(nonroot)
        la, lb = rng.sample(LEVELS, 2)
        b = bracket_only(n)
        extra = rng.choice([["%s:%s" % (la, n), "%s:%s" % (lb, b)], ["%s:%s" % (lb, b), "%s:%s" % (la, n)],
                            ["%s:%s" % (la, b), "%s:%s" % (lb, b)]])
    elif shape == "inside-hidden":
        inner = [n for n in nonroot if n.count(".") >= 2] or nonroot
        n = rng.choice(inner)
        extra = ["HIDDEN:" + n.rsplit(".", 1)[0], "%s:%s" % (rng.choice(["PUBLIC", "PRIVATE"]), n)]
        if rng.random() < 0.5:
            extra.reverse()
    # interleave the shaped rules with the random ones, keeping their relative order
    pos = sorted(rng.randint(0, len(rules)) for _ in extra)
    for k, (i, r) in enumerate(zip(pos, extra)):
        rules.insert(i + k, r)
    return rules


def split_config(rng, rules: List[str]) -> Tuple[List[str], List[str]]:
    """where the rules are given: all on the command line, all in setup.cfg, or some in each.
    (command-line --privacy values REPLACE the ones of the configuration file: configargparse precedence, C20)"""
    how = rng.choice(["cli", "cli", "cli", "cfg", "both"])
    if how == "cli" or not rules:
        return rules, []
    if how == "cfg":
        return [], rules
    k = rng.randint(0, len(rules))
    return rules[k:], rules[:k]


def effective_rules(case: Dict[str, Any]) -> List[str]:
    """the rule list the run is given: the command line's if it has any --privacy, else the configuration file's"""
    return list(case.get("privacy") or []) or list(case.get("cfg_privacy") or [])


def random_options(rng) -> Dict[str, Any]:
    return {"theme": rng.choice(THEMES), "expand": rng.choice([1, 1, 2, 3, 5]), "toc": rng.choice([0, 1, 6]),
            "nosidebar": rng.random() < 0.1}


def real_package_cases(rng) -> List[Dict[str, Any]]:
    """real packages of the quantifier: parts of pydoctor itself, a stdlib package, a site package"""
    import json as _json
    from .core import REPO
    pk = [(str(REPO / "pydoctor" / "templatewriter"), "epytext"), (str(REPO / "pydoctor" / "epydoc"), "epytext"),
          (os.path.dirname(_json.__file__), "plaintext")]
    try:
        import attr as _attr
        pk.append((os.path.dirname(_attr.__file__), "restructuredtext"))
    except Exception:
        pass
    rules = [[], ["HIDDEN:**._*"], ["HIDDEN:*.*.[a-m]*", "PUBLIC:**.__init__"], ["PRIVATE:**.[a-f]*", "HIDDEN:**.*er"]]
    cases = []
    for path, fmt in pk:
        if os.path.isdir(path):
            cases.append({"name": "real:" + os.path.basename(path), "units": [], "path": path, "docformat": fmt,
                          "privacy": rng.choice(rules), "opts": random_options(rng)})
    return cases


def corpus_cases() -> List[Dict[str, Any]]:
    """the input of every `fixed` / `open` finding of C11 and C12 in known_findings.json (as recorded when it was found),
    one case per distinct project x rules: they run first on every run, whatever the seed"""
    from .core import load_known
    seen = set()
    cases: List[Dict[str, Any]] = []
    known = load_known()
    for prop in ("C11", "C12"):
        for e in known.get(prop, []):
            inp = e.get("input")
            if not isinstance(inp, dict) or "units" not in inp:
                continue
            key = json.dumps([inp.get("units"), inp.get("privacy"), inp.get("cfg_privacy")], sort_keys=True)
            if key in seen:
                continue
            seen.add(key)
            c = case_from_payload(inp)
            c["name"] = "corpus:%s:%s" % (prop, e["signature"])
            o = {"theme": "classic", "expand": 2, "toc": 6, "nosidebar": False}
            o.update(c.get("opts") or {})
            c["opts"] = o
            cases.append(c)
    return cases


def make_cases(rng, n_random: int, rule_lists: int = 1, scenarios: bool = True) -> List[Dict[str, Any]]:
    cases: List[Dict[str, Any]] = corpus_cases() if scenarios else []
    for sc in (scenario_projects() if scenarios else []):
        opts = {"theme": rng.choice(THEMES), "expand": rng.choice([1, 2, 3]), "toc": 6, "nosidebar": False}
        opts.update(sc.get("opts", {}))
        cases.append({"name": sc["name"], "units": sc["units"], "privacy": sc["privacy"], "cfg_privacy": sc.get("cfg_privacy", []),
                      "opts": opts, "oracle_only": bool(sc.get("oracle_only"))})
        # the same project under the default rules (no hidden object): baseline for the scenario
        if sc["privacy"] and rng.random() < 0.5:
            cases.append({"name": sc["name"] + "/default", "units": sc["units"], "privacy": [], "opts": random_options(rng)})
    for i in range(n_random):
        units = random_project(rng)
        for j in range(rule_lists):
            cli, cfg = split_config(rng, random_privacy(rng, units))
            cases.append({"name": "gen%d.%d" % (i, j), "units": units, "privacy": cli, "cfg_privacy": cfg,
                          "opts": random_options(rng)})
            if rng.random() < 0.04 and not any(u.qname == "pkgvt" for u in units):
                # the type of a re-exported variable given by a field of the original module's docstring (hunter C11/1);
                # oracle-only: which page renders the shared field body first is outside the Output model
                cases[-1]["units"] = list(units) + HUNT_FIELD_TYPE_UNITS("pkgvt")
                cases[-1]["oracle_only"] = True
            elif rng.random() < 0.04:
                # a partial run: --html-subject for a module or a top-level class (often inside something the rules hide)
                subj = [u.qname for u in units]
                for u in units:
                    subj += [u.qname + "." + c for c in re.findall(r"^class ([A-Za-z_][A-Za-z_0-9]*)", u.source, flags=re.M)]
                cases[-1]["opts"] = dict(cases[-1]["opts"], subject=[rng.choice(subj)])
                cases[-1]["oracle_only"] = True
    return cases


# =========================================================================== running pydoctor

def _units_payload(units: Sequence[Unit]) -> Dict[str, str]:
    return {(u.qname + ("/" if u.is_package else "")): u.source for u in units}


def case_payload(case: Dict[str, Any]) -> Dict[str, Any]:
    p = {"name": case["name"], "units": _units_payload(case["units"]), "privacy": case["privacy"], "opts": case["opts"]}
    if case.get("cfg_privacy"):
        p["cfg_privacy"] = list(case["cfg_privacy"])
    if case.get("oracle_only"):
        p["oracle_only"] = True
    if case.get("path"):
        p["path"] = case["path"]
        p["docformat"] = case.get("docformat", "epytext")
    return p


def case_from_payload(p: Dict[str, Any]) -> Dict[str, Any]:
    units = []
    for k, src in p["units"].items():
        pkg = k.endswith("/")
        q = k.rstrip("/")
        units.append(Unit(q, pkg, src, q.rpartition(".")[0] or None))
    units.sort(key=lambda u: (u.qname.count("."), u.qname))
    c = {"name": p.get("name", "replay"), "units": units, "privacy": p.get("privacy", []), "opts": p.get("opts", {}),
         "cfg_privacy": p.get("cfg_privacy", []), "oracle_only": bool(p.get("oracle_only"))}
    if p.get("path"):
        c["path"] = p["path"]
        c["docformat"] = p.get("docformat", "epytext")
    return c


def driver_args(case: Dict[str, Any], out: str, tops: Sequence[str]) -> List[str]:
    o = case["opts"]
    args = ["--html-output", out, "--project-name=proj", "--theme", o.get("theme", "classic"),
            "--sidebar-expand-depth", str(o.get("expand", 1)), "--sidebar-toc-depth", str(o.get("toc", 6)), "-q"]
    if o.get("nosidebar"):
        args.append("--no-sidebar")
    if case.get("docformat"):
        args.append("--docformat=" + case["docformat"])
    for r in case["privacy"]:
        args.append("--privacy=" + r)
    for sname in o.get("subject", ()):
        args.append("--html-subject=" + sname)
    return args + list(tops)


def run_case(case: Dict[str, Any]) -> Dict[str, Any]:
    """worker: one real run of pydoctor.driver.main, facts of the System it used, crawl of its output"""
    from pydoctor import driver
    tmp = tempfile.mkdtemp(prefix="pdout-")
    log = io.StringIO()
    captured: Dict[str, Any] = {}
    orig_make = driver.make
    cwd = os.getcwd()

    def make(system):
        captured["system"] = system
        return orig_make(system)
    res: Dict[str, Any] = {"case": case_payload(case)}
    try:
        os.chdir(tmp)
        tops = [case["path"]] if case.get("path") else write_tree(case["units"], os.path.join(tmp, "src"))
        if case.get("cfg_privacy"):
            # the run's working directory is tmp: pydoctor reads ./setup.cfg
            with open(os.path.join(tmp, "setup.cfg"), "w") as f:
                f.write("[tool:pydoctor]\nprivacy =\n" + "".join("    %s\n" % r for r in case["cfg_privacy"]))
        out = os.path.join(tmp, "out")
        driver.make = make
        try:
            with contextlib.redirect_stdout(log), contextlib.redirect_stderr(log):
                rc = driver.main(driver_args(case, out, tops))
        except SystemExit as e:
            res["crash"] = "SystemExit(%s) %s" % (e.code, log.getvalue()[-300:])
            return res
        except BaseException as e:    # noqa: a crashed run has no output to speak of (C01's business)
            res["crash"] = "%s: %s" % (type(e).__name__, str(e)[:200])
            return res
        finally:
            driver.make = orig_make
        res["rc"] = rc
        system = captured["system"]
        with contextlib.redirect_stdout(log), contextlib.redirect_stderr(log):
            res["facts"] = extract_facts(system)
        res["crawl"] = crawl_output(out)
        res["log"] = log.getvalue()[-400:]
        return res
    finally:
        os.chdir(cwd)
        shutil.rmtree(tmp, ignore_errors=True)


def run_cases(cases: Sequence[Dict[str, Any]], jobs: int = 16) -> List[Dict[str, Any]]:
    if len(cases) <= 2 or jobs <= 1:
        return [run_case(c) for c in cases]
    import multiprocessing as mp
    ctx = mp.get_context("fork")
    with ctx.Pool(min(jobs, len(cases)), maxtasksperchild=40) as pool:
        return pool.map(run_case, list(cases), chunksize=1)


# =========================================================================== facts of the real System

FIELD_START = re.compile(r"^\s*@(\w+)(?:[ \t]+[^:\n]*)?:", re.M)
LATE_FIELD_TAGS = ("see", "seealso", "note", "author", "since")


def split_late_fields(doc: str) -> List[Tuple[bool, str]]:
    """an epytext docstring cut at its field markers: (is a late-formatted field, text). @see/@seealso/@note/@author/
    @since are only stored by FieldHandler.handle_* and formatted in FieldHandler.format(); the body and every
    other field are formatted inside format_docstring's switch_context(obj) blocks"""
    out: List[Tuple[bool, str]] = []
    pos, late = 0, False
    for m in FIELD_START.finditer(doc):
        out.append((late, doc[pos:m.start()]))
        pos, late = m.start(), m.group(1) in LATE_FIELD_TAGS
    out.append((late, doc[pos:]))
    return out


L_XREF = re.compile(r"L\{([^}<]+?)(?:\s*<([^>]+)>)?\}")


def _expr_names(node) -> List[str]:
    """dotted names the pyval colorizer hands to link_to, in the expression `node`"""
    import ast
    res: List[str] = []

    def dotted(n) -> Optional[str]:
        if isinstance(n, ast.Name):
            return n.id
        if isinstance(n, ast.Attribute):
            b = dotted(n.value)
            return None if b is None else b + "." + n.attr
        return None

    def go(n):
        d = dotted(n)
        if d is not None:
            res.append(d)
            return
        if isinstance(n, ast.Constant) and isinstance(n.value, str):
            return
        for c in ast.iter_child_nodes(n):
            go(c)
    if node is not None:
        go(node)
    return res


def extract_facts(system) -> Dict[str, Any]:
    """the object table the Lean model works on. ids are assigned parents-first."""
    from pydoctor import model
    from pydoctor.templatewriter import summary
    import ast

    objs: List[Any] = []
    seen = set()

    def depth(o):
        d = 0
        while o.parent is not None:
            o = o.parent
            d += 1
        return d
    pool = list(system.allobjects.values())
    for o in list(pool):
        for c in o.contents.values():
            pool.append(c)
    for r in system.rootobjects:
        pool.append(r)
    uniq = []
    for o in pool:
        if id(o) not in seen:
            seen.add(id(o))
            uniq.append(o)
    # every parent must be in the table too
    for o in list(uniq):
        p = o.parent
        while p is not None and id(p) not in seen:
            seen.add(id(p))
            uniq.append(p)
            p = p.parent
    order = sorted(range(len(uniq)), key=lambda i: (depth(uniq[i]), i))
    objs = [uniq[i] for i in order]
    ids = {id(o): i for i, o in enumerate(objs)}

    def oid(o) -> Optional[int]:
        return None if o is None else ids.get(id(o))

    def kind(o) -> str:
        if isinstance(o, model.Package):
            return "P"
        if isinstance(o, model.Module):
            return "M"
        if isinstance(o, model.Class):
            return "C"
        if isinstance(o, model.Function):
            return "F"
        return "A"

    def resolve_xref(src, name) -> Optional[int]:
        try:
            t = src.docstring_linker._resolve_identifier_xref(name, 0)
        except LookupError:
            return None
        except Exception:
            return None
        return None if isinstance(t, str) else oid(t)

    def link_to(ctx, name) -> Optional[int]:
        """_EpydocLinker.link_to: `self.obj.resolveName(identifier)` (expandName, the registry, then find_object for a
        name that designates the original location of a re-exported object)"""
        try:
            return oid(ctx.resolveName(name))
        except Exception:
            return None

    def ann_link_to(o, name) -> Optional[int]:
        """_AnnotationLinker.link_to"""
        module = o.module
        scope = o.parent or o
        if module.isNameDefined(name):
            return link_to(module, name)
        if scope.isNameDefined(name):
            return link_to(scope, name)
        return link_to(module, name)

    def unstring(node):
        if isinstance(node, ast.Constant) and isinstance(node.value, str):
            try:
                return ast.parse(node.value, mode="eval").body
            except SyntaxError:
                return None
        return node

    table = []
    for i, o in enumerate(objs):
        k = kind(o)
        rec: Dict[str, Any] = {
            "id": i, "kind": k, "name": o.name, "full": o.fullName(), "parent": oid(o.parent),
            "privacy": {"HIDDEN": "H", "PRIVATE": "R", "PUBLIC": "U"}[o.privacyClass.name],
            "visible": bool(o.isVisible),
            "contents": [ids[id(c)] for c in o.contents.values()],
            "keys_ok": all(key == c.name for key, c in o.contents.items()),
            "url": o.url if (k in "PMC" or o.parent is not None) else None,
            "hasdoc": bool(summary.hasdocstring(o)),
            "ismodule": isinstance(o, model.Module),
            "incontents": o.parent is None or o.parent.contents.get(o.name) is o,
        }
        # displayed docstring: its source and the targets of its L{...}
        doc, source = model.get_docstring(o)
        xrefs: List[int] = []
        laterefs: List[int] = []
        if doc is not None and source is not None:
            for late, chunk in split_late_fields(doc):
                for m in L_XREF.finditer(chunk):
                    t = resolve_xref(source, (m.group(2) or m.group(1)).strip())
                    if t is not None:
                        (laterefs if late else xrefs).append(t)
        elif source is None and o.parsed_docstring is not None:
            source = o.parent          # documented by a field of the parent's docstring
        rec["docsource"] = oid(source)
        # the type comes from an @type field (of the own or of the container's docstring), not from an annotation
        rec["fieldtype"] = bool(isinstance(o, model.Attribute) and o.annotation is None and getattr(o, "parsed_type", None) is not None)
        rec["xrefs"] = xrefs
        # links in the fields that FieldHandler.format() formats itself, after switch_context(obj) has ended
        rec["laterefs"] = laterefs
        # the page object remembered by the linker that renders this docstring (stale after a re-export)
        rec["docctx"] = oid(getattr(source.docstring_linker, "_page_object", None)) if source is not None else None
        rec["module"] = i if isinstance(o, model.Module) else oid(o.parentMod)
        # annotation links (`_AnnotationLinker`, switch_context(obj)) and links made through the object's own
        # docstring_linker without a switch: constant values, decorators, default values of parameters
        ann: List[int] = []
        val: List[int] = []
        if isinstance(o, model.Attribute):
            for nm in _expr_names(unstring(o.annotation) if o.annotation is not None else None):
                t = ann_link_to(o, nm)
                if t is not None:
                    ann.append(t)
            if o.kind in system.show_attr_value and o.value is not None:
                for nm in _expr_names(o.value):
                    t = link_to(o, nm)
                    if t is not None:
                        val.append(t)
        if isinstance(o, (model.Function, model.Attribute)):
            for dec in (o.decorators or ()):
                for nm in _expr_names(dec):
                    t = link_to(o, nm)
                    if t is not None:
                        val.append(t)
        if isinstance(o, model.Function):
            for a in o.annotations.values():
                for nm in _expr_names(unstring(a) if a is not None else None):
                    t = ann_link_to(o, nm)
                    if t is not None:
                        ann.append(t)
            sig = o.signature
            if sig is not None:
                for p in sig.parameters.values():
                    d = p.default
                    v = getattr(d, "_colorized", None)
                    if v is not None:
                        # _ValueFormatter keeps no AST; recover the names from the source text of the default
                        try:
                            src = "".join(v.to_node().astext().split())
                            for nm in _expr_names(ast.parse(src, mode="eval").body):
                                t = link_to(o, nm)
                                if t is not None:
                                    val.append(t)
                        except Exception:
                            pass
        rec["annrefs"] = ann
        rec["valrefs"] = val
        rec["ownctx"] = oid(getattr(o.docstring_linker, "_page_object", None))
        if isinstance(o, model.Class):
            rec["bases"] = [oid(b) for b in o.baseobjects]
            rec["basenames"] = list(o.bases)
            rec["mro"] = [ids[id(c)] for c in o.mro(include_self=True) if id(c) in ids]
            rec["subclasses"] = [ids[id(c)] for c in o.subclasses if id(c) in ids]
            sg: List[Optional[int]] = []
            for (str_base, base_node), bo in zip(o.rawbases, o.baseobjects):
                if bo is not None:
                    # the colorizer links the whole dotted expression to the resolved base and the names inside
                    # subscripts through the annotation linker
                    # (`refmap` replaces the written name by the base's qualified name, which link_to then expands
                    #  again in the module's scope: a local name that shadows its first component loses the link)
                    if isinstance(base_node, ast.Subscript):
                        sg.append(oid(bo))
                    else:
                        sg.append(ann_link_to(o, bo.fullName()))
                    if isinstance(base_node, ast.Subscript):
                        for nm in _expr_names(base_node.slice):
                            sg.append(ann_link_to(o, nm))
                else:
                    for nm in _expr_names(base_node):
                        sg.append(ann_link_to(o, nm))
            rec["sigrefs"] = sg
            rec["ctors"] = [ids[id(c)] for c in o.public_constructors if id(c) in ids]
        table.append(rec)
    return {
        "objs": table,
        "all": [ids[id(o)] for o in system.allobjects.values()],
        "allkeys_ok": all(k == o.fullName() for k, o in system.allobjects.items()),
        "roots": [ids[id(o)] for o in system.rootobjects],
        "depth": int(system.options.sidebarexpanddepth),
        "nosidebar": bool(system.options.nosidebar),
    }


# =========================================================================== crawling the output

def canon_file(fn: str) -> str:
    if fn == "index.html":
        return "I"
    if fn.endswith(".html") and fn[:-5] in SUMMARY_PAGES:
        return "S:" + fn[:-5]
    if fn.endswith(".html"):
        return "P:" + enc(unquote(fn[:-5]))
    return "X:" + enc(fn)


def canon_href(href: str) -> str:
    f, sep, frag = href.partition("#")
    return (canon_file(f) if f else "-") + "#" + (enc(unquote(frag)) if sep else "-")


def canon_url(url: str) -> str:
    return canon_href(url)


def is_relative(href: str) -> bool:
    """a reference the crawl follows: no scheme, no network path, not empty, not a bare query"""
    if not href or href.startswith("?"):
        return False
    if re.match(r"^[a-zA-Z][a-zA-Z0-9+.-]*:", href) or href.startswith("//"):
        return False
    return True


def _classes(tag) -> List[str]:
    c = tag.get("class") or []
    return c if isinstance(c, list) else str(c).split()


def _has_private(tag) -> bool:
    return "private" in _classes(tag)


def _text(tag) -> str:
    return "".join(tag.stripped_strings)


LATE_FIELD_LABELS = ("Author", "Authors", "See Also", "Present Since", "Note", "Notes")


def _in_late_field(a) -> bool:
    """the link is in the body of a field that `FieldHandler.format()` formats itself (`format_field_list`: a
    `tr.fieldStart` row with the label, then one row per field): @author, @see, @since, @note"""
    tr = a.find_parent("tr")
    while tr is not None:
        table = tr.find_parent("table")
        if table is not None and "fieldTable" in _classes(table):
            break
        tr = tr.find_parent("tr")
    if tr is None:
        return False
    cur = tr
    while cur is not None:
        if getattr(cur, "name", None) == "tr" and "fieldStart" in _classes(cur):
            td = cur.find("td", class_="fieldName")
            return td is not None and td.get("colspan") == "2" and _text(td) in LATE_FIELD_LABELS
        cur = cur.previous_sibling
    return False


def crawl_page(fn: str, text: str) -> Dict[str, Any]:
    """one HTML file -> raw references, anchors, attributed internal links, listing entries"""
    from bs4 import BeautifulSoup
    soup = BeautifulSoup(text, "html.parser")
    page = canon_file(fn)
    refs: List[Tuple[str, str]] = []          # (attr, value) of every href/src
    anchors: List[str] = []                   # id / a[name] values
    rstrefs: Dict[str, List[str]] = {}        # href of a docutils reference -> its classes + where it sits (ctx:...)
    stem0 = fn[:-5] if fn.endswith(".html") else fn
    whole_page_summary = stem0 in SUMMARY_PAGES or (fn == "index.html" and soup.find(id="main") is None)
    for el in soup.find_all(True):
        for attr in ("href", "src"):
            v = el.get(attr)
            if v is not None:
                refs.append((attr, v))
                if attr == "href" and v.startswith("#rst-"):
                    if el.find_parent(class_="sidebar") is not None:
                        where = "ctx:sidebar"
                    elif whole_page_summary or el.find_parent(id="splitTables") is not None:
                        where = "ctx:summary"           # a summary copied into an index page or a table of members
                    else:
                        where = "ctx:body"
                    rstrefs.setdefault(v, []).extend(list(_classes(el)) + [where])
        if el.get("id") is not None:
            anchors.append(el.get("id"))
        if el.name == "a" and el.get("name") is not None:
            anchors.append(el.get("name"))
    links: List[Tuple[str, str, Optional[str]]] = []     # (producer, href, title/label text)
    entries: List[Tuple[str, str, bool, str]] = []       # (listing, href or name, marked, extra)
    texts: List[Tuple[str, str]] = []                    # (where, text) unlinked names in listing cells
    stem = fn[:-5] if fn.endswith(".html") else fn
    is_summary = stem in SUMMARY_PAGES
    main = soup.find(id="main")
    is_index_roots = (fn == "index.html" and main is None)

    def A(tag):
        return tag.find_all("a", class_="internal-link")

    if is_summary or is_index_roots:
        tree = soup.find(id="summaryTree")
        if stem == "moduleIndex" and tree is not None:
            for li in tree.find_all("li"):
                if "compact-modules" in _classes(li):
                    continue
                # the row's own link is the one inside the first <code> child; everything else before the nested
                # <ul> belongs to the copied summary
                code0 = li.find("code", recursive=False)
                own = code0.find("a", class_="internal-link") if code0 is not None else None
                if own is not None:
                    entries.append(("modindex", own.get("href"), _has_private(li), ""))
                    links.append(("modindex", own.get("href"), own.get("title") or _text(own)))
                for ch in li.children:
                    if getattr(ch, "name", None) == "ul":
                        break
                    if getattr(ch, "name", None) is None:
                        continue
                    for a in ([ch] if ch.name == "a" else ch.find_all("a", class_="internal-link")):
                        if "internal-link" not in _classes(a) or a is own:
                            continue
                        links.append(("modindex-sum", a.get("href"), a.get("title") or _text(a)))
                code = li.find("code", recursive=False)
                if code is not None and code.find("a") is None:
                    # a row written without a link: taglink refused it (the module is not visible)
                    entries.append(("roottext", _text(code), _has_private(li), "m"))
                    texts.append(("modindex-root", _text(code)))
        elif stem == "classIndex" and tree is not None:
            for li in tree.find_all("li"):
                for a in li.find_all("a", recursive=False):
                    if a.get("name") is not None:
                        entries.append(("classanchor", a.get("name"), False, ""))
                div = li.find("div", recursive=False)
                if div is None:
                    code = li.find("code", recursive=False)
                    if code is not None:
                        a = code.find("a")
                        if a is None:
                            texts.append(("classindex-root", _text(code)))
                            entries.append(("classindex-text", _text(code), _has_private(li), ""))
                        elif "internal-link" in _classes(a):
                            links.append(("classindex", a.get("href"), a.get("title") or _text(a)))
                    continue
                first = None
                for a in A(div):
                    if first is None:
                        first = a
                        # the marker of the node (<li>: the class and everything listed below it) or of the row alone
                        entries.append(("classindex", a.get("href"), _has_private(li) or _has_private(div),
                                        "n" if _has_private(li) else "r" if _has_private(div) else "0"))
                        links.append(("classindex", a.get("href"), a.get("title") or _text(a)))
                    else:
                        links.append(("classindex-sum", a.get("href"), a.get("title") or _text(a)))
        elif stem == "nameIndex":
            for ul in soup.find_all("ul", id="summaryTree"):
                for li in ul.find_all("li"):
                    sub = li.find("ul", recursive=False)
                    if sub is not None:
                        continue
                    for a in A(li):
                        marked = _has_private(li)
                        entries.append(("nameindex", a.get("href"), marked, ""))
                        links.append(("nameindex", a.get("href"), a.get("title") or _text(a)))
            # letter headings (<a name=X>, <h2>X</h2>) and the links to the other letters below each
            for h2 in soup.find_all("h2"):
                letter = _text(h2)
                prev = h2.find_previous_sibling("a")
                if prev is not None and prev.get("name") == letter:
                    entries.append(("letter", letter, False, ""))
                    p = h2.find_next_sibling("p", class_="letterlinks")
                    for a in (p.find_all("a") if p is not None else []):
                        entries.append(("letterlink", letter, False, a.get("href") or ""))
        elif stem == "undoccedSummary" and tree is not None:
            for li in tree.find_all("li"):
                for a in A(li):
                    links.append(("undoc", a.get("href"), a.get("title") or _text(a)))
                    entries.append(("undoc", a.get("href"), _has_private(li), ""))
        elif stem == "all-documents":
            for li in soup.find_all("li"):
                u = li.find("div", class_="url", recursive=False)
                if u is None:
                    continue
                priv = li.find("div", class_="privacy", recursive=False)
                entries.append(("alldocs", _text(u), (_text(priv) == "PRIVATE") if priv else False,
                                (li.get("id") or "") + "\t" + (_text(priv) if priv else "")))
                fulln = li.find("div", class_="fullName", recursive=False)
                if fulln is not None:
                    texts.append(("alldocs-fullname", _text(fulln)))
                sm = li.find("div", class_="summary", recursive=False)
                if sm is not None:
                    for a in A(sm):
                        links.append(("alldocs-sum", a.get("href"), a.get("title") or _text(a)))
        elif is_index_roots:
            for a in A(soup):
                links.append(("indexroots", a.get("href"), a.get("title") or _text(a)))
                entries.append(("indexroots", a.get("href"), False, ""))
            for li in soup.find_all("li"):
                kids = [c for c in li.children if getattr(c, "name", None)]
                if len(kids) == 1 and kids[0].name == "code" and kids[0].find("a") is None:
                    entries.append(("roottext", _text(kids[0]), False, "i"))
                    texts.append(("indexroots", _text(kids[0])))
    else:
        # an object page
        done = set()

        def take(prod, a):
            if id(a) in done:
                return
            done.add(id(a))
            if prod == "xref" and _in_late_field(a):
                prod = "xref-late"
            links.append((prod, a.get("href"), a.get("title") or _text(a)))
        for sb in soup.find_all(class_="sidebar"):
            for tt in sb.find_all(class_="thingTitle"):
                for a in A(tt):
                    take("sidebar-title", a)
            for li in sb.find_all("li"):
                item = li.find("div", class_="itemName", recursive=False)
                if item is None:
                    continue
                code = item.find("code", recursive=False)
                a = code.find("a", class_="internal-link") if code is not None else None
                if a is not None and id(a) not in done:
                    ul = li.parent
                    title = ul.find_previous_sibling("div", class_="childrenKindTitle") if ul is not None else None
                    inh = title is not None and _text(title).startswith("Inherited")
                    take("sidebar", a)
                    entries.append(("sidebar-inherited" if inh else "sidebar", a.get("href"), _has_private(li), ""))
            for a in A(sb):
                take("sidebar-other", a)
        if main is not None:
            for h1 in main.find_all("h1"):
                for a in A(h1):
                    take("heading", a)
            for el in main.find_all(class_="class-signature"):
                for a in A(el):
                    take("classsig", a)
            for el in main.find_all(class_="interfaceinfo"):
                t = _text(el)
                texts.append(("interfaceinfo", " ".join(el.stripped_strings)))
                prod = "overrides" if t.startswith("overrides") else "overriddenin" if t.startswith("overridden in") \
                    else "zope-from" if t.startswith("from") else "interfaceinfo-other"
                for a in A(el):
                    take(prod, a)
            ex = main.find(class_="extrasDocstring")
            if ex is not None:
                for p in ex.find_all("p"):
                    t = _text(p)
                    if t.startswith("Known subclasses"):
                        for a in A(p):
                            take("knownsub", a)
                    elif t.startswith("Known implementations") or t.startswith("Implements interfaces"):
                        for a in A(p):
                            take("zope-list", a)
                for a in ex.find_all("a"):
                    if a.get("href", "").startswith("classIndex.html#") and "internal-link" not in _classes(a):
                        links.append(("inhierarchy", a.get("href"), None))
                for a in A(ex):
                    take("extra", a)
            md = main.find(class_="moduleDocstring")
            if md is not None:
                for a in A(md):
                    take("xref", a)
            st = main.find(id="splitTables")
            if st is not None:
                kindt = "m"
                for el in st.find_all(True, recursive=False):
                    cl = _classes(el)
                    if el.name == "p" and "inheritedFrom" in cl:
                        kindt = "b"
                        first = True
                        for a in A(el):
                            take("basename" if first else "basevia", a)
                            first = False
                    elif el.name == "p" and "fromInitPy" in cl:
                        kindt = "i"
                    elif el.name == "table":
                        for tr in el.find_all("tr", recursive=False) or el.find_all("tr"):
                            tds = tr.find_all("td", recursive=False)
                            if len(tds) < 3:
                                continue
                            a = tds[1].find("a", class_="internal-link")
                            if a is not None:
                                take("table", a)
                                entries.append(("table", a.get("href"), _has_private(tr), kindt))
                            for a2 in A(tds[2]):
                                take("sumcopy", a2)
                for a in A(st):
                    take("table-other", a)
            cl_ = main.find(id="childList")
            if cl_ is not None:
                for div in cl_.find_all("div", recursive=False):
                    names = [a.get("name") for a in div.find_all("a", recursive=False) if a.get("name") is not None]
                    if not names:
                        continue
                    entries.append(("detail", names[-1], _has_private(div), "\t".join(names)))
                    for hd in div.find_all("div", class_="functionHeader", recursive=False):
                        for a in A(hd):
                            take("xref-header", a)
                    for a in A(div):
                        take("xref", a)
                for a in A(cl_):
                    take("childlist-other", a)
            for a in A(main):
                take("main-other", a)
        for a in A(soup):
            take("other", a)
    return {"page": page, "file": fn, "refs": refs, "anchors": anchors, "links": links, "entries": entries, "texts": texts,
            "object_page": main is not None, "rstrefs": rstrefs,
            # a docstring shown through the plain-text fallback (ParsedPlaintextDocstring.to_stan) inside the main docstring
            "plain_fallback": bool(main is not None and main.find(class_="moduleDocstring") is not None
                                   and main.find(class_="moduleDocstring").find("p", class_="pre") is not None)}


def read_inventory(path: str) -> List[Tuple[str, str, str]]:
    """objects.inv -> [(name, type, url)] (own reader: header lines, zlib payload, 5-column lines)"""
    data = open(path, "rb").read()
    while data.startswith(b"#"):
        _, _, data = data.partition(b"\n")
    payload = zlib.decompress(data).decode("utf-8")
    res = []
    for line in payload.splitlines():
        m = re.match(r"^(.+?)\s+(\S+)\s+(-?\d+)\s+?(\S*)\s+(.*)$", line)
        if m:
            res.append((m.group(1), m.group(2), m.group(4)))
    return res


def crawl_output(out: str) -> Dict[str, Any]:
    files: List[str] = []
    links_ = []
    pages: Dict[str, Any] = {}
    for fn in sorted(os.listdir(out)):
        p = os.path.join(out, fn)
        if os.path.islink(p):
            links_.append((fn, os.readlink(p), os.path.exists(p)))
        if os.path.isdir(p):
            for sub in sorted(os.listdir(p)):
                files.append(fn + "/" + sub)
            continue
        if os.path.exists(p):
            files.append(fn)
        if fn.endswith(".html") and os.path.exists(p) and not os.path.islink(p):
            with open(p, encoding="utf-8", errors="replace") as f:
                pages[fn] = crawl_page(fn, f.read())
    search: Dict[str, List[str]] = {}
    for name in ("searchindex.json", "fullsearchindex.json"):
        p = os.path.join(out, name)
        if os.path.exists(p):
            d = json.load(open(p))
            refs = set()
            for key, _ in d.get("fieldVectors", []):
                refs.add(key.split("/", 1)[1])
            search[name] = sorted(refs)
    inv = read_inventory(os.path.join(out, "objects.inv")) if os.path.exists(os.path.join(out, "objects.inv")) else None
    return {"files": files, "symlinks": links_, "pages": pages, "search": search, "inventory": inv}


# =========================================================================== link resolution (direct, model-free)

def resolve_ref(crawl: Dict[str, Any], page_fn: str, ref: str) -> Tuple[bool, str]:
    """does the relative reference `ref` found on page `page_fn` lead somewhere? -> (ok, why)"""
    ref = ref.split("?", 1)[0] if not ref.startswith("?") else ""
    f, sep, frag = ref.partition("#")
    f = unquote(f)
    target = f or page_fn
    if target not in crawl["files"]:
        return False, "no-file"
    if sep and frag:
        frag = unquote(frag)
        pg = crawl["pages"].get(target)
        if pg is None:
            # alias of index.html
            for ln, to, ok in crawl["symlinks"]:
                if ln == target and ok:
                    pg = crawl["pages"].get(to)
        if pg is None:
            return True, "unparsed-target"
        if frag not in pg["anchors"]:
            return False, "no-anchor"
    return True, ""


# =========================================================================== model request / canonical sections

def _nl(l) -> str:
    return ",".join(str(x) for x in l) if l else "-"


def _ol(l) -> str:
    return ",".join("x" if x is None else str(x) for x in l) if l else "-"


def request_line(facts: Dict[str, Any]) -> str:
    toks = []
    for o in facts["objs"]:
        toks.append("|".join([
            o["kind"], enc(o["name"]), "-" if o["parent"] is None else str(o["parent"]), o["privacy"],
            _nl(o["contents"]), "1" if o["hasdoc"] else "0", "-" if o["docsource"] is None else str(o["docsource"]),
            _nl(o["xrefs"]), _nl(o["annrefs"]), _ol(o.get("bases", [])),
            ",".join(enc(b) for b in o.get("basenames", [])) or "-", _nl(o.get("mro", [])), _nl(o.get("subclasses", [])),
            _ol(o.get("sigrefs", [])), _nl(o.get("ctors", [])),
            "-" if o.get("docctx") is None else str(o["docctx"]), "-" if o.get("module") is None else str(o["module"]),
            _nl(o.get("valrefs", [])), "-" if o.get("ownctx") is None else str(o["ownctx"]), _nl(o.get("laterefs", []))]))
    return "output run %d %d %s %s %s" % (facts["depth"], 1 if facts["nosidebar"] else 0, _nl(facts["roots"]),
                                          _nl(facts["all"]), " ".join(toks))


def parse_answer(ans: str) -> Optional[Dict[str, str]]:
    if not ans.startswith("ok "):
        return None
    secs: Dict[str, str] = {}
    parts = ans.split(" | ")
    secs["_head"] = parts[0]
    for p in parts[1:]:
        name, _, items = p.partition(" ")
        secs[name] = items
    return secs


def _canon(items) -> str:
    return " ".join(sorted(set(items)))


# model sections that are compared as a union with one crawl section
UNIONS = {"xref": ("docxref", "fieldxref", "annxref", "valxref"), "modindex": ("modindex-root", "modindex")}
MODEL_ONLY = ("dead", "hiddenlinks", "unmarked")
# for real packages the harness cannot predict what docstrings, fields and expressions link to: these sections
# are left to the direct oracles there
TEXT_DEPENDENT = ("xref", "sumcopy", "modindex-sum", "classindex-sum", "alldocs-sum", "classsig", "extra", "dead-set")


def impl_sections(res: Dict[str, Any]) -> Dict[str, str]:
    """the crawl, in the canonical per-producer form of the model's answer"""
    cr = res["crawl"]
    S: Dict[str, List[str]] = {k: [] for k in (
        "files", "anchors", "classanchors", "classtexts", "roottexts", "letters", "letterlinks", "search", "inventory",
        "inhierarchy",
        "table", "inittable", "basetable", "detail", "sidebar-title", "sidebar", "sidebar-inherited", "heading", "classsig",
        "knownsub", "overrides", "overriddenin", "basename", "basevia", "xref", "extra", "sumcopy",
        "modindex", "modindex-sum", "classindex", "classindex-sum", "nameindex", "undoc", "indexroots", "alldocs",
        "alldocs-sum", "unattributed")}
    for fn in cr["files"]:
        if fn.endswith(".html"):
            S["files"].append(canon_file(fn))
    for fn, pg in cr["pages"].items():
        page = pg["page"]
        for prod, href, _t in pg["links"]:
            item = page + ">" + canon_href(href)
            if prod in ("table", "sidebar", "modindex", "classindex", "nameindex", "undoc"):
                continue            # compared through their entries (with the marker)
            if prod in ("xref-header", "xref-late"):
                prod = "xref"
            if prod in S and prod not in ("files", "anchors"):
                S[prod].append(item)
            else:
                S["unattributed"].append(prod + ":" + item)
        for kind, ref, marked, extra in pg["entries"]:
            m = "1" if marked else "0"
            if kind == "table":
                S[{"m": "table", "i": "inittable", "b": "basetable"}[extra]].append(page + ">" + canon_href(ref) + ">" + m)
            elif kind == "detail":
                S["detail"].append(page + ">" + enc(ref) + ">" + m)
                for nm in extra.split("\t"):
                    S["anchors"].append(page + ">" + enc(nm))
            elif kind == "classindex":
                # where the marker sits: node <li> / row <div> / nowhere
                S[kind].append(page + ">" + canon_href(ref) + ">" + extra)
            elif kind in ("sidebar", "sidebar-inherited", "modindex", "nameindex", "undoc"):
                S[kind].append(page + ">" + canon_href(ref) + ">" + m)
            elif kind == "classanchor":
                S["classanchors"].append(enc(ref))
            elif kind == "classindex-text":
                S["classtexts"].append(enc(ref) + ">" + m)
            elif kind == "letter":
                S["letters"].append(enc(ref))
            elif kind == "letterlink":
                S["letterlinks"].append(enc(ref) + ">" + enc(unquote(extra[1:]) if extra.startswith("#") else extra))
            elif kind == "roottext":
                S["roottexts"].append(page + ">" + enc(ref) + ">" + (m if extra == "m" else "-"))
            elif kind == "alldocs":
                ident, _, priv = extra.partition("\t")
                S["alldocs"].append(enc(ident) + ">" + canon_url(ref) + ">" + ("1" if priv == "PRIVATE" else "0"))
    S["undoc"] = [x for x in S["undoc"]]
    for q in cr["search"].get("searchindex.json", []):
        S["search"].append(enc(q))
    for name, typ, url in (cr["inventory"] or []):
        S["inventory"].append(enc(name) + ">" + canon_url(url))
    return {k: _canon(v) for k, v in S.items()}


def model_sections_for_compare(secs: Dict[str, str]) -> Dict[str, str]:
    out = {k: v for k, v in secs.items() if k not in MODEL_ONLY and k != "_head"}
    for tgt, parts in UNIONS.items():
        items: List[str] = []
        for p in parts:
            items += out.pop(p, "").split()
        out[tgt] = _canon(items)
    out["unattributed"] = ""
    return out


# =========================================================================== ground truth helpers for the direct oracles

PRODUCER_NAMES = {
    "table": "member-table", "sidebar": "sidebar", "sidebar-title": "sidebar", "heading": "heading",
    "classsig": "class-signature", "knownsub": "known-subclasses", "overrides": "overrides-note",
    "overriddenin": "overridden-in-note", "basename": "inherited-from", "basevia": "inherited-from",
    "xref": "docstring-xref", "xref-late": "docstring-field", "xref-header": "annotation", "extra": "constructor-note", "sumcopy": "summary",
    "modindex": "module-index", "modindex-sum": "summary", "classindex": "class-index", "classindex-sum": "summary",
    "nameindex": "name-index", "undoc": "undocumented-summary", "indexroots": "index-root", "alldocs-sum": "summary",
    "inhierarchy": "view-in-hierarchy", "zope-from": "zope-from-note", "zope-list": "zope-list",
}


class Truth:
    """the structure of the real System (tree, names, addresses) and, for every object, the privacy the RULE LIST gives
    it - computed by the Lean Privacy model (C13) from the rules the run was given, not read from pydoctor: `expected`
    is the list of levels ('H', 'R', 'U') in table order. `o["privacy"]` / `o["visible"]` are then the expected values;
    what pydoctor computed is kept as `o["impl_privacy"]` / `o["impl_visible"]`."""

    def __init__(self, facts: Dict[str, Any], expected: Optional[List[str]] = None) -> None:
        self.objs = facts["objs"]
        self.from_rules = expected is not None
        if expected is not None:
            for o, lv in zip(self.objs, expected):
                o.setdefault("impl_privacy", o["privacy"])
                o.setdefault("impl_visible", o["visible"])
                o["privacy"] = lv
            for o in self.objs:          # parents come first in the table
                par = self.objs[o["parent"]] if o["parent"] is not None else None
                o["visible"] = o["privacy"] != "H" and (par is None or (bool(o["incontents"]) and par["visible"]))
        self.by_full: Dict[str, Dict[str, Any]] = {}
        self.by_url: Dict[str, Dict[str, Any]] = {}
        for o in self.objs:
            self.by_full.setdefault(o["full"], o)
            if o["url"] is not None:
                self.by_url.setdefault(canon_url(o["url"]), o)
        self.reachable = set()
        todo = list(facts["roots"])
        while todo:
            i = todo.pop()
            if i in self.reachable:
                continue
            self.reachable.add(i)
            todo.extend(self.objs[i]["contents"])
        self.roots = list(facts["roots"])

    def superseded(self, o) -> bool:
        return o["id"] not in self.reachable

    def hidden(self, o) -> bool:
        return not o["visible"]

    def documented(self, o) -> bool:
        """visible and reached through contents from a root: an object the output is about"""
        return o["visible"] and o["id"] in self.reachable

    def module_of(self, o):
        while o is not None and o["kind"] not in "PM":
            o = self.objs[o["parent"]] if o["parent"] is not None else None
        return o

    def cause(self, o) -> str:
        if o is None:
            return "unknown-target"
        if self.hidden(o):
            return "hidden-target"
        if self.superseded(o):
            return "superseded-duplicate"
        return "documented-target"


def abs_ref(page_fn: str, href: str) -> str:
    """canonical absolute form of a relative reference found on page_fn"""
    href = href.split("?", 1)[0]
    f, sep, frag = href.partition("#")
    return canon_file(unquote(f) if f else page_fn) + "#" + (enc(unquote(frag)) if (sep and frag) else "-")


def link_target(truth: Truth, page_fn: str, href: str, label: Optional[str]):
    """the object a link is meant for: by its title/label when that is a qualified name, else by address"""
    if label and label in truth.by_full:
        return truth.by_full[label]
    return truth.by_url.get(abs_ref(page_fn, href))


def all_links(res: Dict[str, Any]):
    """(page file, producer, href, label) of every attributed link, incl. the url fields of all-documents.html"""
    for fn, pg in res["crawl"]["pages"].items():
        for prod, href, label in pg["links"]:
            yield fn, prod, href, label
        for kind, ref, marked, extra in pg["entries"]:
            if kind == "alldocs":
                yield fn, "alldocs", ref, extra.partition("\t")[0]


def scan_call_sites(repo) -> List[str]:
    """every place outside the tests that builds a link or reads an url: '<file>:<function>:<callee>'"""
    import ast
    from pathlib import Path
    sites = set()
    root = Path(repo) / "pydoctor"
    for f in sorted(root.rglob("*.py")):
        rel = f.relative_to(root).as_posix()
        if rel.startswith("test/") or rel.startswith("sphinx_ext"):
            continue
        try:
            tree = ast.parse(f.read_text())
        except SyntaxError:
            continue

        def walk(node, fn):
            for ch in ast.iter_child_nodes(node):
                name = fn
                if isinstance(ch, (ast.FunctionDef, ast.AsyncFunctionDef, ast.ClassDef)):
                    name = (fn + "." if fn else "") + ch.name
                if isinstance(ch, ast.Attribute) and isinstance(ch.ctx, ast.Load) and ch.attr in ("taglink", "link_to", "link_xref", "url"):
                    sites.add("%s:%s:%s" % (rel, fn, ch.attr))
                if isinstance(ch, ast.Name) and isinstance(ch.ctx, ast.Load) and ch.id == "taglink":
                    sites.add("%s:%s:%s" % (rel, fn, ch.id))
                walk(ch, name)
        walk(tree, "")
    return sorted(sites)


# the producer table of DESIGN.md C12 as call sites; a site that is not listed here is a producer the model
# does not know about (reported as a broken correspondence `producer-table`)
# the producer table of DESIGN.md C12 as call sites ('<file>:<function>:<attribute used>'); a site that is not
# listed here is a producer the model does not know about -> broken correspondence `producer-table`
KNOWN_SITES = {
    "epydoc2stan.py::taglink": "alias `taglink = linker.taglink`",
    "linker.py:taglink:url": "taglink itself (no visibility guard: it only logs)",
    "linker.py:_EpydocLinker.page_url:url": "linker context (page the shortening is relative to)",
    "linker.py:_EpydocLinker.link_to:taglink": "row 20/7: annxref, classsig, values, decorators, raises/warns fields",
    "linker.py:_EpydocLinker.link_xref:taglink": "row 20: docxref",
    "linker.py:_AnnotationLinker.link_to:link_to": "row 20/7: annxref, classsig",
    "linker.py:_AnnotationLinker.link_xref:link_xref": "row 20: docxref inside annotations",
    "node2stan.py:HTMLTranslator.visit_obj_reference:link_to": "row 20: colorized values -> link_to",
    "node2stan.py:HTMLTranslator.visit_title_reference:link_xref": "row 20: L{...} / `...` -> link_xref",
    "epydoc/markup/_types.py:ParsedTypeDocstring._convert_obj_tokens_to_stan:link_xref": "row 20: --process-types fields (not generated)",
    "epydoc2stan.py:FieldHandler.handle_raises:link_to": "row 20: @raise fields (not generated)",
    "epydoc2stan.py:FieldHandler.handle_warns:link_to": "row 20: @warns fields (not generated)",
    "sphinx.py:SphinxInventoryWriter._generateLine:url": "row 19: inventory",
    "templatewriter/search.py:get_all_documents_flattenable:url": "row 18: alldocs",
    "templatewriter/writer.py:TemplateWriter._writeDocsFor:url": "row 1: files",
    "templatewriter/summary.py:moduleSummary:taglink": "row 13: modindex",
    "templatewriter/summary.py:moduleSummary:url": "row 13: compact form (> 50 submodules; not modelled)",
    "templatewriter/summary.py:subclassesFrom:taglink": "row 14: classindex",
    "templatewriter/summary.py:LetterElement.names.link:taglink": "row 15: nameindex",
    "templatewriter/summary.py:IndexPage.roots:taglink": "row 16: indexroots",
    "templatewriter/summary.py:UndocumentedSummaryPage.stuff:taglink": "row 17: undoc",
    "templatewriter/pages/__init__.py:CommonPage.page_url:url": "page_url of the page-level producers",
    "templatewriter/pages/__init__.py:CommonPage.namespace:taglink": "row 6: heading",
    "templatewriter/pages/__init__.py:assembleList.one:taglink": "rows 8, 10, 11: knownsub, overriddenin, zope lists",
    "templatewriter/pages/__init__.py:ClassPage.baseName:taglink": "row 5: basename, basevia",
    "templatewriter/pages/__init__.py:get_override_info:taglink": "row 9: overrides",
    "templatewriter/pages/__init__.py:get_override_info:url": "row 9: default page_url",
    "templatewriter/pages/__init__.py:ZopeInterfaceClassPage.objectExtras:taglink": "row 11: zope 'from' note (not modelled)",
    "templatewriter/pages/sidebar.py:SideBarSection.name:taglink": "row 12: sidebar-title",
    "templatewriter/pages/sidebar.py:SideBarSection.name:url": "row 12: sidebar-title",
    "templatewriter/pages/sidebar.py:LinkOnlyItem.name:taglink": "row 12: sidebar",
    "templatewriter/pages/sidebar.py:LinkOnlyItem.name:url": "row 12: sidebar",
    "templatewriter/pages/table.py:TableRow.name:taglink": "rows 2, 4, 5: table, inittable, basetable",
    "templatewriter/pages/table.py:TableRow.name:url": "rows 2, 4, 5",
}


# =========================================================================== the run shared by c11.py / c12.py

def dead_links(res: Dict[str, Any]):
    """(page file, producer, href, label, why) for every attributed link that leads nowhere"""
    cr = res["crawl"]
    for fn, prod, href, label in all_links(res):
        if not is_relative(href):
            continue
        ok, why = resolve_ref(cr, fn, href)
        if not ok:
            yield fn, prod, href, label, why


def _model_dead_set(items: str) -> List[str]:
    out = []
    for it in items.split():
        row, _, rest = it.partition(":")
        parts = rest.split(">")
        if row == "alldocs":
            out.append("S:all-documents>" + parts[1])
        else:
            out.append(parts[0] + ">" + parts[1])
    return out


def _privacy_token(o: Dict[str, Any]) -> str:
    return "%s/%s/%s%s%s" % (enc(o["full"]), enc(o["name"]), "m" if o["ismodule"] else "o", "k",
                             "e" if o["incontents"] else "s")


LEVEL_CODES = {"HIDDEN": "H", "PRIVATE": "R", "PUBLIC": "U"}


def expected_privacy(ctx, results: Sequence[Dict[str, Any]]) -> List[Optional[List[str]]]:
    """the privacyClass of every object of every run according to the rule list the run was given, by the Lean
    Privacy model (driver stream `privacy cli`, the model C13 proves and ties to qnmatch / parse_privacy_tuple).
    None for a run whose rules the model refuses or cannot evaluate."""
    reqs = []
    for r in results:
        rules = effective_rules(r["case"])
        reqs.append("privacy cli " + " ".join("V " + enc(v) for v in rules) + " "
                    + " ".join("Q c " + _privacy_token(o) for o in r["facts"]["objs"]))
    outs = ctx.driver.run_parallel(reqs) if reqs else []
    res: List[Optional[List[str]]] = []
    for r, ans in zip(results, outs):
        levels = ans.split(" | ")[0].split()
        if len(levels) != len(r["facts"]["objs"]) or any(l not in LEVEL_CODES for l in levels):
            ctx.count("expected-privacy-unavailable:" + (ans.split() or ["empty"])[0][:20])
            res.append(None)
        else:
            res.append([LEVEL_CODES[l] for l in levels])
    return res


def crawl_and_compare(ctx, n_random: int, rule_lists: int, extra_cases: Sequence[Dict[str, Any]] = (),
                      scenarios: bool = True) -> List[Dict[str, Any]]:
    """generate, run pydoctor, crawl, compare every producer section with the Lean model.
    Returns the results (each with res['truth'], res['model'] = parsed model sections or None)."""
    from .core import Infra, REPO
    cases = list(extra_cases) + make_cases(ctx.rng, n_random, rule_lists, scenarios)
    jobs = int(os.environ.get("VERIF_JOBS", "16"))
    results = run_cases(cases, jobs=jobs)
    good = [r for r in results if "facts" in r]
    for r in results:
        if "crash" in r:
            ctx.count("run-crash:" + r["crash"].split(":")[0].split("(")[0])
    if len(good) < 0.7 * len(results):
        raise Infra("more than 30%% of the pydoctor runs aborted: %s" % [r.get("crash") for r in results if "crash" in r][:3])
    # the producer table is complete: every call site that builds a link is known
    sites = set(scan_call_sites(REPO))
    ctx.traces_validated += 1
    if sites != set(KNOWN_SITES):
        ctx.disagree("producer-table", {"new-sites": sorted(sites - set(KNOWN_SITES)), "gone": sorted(set(KNOWN_SITES) - sites)},
                     "sites known to the model: %d" % len(KNOWN_SITES), "sites found in the code: %d" % len(sites))
    answers: List[Optional[str]] = [None] * len(good)
    if ctx.model_ok:
        answers = list(ctx.driver.run_parallel([request_line(r["facts"]) for r in good]))
    # the Output model is run on the facts as pydoctor has them (above); the oracles work on the rule list's verdict
    expected = expected_privacy(ctx, good) if ctx.model_ok else [None] * len(good)
    for r, ans, exp in zip(good, answers, expected):
        r["truth"] = Truth(r["facts"], exp)
        r["model"] = None
        secs = parse_answer(ans) if ans is not None else None
        if ans is not None and secs is None:
            ctx.disagree("output:protocol", r["case"], ans[:200], "ok …")
            continue
        if secs is None:
            continue
        r["model"] = secs
        if "wf=1" not in secs["_head"]:
            ctx.count("model-wf-false")
        if "hwf=1" not in secs["_head"]:
            ctx.count("model-hierwf-false")
        ms = model_sections_for_compare(secs)
        im = impl_sections(r)
        ms["dead-set"] = _canon(_model_dead_set(secs.get("dead", "")))
        im["dead-set"] = _canon(r["crawl"]["pages"][fn]["page"] + ">" + canon_href(href)
                                for fn, prod, href, label, why in dead_links(r) if prod != "inhierarchy")
        if r["case"].get("oracle_only"):
            # outside the model's assumptions (a module named like a summary page): decided by the direct oracle only
            ctx.count("oracle-only-case")
            continue
        for sec in sorted(set(ms) | set(im)):
            if r["case"].get("path") and sec in TEXT_DEPENDENT:
                continue
            a, b = ms.get(sec, ""), im.get(sec, "")
            ctx.traces_validated += 1
            if a.strip():
                ctx.count("section-nonempty:" + sec)
            if a != b:
                sa, sb = set(a.split()), set(b.split())
                ctx.disagree("output:" + sec, r["case"], "model only: " + " ".join(sorted(sa - sb)[:8]),
                             "implementation only: " + " ".join(sorted(sb - sa)[:8]))
        full = r["crawl"]["search"]
        if full.get("searchindex.json") != full.get("fullsearchindex.json"):
            ctx.disagree("output:search-full", r["case"], "same documents", "searchindex.json and fullsearchindex.json differ")
    return good


def replay_case(ctx, obj) -> Tuple[Optional[Dict[str, Any]], Optional[Dict[str, str]]]:
    inp = obj.get("input") or obj.get("request")
    if inp is None and obj.get("disagreements"):
        d = obj["disagreements"][0]
        print("stream:", d.get("stream"), "|", d.get("model"), "|", d.get("impl"))
        inp = d.get("request")
    if not isinstance(inp, dict) or "units" not in inp:
        print("nothing to replay in this file:", list(obj)[:8], obj.get("broken"))
        return None, None
    case = case_from_payload(inp)
    print("case:", case["name"], "privacy:", case["privacy"], "opts:", case["opts"])
    for u in case["units"]:
        print("# %s%s" % (u.qname, "/" if u.is_package else ""))
        print(u.source)
    buf = io.StringIO()
    with contextlib.redirect_stdout(buf):
        res = run_case(case)
    if "facts" not in res:
        print("pydoctor aborted:", res.get("crash"))
        return None, None
    ans = ctx.driver.run([request_line(res["facts"])])[0]
    res["truth"] = Truth(res["facts"], expected_privacy(ctx, [res])[0])
    secs = parse_answer(ans)
    if secs is not None:
        ms = model_sections_for_compare(secs)
        im = impl_sections(res)
        for sec in sorted(set(ms) | set(im)):
            a, b = set(ms.get(sec, "").split()), set(im.get(sec, "").split())
            print("[%s] %s (%d items)" % ("same" if a == b else "DIFFER", sec, len(b)))
            if a != b:
                print("   model only:", sorted(a - b)[:10])
                print("   impl  only:", sorted(b - a)[:10])
    return res, secs
