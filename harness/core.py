"""Shared machinery of the checks: Lean build + audit, model driver, evidence, known findings.

A property module (harness/props/cXX.py) exposes

    THEOREMS   : list of theorem names (in PdProps.CXX) that carry the property
    run(ctx)   : generate inputs, run model + implementation, run the direct oracle; record
                 everything through ctx.*
    replay(ctx, obj): re-run one recorded case, print both sides (optional)

Exit status (main.py): 0 held / 1 VIOLATION / 2 infrastructure problem (never a VIOLATION).
"""
from __future__ import annotations

import fcntl
import hashlib
import json
import os
import random
import re
import subprocess
import sys
import time
from pathlib import Path
from typing import Any, Callable, Dict, Iterable, List, Optional, Sequence, Tuple

VERIF = Path(__file__).resolve().parent.parent
LEAN = VERIF / "lean"
DRIVER = LEAN / ".lake" / "build" / "bin" / "driver"
OUT = VERIF / "out"
REPO = Path(os.environ.get("PYDOCTOR_REPO", "/repo"))

ALLOWED_AXIOMS = {"propext", "Classical.choice", "Quot.sound"}
FORBIDDEN = re.compile(
    r"\bsorry\b|\badmit\b|^\s*axiom\s|native_decide|bv_decide|implemented_by|\bunsafe\s|maxHeartbeats\s+0\b",
    re.M)

TRUSTED_BASE = [
    "Lean 4.33.0 kernel (type checker); axioms allowed: propext, Classical.choice, Quot.sound (audited per theorem each run)",
    "Lean compiler for the `driver` executable that runs the model in the correspondence check",
    "hand-written Lean model in lean/PdModel (a transcription of the pydoctor code named in the theorem file); tied to /repo only by the differential correspondence run below",
    "Python harness (generators, adapters, canonicalisation, diff, oracle) in /verif/harness",
    "CPython 3.12.1 in /venv as reference interpreter",
]


class Infra(Exception):
    """Infrastructure problem: exit 2, never a VIOLATION."""


# --------------------------------------------------------------------------- Lean side

def _strip_comments(src: str) -> str:
    # remove /- ... -/ (nested) and -- comments
    out = []
    i, depth, n = 0, 0, len(src)
    while i < n:
        if src.startswith("/-", i):
            depth += 1
            i += 2
        elif depth and src.startswith("-/", i):
            depth -= 1
            i += 2
        elif depth:
            i += 1
        elif src.startswith("--", i):
            j = src.find("\n", i)
            i = n if j < 0 else j
        else:
            out.append(src[i])
            i += 1
    return "".join(out)


def lake(args: Sequence[str], timeout: int = 1500) -> Tuple[int, str]:
    LEAN.mkdir(exist_ok=True)
    lock = open(LEAN / ".build.lock", "w")
    fcntl.flock(lock, fcntl.LOCK_EX)
    try:
        p = subprocess.run(["lake", *args], cwd=LEAN, stdout=subprocess.PIPE, stderr=subprocess.STDOUT,
                           text=True, timeout=timeout)
        return p.returncode, p.stdout
    finally:
        fcntl.flock(lock, fcntl.LOCK_UN)
        lock.close()


def lean_sources_for(prop: str) -> List[Path]:
    files = [LEAN / "PdProps" / f"{prop}.lean"]
    files += sorted((LEAN / "PdModel").glob("*.lean"))
    files += sorted((LEAN / "PdProofs").glob("*.lean")) if (LEAN / "PdProofs").exists() else []
    files += sorted((LEAN / "Generated").glob("*.lean"))
    return [f for f in files if f.exists()]


def grep_forbidden(prop: str) -> List[str]:
    hits = []
    for f in lean_sources_for(prop):
        src = _strip_comments(f.read_text())
        for m in FORBIDDEN.finditer(src):
            hits.append(f"{f.relative_to(LEAN)}: {m.group(0).strip()}")
    return hits


AUDIT_TEMPLATE = """import PdProps.{prop}
import Lean
open Lean Elab Command
run_cmd do
  let env ← getEnv
  let some idx := env.getModuleIdx? `PdProps.{prop} | throwError "no module"
  let mut names : Array Name := #[]
  for (n, ci) in env.constants.map₁.toList do
    if env.getModuleIdxFor? n == some idx then
      if let .thmInfo _ := ci then
        if !n.isInternalDetail then names := names.push n
  for n in names.qsort (fun a b => a.toString < b.toString) do
    let ax ← liftCoreM (collectAxioms n)
    logInfo m!"AXIOMS {{n}} :: {{ax.toList}}"
"""


def audit(prop: str) -> Tuple[Dict[str, List[str]], str]:
    """Return {theorem: axioms} for every theorem declared in PdProps.<prop>."""
    adir = OUT / "audit"
    adir.mkdir(parents=True, exist_ok=True)
    f = adir / f"Audit{prop}.lean"
    f.write_text(AUDIT_TEMPLATE.format(prop=prop))
    rc, out = lake(["env", "lean", str(f)])
    res: Dict[str, List[str]] = {}
    for m in re.finditer(r"AXIOMS (\S+) :: \[(.*?)\]", out):
        axs = [a.strip() for a in m.group(2).split(",") if a.strip()]
        res[m.group(1)] = axs
    if rc != 0:
        return {}, out
    return res, out


_AUX = re.compile(r"\.(eq_\d+|eq_def|induct|induct_unfolding|fun_cases|fun_cases_unfolding|match_\d+.*|proof_\d+|_simp_\d+|sizeOf_spec|injEq|inj|noConfusion.*|mutual_induct|below.*|brecOn.*|rec.*|ind)$|\.match_|\._")


def is_aux(name: str) -> bool:
    return bool(_AUX.search(name))


def snapshot_driver() -> Optional[Path]:
    """copy the freshly built driver (under the build lock) so that a concurrent relink cannot hit a running check"""
    import shutil
    if not DRIVER.exists():
        return None
    d = OUT / "bin"
    d.mkdir(parents=True, exist_ok=True)
    dst = d / f"driver-{os.getpid()}"
    lock = open(LEAN / ".build.lock", "w")
    fcntl.flock(lock, fcntl.LOCK_EX)
    try:
        shutil.copy2(DRIVER, dst)
    finally:
        fcntl.flock(lock, fcntl.LOCK_UN)
        lock.close()
    return dst


def import_closure(prop: str) -> List[str]:
    """Lean source files (relative to lean/) that PdProps.<prop> depends on"""
    seen: List[str] = []
    todo = [f"PdProps/{prop}.lean"]
    while todo:
        f = todo.pop()
        if f in seen or not (LEAN / f).exists():
            continue
        seen.append(f)
        for m in re.finditer(r"^import\s+((?:PdModel|PdProps|Generated)[\w.]*)", (LEAN / f).read_text(), re.M):
            todo.append(m.group(1).replace(".", "/") + ".lean")
    return seen


class ModelDriver:
    """Runs the compiled Lean model over a batch of request lines."""

    def __init__(self) -> None:
        self.lines_run = 0
        self.binary: Optional[Path] = None

    def run(self, lines: Sequence[str], timeout: int = 900) -> List[str]:
        if not lines:
            return []
        binary = self.binary or DRIVER
        if not binary.exists():
            raise Infra("model driver missing: " + str(binary))
        for l in lines:
            if "\n" in l:
                raise Infra("newline in request line")
        last = ""
        for attempt in range(3):
            try:
                p = subprocess.run([str(binary)], input="\n".join(lines) + "\n", stdout=subprocess.PIPE,
                                   stderr=subprocess.PIPE, text=True, timeout=timeout)
            except OSError as e:
                last = str(e)
                time.sleep(3)
                continue
            if p.returncode == 0:
                break
            last = p.stderr[-500:]
            time.sleep(3)
        else:
            raise Infra("model driver failed: " + last)
        out = p.stdout.split("\n")
        if out and out[-1] == "":
            out.pop()
        if len(out) != len(lines):
            raise Infra(f"driver answered {len(out)} lines for {len(lines)} requests")
        self.lines_run += len(lines)
        return out

    def run_parallel(self, lines: Sequence[str], jobs: int = 16) -> List[str]:
        if len(lines) < 4000:
            return self.run(lines)
        from concurrent.futures import ThreadPoolExecutor
        n = len(lines)
        step = (n + jobs - 1) // jobs
        chunks = [lines[i:i + step] for i in range(0, n, step)]
        with ThreadPoolExecutor(max_workers=jobs) as ex:
            outs = list(ex.map(self.run, chunks))
        return [x for o in outs for x in o]


# --------------------------------------------------------------------------- encoding

def enc(s: str) -> str:
    """protocol encoding of an arbitrary string (code points; lone surrogates cannot be sent)"""
    return "u:" + ".".join(str(ord(c)) for c in s)


def dec(tok: str) -> str:
    assert tok.startswith("u:")
    body = tok[2:]
    return "" if not body else "".join(chr(int(x)) for x in body.split("."))


# --------------------------------------------------------------------------- context

class Ctx:
    def __init__(self, prop: str, tier: str, seed: int) -> None:
        self.prop = prop
        self.tier = tier
        self.seed = seed
        self.rng = random.Random(f"{prop}:{seed}")
        self.t0 = time.time()
        self.driver = ModelDriver()
        self.model_ok = True           # false when the Lean build/audit broke (model unusable or untrusted)
        self.broken: List[str] = []    # broken proof obligations / correspondences (names)
        self.disagreements: List[Dict[str, Any]] = []
        self.failures: List[Dict[str, Any]] = []   # direct-oracle failures on the real code
        self.evaluations = 0
        self.nontrivial: set = set()
        self.samples: List[Any] = []
        self.dist: Dict[str, int] = {}
        self.rule = ""
        self.notes: List[str] = []
        self.traces_validated = 0
        self.exhaustive = False
        self.extra: Dict[str, Any] = {}

    # -- bookkeeping
    @property
    def quick(self) -> bool:
        return self.tier == "quick"

    def count(self, key: str, n: int = 1) -> None:
        self.dist[key] = self.dist.get(key, 0) + n

    def case(self, canonical: str, nontrivial: bool, sample: Any = None) -> None:
        self.evaluations += 1
        if nontrivial:
            self.nontrivial.add(hashlib.blake2b(canonical.encode("utf-8", "surrogatepass"), digest_size=8).digest())
        if sample is not None and len(self.samples) < 6:
            self.samples.append(sample)

    def disagree(self, stream: str, request: Any, model: Any, impl: Any) -> None:
        if len(self.disagreements) < 50:
            self.disagreements.append({"stream": stream, "request": request, "model": model, "impl": impl})
        self.count("disagree:" + stream)

    def fail(self, signature: str, input: Any, what: str) -> None:
        """the property's direct oracle failed on the real code"""
        self.count("oracle-fail:" + signature)
        for f in self.failures:
            if f["signature"] == signature:
                f["count"] += 1
                return
        self.failures.append({"signature": signature, "input": input, "what": what, "count": 1})

    def elapsed(self) -> float:
        return time.time() - self.t0

    def compare(self, stream: str, requests: Sequence[str], impl_outs: Sequence[str],
                payload: Optional[Sequence[Any]] = None) -> int:
        """run the model on requests and diff with the implementation's canonical outputs"""
        if not self.model_ok:
            return 0
        outs = self.driver.run_parallel(list(requests))
        bad = 0
        for i, (rq, mo, io) in enumerate(zip(requests, outs, impl_outs)):
            self.traces_validated += 1
            if mo != io:
                bad += 1
                self.disagree(stream, payload[i] if payload is not None else rq, mo, io)
        return bad


# --------------------------------------------------------------------------- known findings

def load_known() -> Dict[str, List[Dict[str, Any]]]:
    f = VERIF / "known_findings.json"
    if not f.exists():
        return {}
    data = json.loads(f.read_text())
    res: Dict[str, List[Dict[str, Any]]] = {}
    for e in data.get("findings", []):
        res.setdefault(e["property"], []).append(e)
    return res


def subprocess_env(hashseed: Optional[int] = None) -> Dict[str, str]:
    env = dict(os.environ)
    env["PYTHONPATH"] = f"{REPO}:{VERIF}"
    env["PYTHONDONTWRITEBYTECODE"] = "1"
    if hashseed is not None:
        env["PYTHONHASHSEED"] = str(hashseed)
    return env
