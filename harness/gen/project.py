"""Random multi-module Python projects (source text), rich in the constructs the object-model
properties quantify over: duplicate definitions, nested classes, property setters, cross-module
bases, plain / aliased / relative / star imports, __all__ re-exports, import cycles, attribute
docstrings and documented-only (field) attributes.

A project is a list of units in *creation order* (a package before its children):
    Unit(qname, is_package, source, parent_qname)
"""
from __future__ import annotations

from dataclasses import dataclass, field
from typing import Dict, List, Optional

import random


@dataclass
class Unit:
    qname: str
    is_package: bool
    source: str
    parent: Optional[str]

    @property
    def name(self) -> str:
        return self.qname.rsplit(".", 1)[-1]


@dataclass
class Knobs:
    dup: float = 0.25           # probability of re-defining an existing name in a scope
    reexport: float = 0.35      # probability that a module re-exports something through __all__
    cycles: bool = True
    star: float = 0.2
    dotted_names: bool = True   # property setters (objects named `x.setter`)
    fields: float = 0.2         # @ivar fields in class docstrings
    max_modules: int = 6
    allow_relative: bool = True
    single_reexporter: bool = False   # an object is re-exported (listed in __all__ by an importer) at most once
    field_names_submodule: float = 0.0   # a package docstring with a @var/@ivar/@cvar/@type field that names one of its sub-modules
    summary_root_names: float = 0.0   # a root named like a summary page (classIndex, index, moduleIndex, ...)
    member_alias: float = 0.0   # module-level alias of a class member (`meth = C.meth`), importable and re-exportable like a function


NAMES = ["a", "b", "c", "f", "g", "h", "x", "y", "K", "L", "Base", "Mix", "_p", "_Q"]
CLASSN = ["K", "L", "Base", "Mix", "_Q", "C", "D"]
FUNCN = ["f", "g", "h", "_p", "run", "x"]
VARN = ["a", "b", "c", "x", "y", "CONST", "_v"]


class Gen:
    def __init__(self, rng: random.Random, knobs: Optional[Knobs] = None) -> None:
        self.rng = rng
        self.k = knobs or Knobs()
        self.units: List[Unit] = []
        self.defs: Dict[str, List[str]] = {}   # module qname -> top-level class names defined
        self.funcs: Dict[str, List[str]] = {}
        self.reexported: set = set()

    # ------------------------------------------------------------ layout
    def layout(self) -> List[tuple]:
        """[(qname, is_package, parent)] in creation order"""
        rng = self.rng
        res = []
        nroots = rng.choice([1, 1, 1, 2])
        budget = rng.randint(1, self.k.max_modules)
        rootnames = rng.sample(["pkg", "lib", "app", "mod", "util"], nroots)
        if self.k.summary_root_names and rng.random() < self.k.summary_root_names:
            if nroots == 1 and rng.random() < 0.7:
                rootnames.append(rng.choice(["lib", "app"]) + "2")
            rootnames[rng.randrange(len(rootnames))] = rng.choice(
                ["classIndex", "index", "moduleIndex", "nameIndex", "undoccedSummary", "all-documents".replace("-", "_"), "classIndex"])

        def grow(q, parent, depth):
            nonlocal budget
            ispkg = depth < 2 and rng.random() < (0.8 if depth == 0 else 0.3)
            res.append((q, ispkg, parent))
            budget -= 1
            if ispkg:
                names = rng.sample(["_b", "core", "d", "e", "sub", "zz", "api"], rng.randint(1, 3))
                if rng.random() < 0.12:
                    names[0] = q.split(".")[0]      # a sub-module named like the root package (pkg/pkg.py)
                for n in sorted(names):        # System.addPackage sorts directory entries
                    if budget <= 0:
                        break
                    grow(q + "." + n, q, depth + 1)
        for r in rootnames:
            budget = max(budget, 1)
            grow(r, None, 0)
        return res

    # ------------------------------------------------------------ bodies
    def class_body(self, depth: int, modq: str, clsname: str) -> List[str]:
        rng = self.rng
        lines: List[str] = []
        if rng.random() < 0.5:
            doc = "doc of %s" % clsname
            if rng.random() < self.k.fields:
                doc += "\n    @ivar inst_%s: field attr\n    @type inst_%s: int\n    @cvar cv: class var" % (clsname.lower(), clsname.lower())
            lines.append('"""%s\n    """' % doc)
        n = rng.randint(0, 4)
        used: List[str] = []
        for _ in range(n):
            kind = rng.choice(["meth", "meth", "attr", "prop", "nested", "static", "clsm", "if"])
            name = rng.choice(used) if used and rng.random() < self.k.dup else rng.choice(FUNCN + VARN)
            used.append(name)
            if kind == "meth":
                lines += ["def %s(self):" % name, "    '''m %s'''" % name]
                if rng.random() < 0.2:
                    lines += ["    self.%s_inst = 1" % name, "    '''inst doc'''"]
            elif kind == "attr":
                lines += ["%s = %s" % (name, rng.choice(["1", "'s'", "[1]", "None"]))]
                if rng.random() < 0.4:
                    lines += ["'''attr doc %s'''" % name]
            elif kind == "prop" and self.k.dotted_names:
                lines += ["@property", "def %s(self):" % name, "    return 1"]
                if rng.random() < 0.7:
                    lines += ["@%s.setter" % name, "def %s(self, v):" % name, "    pass"]
                if rng.random() < 0.2:
                    lines += ["@%s.deleter" % name, "def %s(self):" % name, "    pass"]
            elif kind == "nested" and depth < 2:
                cn = rng.choice(CLASSN + [name])
                lines += ["class %s:" % cn] + ["    " + l for l in (self.class_body(depth + 1, modq, cn) or ["pass"])]
            elif kind == "static":
                lines += ["@staticmethod", "def %s():" % name, "    pass"]
            elif kind == "clsm":
                lines += ["@classmethod", "def %s(cls):" % name, "    pass"]
            elif kind == "if":
                lines += ["if True:", "    def %s(self): pass" % name, "else:", "    def %s(self): return 2" % name]
        return lines or ["pass"]

    def module_body(self, q: str, ispkg: bool, parent: Optional[str], all_units: List[tuple]) -> str:
        rng = self.rng
        lines: List[str] = []
        imported: List[str] = []      # local names bound by imports that may be used as bases
        reexports: List[str] = []
        origins: Dict[str, List[tuple]] = {}
        if rng.random() < 0.3:
            lines.append('"""module %s"""' % q)
        elif ispkg and self.k.field_names_submodule and rng.random() < self.k.field_names_submodule:
            subs = [u[0].rsplit(".", 1)[1] for u in all_units if u[2] == q]
            if subs:
                lines.append('"""package %s\n\n@%s %s: see the sub-module\n"""' % (q, rng.choice(["var", "var", "ivar", "cvar", "type"]), rng.choice(subs)))
        others = [u for u in all_units if u[0] != q]
        # imports
        for _ in range(rng.randint(0, 3)):
            if not others:
                break
            tq, tpkg, tparent = rng.choice(others)
            if not self.k.cycles and all_units.index((tq, tpkg, tparent)) > [u[0] for u in all_units].index(q):
                continue
            form = rng.choice(["from", "from", "from_as", "import", "import_as", "star", "rel", "from_mod_as"])
            tdefs = self.defs.get(tq, []) + self.funcs.get(tq, [])
            if form in ("from", "from_as") and tdefs:
                n = rng.choice(tdefs)
                asn = n if form == "from" else n + "_r"
                lines.append("from %s import %s%s" % (tq, n, "" if asn == n else " as " + asn))
                imported.append(asn)
                origins.setdefault(asn, []).append((tq, n))
                if rng.random() < self.k.reexport:
                    reexports.append(asn)
            elif form == "from_mod_as" and tparent is not None:
                # a sub-module imported from its package under another name (and perhaps re-exported)
                sub = tq.rsplit(".", 1)[1]
                al = "m_" + sub.strip("_")
                lines.append("from %s import %s as %s" % (tparent, sub, al))
                origins.setdefault(al, []).append((tq, ""))
                if self.defs.get(tq):
                    imported.append(al + "." + rng.choice(self.defs[tq]))
                if ispkg and rng.random() < self.k.reexport * 1.5:
                    reexports.append(al)
            elif form == "import":
                lines.append("import %s" % tq)
                if self.defs.get(tq):
                    imported.append(tq + "." + rng.choice(self.defs[tq]))
            elif form == "import_as":
                al = "m_" + tq.replace(".", "_")
                lines.append("import %s as %s" % (tq, al))
                if self.defs.get(tq):
                    imported.append(al + "." + rng.choice(self.defs[tq]))
            elif form == "star" and rng.random() < self.k.star * 3:
                lines.append("from %s import *" % tq)
                for n in self.defs.get(tq, []):
                    if not n.startswith("_"):
                        imported.append(n)
                        origins.setdefault(n, []).append((tq, n))
                        if rng.random() < self.k.reexport / 2:
                            reexports.append(n)
            elif form == "rel" and self.k.allow_relative:
                # relative import of a sibling / child
                base = q if ispkg else (parent or "")
                if base and tq.startswith(base + ".") and "." not in tq[len(base) + 1:]:
                    sub = tq[len(base) + 1:]
                    if tdefs:
                        n = rng.choice(tdefs)
                        lines.append("from .%s import %s" % (sub, n))
                        imported.append(n)
                        origins.setdefault(n, []).append((tq, n))
                        if rng.random() < self.k.reexport:
                            reexports.append(n)
                    else:
                        lines.append("from . import %s" % sub)
                        origins.setdefault(sub, []).append((tq, ""))
                        if rng.random() < self.k.reexport / 3:
                            reexports.append(sub)
        # definitions
        used: List[str] = []
        mydefs: List[str] = []
        myfuncs: List[str] = []
        for _ in range(rng.randint(0, 4)):
            kind = rng.choice(["class", "class", "func", "var", "ifdup", "try"])
            if kind == "class":
                name = rng.choice(used) if used and rng.random() < self.k.dup else rng.choice(CLASSN)
                if rng.random() < 0.06:
                    name = q.split(".")[0]          # a class named like the root package
                bases = []
                for _b in range(rng.choice([0, 0, 1, 1, 2])):
                    cands = imported + mydefs
                    if cands:
                        b = rng.choice(cands)
                        if b not in bases and b != name:
                            bases.append(b)
                lines += ["class %s%s:" % (name, "(%s)" % ", ".join(bases) if bases else "")]
                lines += ["    " + l for l in self.class_body(0, q, name)]
                used.append(name)
                mydefs.append(name)
                if self.k.member_alias and rng.random() < self.k.member_alias:
                    # `al = C.al_m`: a module-level name for a member of the class; other modules import it by that name
                    # (self.funcs) and may list it in their __all__
                    al = "al_" + name.strip("_").lower()
                    what = rng.choice(["def %s_m(self): pass", "@staticmethod\n    def %s_m(): pass", "class %s_m:\n        y = 1"])
                    lines += ["    " + (what % al), "%s = %s.%s_m" % (al, name, al)]
                    myfuncs.append(al)
            elif kind == "func":
                name = rng.choice(used) if used and rng.random() < self.k.dup else rng.choice(FUNCN)
                lines += ["def %s(a, b=1):" % name, "    '''f %s'''" % name]
                used.append(name)
                myfuncs.append(name)
            elif kind == "var":
                name = rng.choice(used) if used and rng.random() < self.k.dup else rng.choice(VARN)
                lines += ["%s = 1" % name]
                if rng.random() < 0.4:
                    lines += ["'''var doc'''"]
                used.append(name)
            elif kind == "ifdup":
                name = rng.choice(CLASSN)
                lines += ["if True:", "    class %s:" % name, "        def m(self): pass", "        def m(self): pass",
                          "else:", "    class %s: pass" % name]
                if rng.random() < 0.5:
                    lines += ["class %s:" % name, "    x = 1"]
                used.append(name)
                mydefs.append(name)
            elif kind == "try":
                name = rng.choice(FUNCN)
                lines += ["try:", "    def %s(): pass" % name, "except ImportError:", "    def %s(): return 0" % name]
                used.append(name)
                myfuncs.append(name)
        if self.k.single_reexporter:
            # a local name listed in __all__ re-exports EVERY object an import bound to it here
            keep = []
            for asn in dict.fromkeys(reexports):
                os_ = origins.get(asn, [])
                if all(o not in self.reexported for o in os_):
                    self.reexported.update(os_)
                    keep.append(asn)
            reexports = keep
        if reexports or rng.random() < 0.1:
            extra = [n for n in mydefs if rng.random() < 0.5]
            lines.append("__all__ = %r" % (sorted(set(reexports)) + extra))
        self.defs[q] = list(dict.fromkeys(mydefs))
        self.funcs[q] = list(dict.fromkeys(myfuncs))
        return "\n".join(lines) + "\n"

    def may_reexport(self, tq: str, n: str) -> bool:
        if not self.k.single_reexporter:
            return True
        if (tq, n) in self.reexported:
            return False
        self.reexported.add((tq, n))
        return True

    def project(self) -> List[Unit]:
        lay = self.layout()
        # two passes so that imports can refer to definitions of any module (incl. later ones -> cycles)
        for q, ispkg, parent in lay:
            self.module_body(q, ispkg, parent, lay)
        self.reexported = set()
        units = []
        for q, ispkg, parent in lay:
            units.append(Unit(q, ispkg, self.module_body(q, ispkg, parent, lay), parent))
        return units


def build_system(units: List[Unit], system=None, order: Optional[List[int]] = None):
    """Build a real pydoctor System from the units (in-process). `order`: permutation applied to
    `unprocessed_modules` before processing (schedules)."""
    from pydoctor import model
    s = system or model.System()
    b = s.systemBuilder(s)
    for u in units:
        b.addModuleString(u.source, u.name, parent_name=u.parent, is_package=u.is_package)
    if order is not None:
        mods = list(s.unprocessed_modules)
        s.unprocessed_modules[:] = [mods[i] for i in order]
    b.buildModules()
    return s


def write_tree(units: List[Unit], root) -> List[str]:
    """write the project as files under `root`; returns the root paths to hand to pydoctor"""
    from pathlib import Path
    root = Path(root)
    tops = []
    pk = {u.qname for u in units if u.is_package}
    for u in units:
        parts = u.qname.split(".")
        if u.is_package:
            d = root.joinpath(*parts)
            d.mkdir(parents=True, exist_ok=True)
            (d / "__init__.py").write_text(u.source)
            if u.parent is None:
                tops.append(str(d))
        else:
            d = root.joinpath(*parts[:-1])
            d.mkdir(parents=True, exist_ok=True)
            (d / (parts[-1] + ".py")).write_text(u.source)
            if u.parent is None:
                tops.append(str(d / (parts[-1] + ".py")))
    return tops
