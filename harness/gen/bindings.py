"""Generator of acyclic multi-package projects for the name-binding properties (C04, C03):
every definition has a globally unique name and a docstring `ID:<name>`; every variable a unique
integer value; each name is bound once per scope; imports only reach modules earlier in a
topological order.  Records, per scope and bound name, the syntactic form that bound it.
"""
from __future__ import annotations

import random
from dataclasses import dataclass, field
from typing import Dict, List, Optional, Set, Tuple

from .project import Unit


@dataclass
class Mod:
    q: str
    is_pkg: bool
    parent: Optional[str]
    lines: List[str] = field(default_factory=list)
    bound: Dict[str, str] = field(default_factory=dict)      # module-level name -> form
    public: Set[str] = field(default_factory=set)            # names a star import would take
    has_all: Optional[List[str]] = None
    classes: List[str] = field(default_factory=list)         # top-level class names
    funcs: List[str] = field(default_factory=list)
    vars: List[str] = field(default_factory=list)


class BindGen:
    def __init__(self, rng: random.Random, class_imports: bool = True, star: bool = True,
                 relative: bool = True, reimport: bool = True, reexports: bool = True, subclasses: bool = True) -> None:
        self.rng = rng
        self.n = 0
        self.mods: List[Mod] = []
        self.scope_forms: Dict[Tuple[str, str], str] = {}   # (scope qualname, name) -> form
        self.class_imports = class_imports
        self.star = star
        self.relative = relative
        self.reimport = reimport
        self.reexports = reexports
        self.subclasses = subclasses

    def fresh(self, prefix: str) -> str:
        self.n += 1
        return "%s%d" % (prefix, self.n)

    def alias(self, bound: Dict[str, str]) -> str:
        """a local alias name: often one of a few shared names, so that the same local name is bound in
        several scopes of one module (module and class bodies) to different objects — each still once per scope"""
        if self.rng.random() < 0.45:
            cands = [a for a in ("sh1", "sh2", "sh3") if a not in bound]
            if cands:
                return self.rng.choice(cands)
        return self.fresh("al")

    def layout(self) -> List[Tuple[str, bool, Optional[str]]]:
        rng = self.rng
        out: List[Tuple[str, bool, Optional[str]]] = []
        # submodule names are unique across the project: `from pa import m1a` inside package pc must not
        # collide with a submodule of pc (a package attribute bound twice is outside the property's quantifier)
        for r in rng.sample(["pa", "pb", "pc"], rng.choice([1, 2, 2])):
            out.append((r, True, None))
            sfx = r[-1]
            for s in sorted(rng.sample(["m1", "m2", "sub", "_priv"], rng.randint(1, 3))):
                if s == "sub":
                    sp = r + ".sub" + sfx
                    out.append((sp, True, r))
                    for t in sorted(rng.sample(["x1", "x2"], rng.randint(1, 2))):
                        out.append((sp + "." + t + sfx, False, sp))
                else:
                    out.append((r + "." + s + sfx, False, r))
        if rng.random() < 0.4:
            out.append(("top", False, None))
        return out

    def project(self) -> List[Unit]:
        rng = self.rng
        lay = self.layout()
        # topological order: a random permutation; module i imports only from modules j < i
        order = list(range(len(lay)))
        rng.shuffle(order)
        mods = {lay[i][0]: Mod(*lay[i]) for i in range(len(lay))}
        done: List[Mod] = []
        # subclasses (inherited attributes) in about a third of the projects
        self.subclasses = self.subclasses and rng.random() < 0.2
        self.rank: Dict[str, int] = {}              # topological index: imports only reach smaller ranks
        for i in order:
            m = mods[lay[i][0]]
            self.fill(m, done, mods)
            self.rank[m.q] = len(done)
            done.append(m)
        self.mods = [mods[q] for q, _, _ in lay]
        return [Unit(m.q, m.is_pkg, "\n".join(m.lines) + "\n", m.parent) for m in self.mods]

    # ------------------------------------------------------------------
    def bind(self, m: Mod, scope: str, name: str, form: str, lines: List[str], bound: Dict[str, str]) -> bool:
        if name in bound:
            return False
        bound[name] = form
        self.scope_forms[(scope, name)] = form
        return True

    def imports(self, m: Mod, scope: str, done: List[Mod], mods: Dict[str, Mod], bound: Dict[str, str],
                indent: str, out: List[str], count: int) -> None:
        rng = self.rng
        if not done:
            return
        # importing a module runs the __init__ of every package above it first: a target is eligible only when
        # those packages have been generated already too (otherwise they could import back: a hidden cycle)
        names_done = {d.q for d in done}
        eligible = [d for d in done
                    if all(".".join(d.q.split(".")[:k]) in names_done for k in range(1, d.q.count(".") + 1))]
        if not eligible:
            return
        for _ in range(count):
            self._guard(out, indent, getattr(self, "_mark", None))
            self._mark = len(out)
            t = rng.choice(eligible)
            forms = ["import", "import_as", "from", "from_as", "from_mod", "from_mod_as"]
            if self.star and scope == m.q:
                forms.append("star")
            if self.relative:
                forms += ["rel", "rel"]
            if self.reimport:
                forms.append("reimport")
            f = rng.choice(forms)
            defs = t.classes + t.funcs + t.vars
            if f == "import":
                top = t.q.split(".")[0]
                if top not in bound:
                    out.append(indent + "import " + t.q)
                    self.bind(m, scope, top, "import", out, bound)
            elif f == "import_as":
                al = self.alias(bound)
                out.append(indent + "import %s as %s" % (t.q, al))
                self.bind(m, scope, al, "import_as", out, bound)
            elif f in ("from", "from_as") and defs:
                n = rng.choice(defs)
                al = n if f == "from" else self.alias(bound)
                if al not in bound:
                    out.append(indent + "from %s import %s%s" % (t.q, n, "" if al == n else " as " + al))
                    self.bind(m, scope, al, "from_definer" if n in t.classes + t.funcs else "from_definer_var", out, bound)
            elif f in ("from_mod", "from_mod_as") and t.parent is not None:
                n = t.q.rsplit(".", 1)[1]
                al = n if f == "from_mod" else self.alias(bound)
                if al not in bound:
                    out.append(indent + "from %s import %s%s" % (t.parent, n, "" if al == n else " as " + al))
                    self.bind(m, scope, al, "from_pkg_submodule", out, bound)
            elif f == "star":
                names = t.has_all if t.has_all is not None else sorted(t.public)
                if names and not any(n in bound for n in names):
                    out.append(indent + "from %s import *" % t.q)
                    for n in names:
                        self.bind(m, scope, n, "star", out, bound)
            elif f == "rel":
                base = m.q if m.is_pkg else (m.parent or "")
                if not base:
                    continue
                # target reachable relatively: a module below `base` or below its parent
                for level, b in ((1, base), (2, base.rsplit(".", 1)[0] if "." in base else None)):
                    if b and t.q.startswith(b + "."):
                        rest = t.q[len(b) + 1:]
                        if defs and rng.random() < 0.6:
                            n = rng.choice(defs)
                            al = n if rng.random() < 0.6 else self.alias(bound)
                            if al not in bound:
                                out.append(indent + "from %s%s import %s%s" % ("." * level, rest, n, "" if al == n else " as " + al))
                                self.bind(m, scope, al, "from_definer_relative" if n in t.classes + t.funcs else "from_definer_var", out, bound)
                        elif "." not in rest:
                            if rest not in bound:
                                out.append(indent + "from %s import %s" % ("." * level, rest))
                                self.bind(m, scope, rest, "from_pkg_submodule_relative", out, bound)
                        break
            elif f == "reimport":
                # import from `t` a name that `t` itself imported (package re-import and the like)
                cands = [n for n, fm in t.bound.items() if fm in ("from_definer", "from_definer_relative") and not n.startswith("_")]
                if cands:
                    n = rng.choice(cands)
                    if n not in bound:
                        out.append(indent + "from %s import %s" % (t.q, n))
                        self.bind(m, scope, n, "reimport", out, bound)
        self._guard(out, indent, getattr(self, "_mark", None))
        self._mark = None

    RUNS = ("__name__ != '__main__'", "'__main__' != __name__", "__name__ not in ('__main__',)")

    def _guard(self, out: List[str], indent: str, mark: Optional[int]) -> None:
        """the import statement generated last (the lines from `mark` on) is now and then put inside an `if` on `__name__` that
        DOES run when the module is imported (`!=`, either operand order, `not in`): Python binds the name, and pydoctor - which
        skips `if __name__ == '__main__':` blocks only - must see the import. Now and then a block that does NOT run on import is
        added next to it, binding a fresh name nothing else uses (`==`: skipped by both; reversed `==`: visited by pydoctor)."""
        rng = self.rng
        if mark is None or len(out) - mark != 1:
            return
        line = out[mark]
        if not (line.startswith(indent + "import ") or line.startswith(indent + "from ")):
            return
        r = rng.random()
        if r < 0.12:
            out[mark:] = [indent + "if %s:" % rng.choice(self.RUNS), indent + "    " + line[len(indent):]]
        elif r < 0.16 and line.startswith(indent + "import ") and " as " in line:
            target = line[len(indent):].split(" as ")[0]
            cond = "__name__ == '__main__'" if rng.random() < 0.7 else "'__main__' == __name__"
            out += [indent + "if %s:" % cond, indent + "    %s as %s" % (target, self.fresh("ng"))]

    def class_def(self, m: Mod, scope: str, depth: int, indent: str, out: List[str], bound: Dict[str, str],
                  done: List[Mod], mods: Dict[str, Mod]) -> str:
        rng = self.rng
        name = self.fresh("C")
        # sometimes a subclass of an earlier top-level class of the same module (inherited attributes: `Sub.x`)
        base = rng.choice(m.classes) if (self.subclasses and depth == 0 and m.classes and rng.random() < 0.25) else None
        out.append(indent + "class %s%s:" % (name, "(%s)" % base if base else ""))
        ind = indent + "    "
        out.append(ind + "'''ID:%s'''" % name)
        cscope = scope + "." + name
        cb: Dict[str, str] = {}
        if self.class_imports and rng.random() < 0.4:
            self.imports(m, cscope, done, mods, cb, ind, out, rng.randint(1, 2))
        # a name used with its module-level meaning (base of a nested class) and only LATER bound in this class body
        names_done = {d.q for d in done}
        elig = [d for d in done if d.classes and
                all(".".join(d.q.split(".")[:j]) in names_done for j in range(1, d.q.count(".") + 1))]
        if m.classes and elig and depth < 2 and rng.random() < 0.2:
            n = rng.choice(m.classes)
            if n not in cb:
                inner = self.fresh("C")
                out += [ind + "class %s(%s):" % (inner, n), ind + "    " + "'" * 3 + "ID:%s" % inner + "'" * 3]
                self.bind(m, cscope, inner, "class", out, cb)
                t = rng.choice(elig)
                y = rng.choice(t.classes)
                out.append(ind + "from %s import %s as %s" % (t.q, y, n))
                self.bind(m, cscope, n, "from_definer", out, cb)
        for _ in range(rng.randint(0, 3)):
            k = rng.choice(["meth", "var", "nested"])
            if k == "meth":
                fn = self.fresh("M")
                out += [ind + "def %s(self):" % fn, ind + "    '''ID:%s'''" % fn]
                self.bind(m, cscope, fn, "def", out, cb)
            elif k == "var":
                vn = self.fresh("V")
                out.append(ind + "%s = %d" % (vn, 1000000 + self.n))
                self.bind(m, cscope, vn, "assign", out, cb)
            elif k == "nested" and depth < 2:
                self.class_def(m, cscope, depth + 1, ind, out, cb, done, mods)
        self.bind(m, scope, name, "class", out, bound)
        return name

    def fill(self, m: Mod, done: List[Mod], mods: Dict[str, Mod]) -> None:
        rng = self.rng
        out = m.lines
        out.append("'''module %s'''" % m.q)
        self.imports(m, m.q, done, mods, m.bound, "", out, rng.randint(0, 4))
        for _ in range(rng.randint(1, 4)):
            k = rng.choice(["class", "class", "func", "var"])
            if k == "class":
                m.classes.append(self.class_def(m, m.q, 0, "", out, m.bound, done, mods))
            elif k == "func":
                fn = self.fresh("F")
                out += ["def %s(a=1):" % fn, "    '''ID:%s'''" % fn]
                self.bind(m, m.q, fn, "def", out, m.bound)
                m.funcs.append(fn)
            else:
                vn = self.fresh("V")
                out.append("%s = %d" % (vn, 1000000 + self.n))
                self.bind(m, m.q, vn, "assign", out, m.bound)
                m.vars.append(vn)
        self.imports(m, m.q, done, mods, m.bound, "", out, rng.randint(0, 2))
        m.public = {n for n in m.bound if not n.startswith("_")}
        if rng.random() < 0.25:
            own = [n for n in m.classes + m.funcs + m.vars]
            m.has_all = sorted(rng.sample(own, rng.randint(1, len(own)))) if own else None
            if m.has_all is not None and self.reexports and rng.random() < 0.5:
                # also list names this module merely imported: pydoctor then MOVES those objects here (re-export)
                # each object has at most one re-exporter (definition names are unique, aliases are not re-exported)
                done_names = getattr(self, "_reexported", set())
                self._reexported = done_names
                imp = [n for n, f in m.bound.items() if f in ("from_definer", "from_definer_relative", "star")
                       and not n.startswith("_") and n not in done_names and n[0] in "CFV" and n[1:].isdigit()]
                if imp:
                    chosen = rng.sample(imp, rng.randint(1, min(2, len(imp))))
                    done_names.update(chosen)
                    m.has_all = sorted(set(m.has_all) | set(chosen))
            if m.has_all is not None:
                out.append("__all__ = %r" % m.has_all)


# ---------------------------------------------------------------------------------------------
# source text -> abstract project (the syntax of lean/PdModel/Imports.lean).  This translator is part of
# the trusted base of the C04 `imports build` / `pyimp run` streams: it decides which abstract project a
# source tree *is*.  It reads syntax only (Python's own `ast`), never control flow of pydoctor.

class Unsupported(Exception):
    """the source uses a construct the abstract syntax does not have"""


def _enc(s: str) -> str:
    return "u:" + ".".join(str(ord(c)) for c in s)


def _dotted(node) -> str:
    import ast
    parts = []
    while isinstance(node, ast.Attribute):
        parts.append(node.attr)
        node = node.value
    if not isinstance(node, ast.Name):
        raise Unsupported("base expression")
    parts.append(node.id)
    return ".".join(reversed(parts))


def _stmts(body, toplevel: bool, out: List[str], forms: Dict[str, int], defs: Dict[str, str], values: Dict[int, str],
           scope: str, pd_only: bool = False) -> None:
    """pd_only: the translation only has to be faithful for pydoctor's visitor (which walks every branch of a `try` in
    source order and makes an Attribute of any simple assignment): used for the re-export scenarios, never for `pyimp`"""
    import ast
    for i, node in enumerate(body):
        if isinstance(node, ast.If) and isinstance(node.test, ast.Compare) and not node.orelse:
            # a guard on `__name__`. Whether pydoctor's visitor skips the block is decided by the function under test itself
            # (astbuilder.visit_If -> astutils.is__name__equals__main__), not by a re-implementation; whether Python runs it
            # on import is decided by evaluating the test with the `__name__` of an imported module.
            from pydoctor.astutils import is__name__equals__main__
            pd_skips = bool(is__name__equals__main__(node.test))
            try:
                py_runs = bool(eval(compile(ast.Expression(node.test), "<guard>", "eval"),
                                    {"__builtins__": {}, "__name__": "imported.module"}))
            except Exception:
                raise Unsupported("If")
            if pd_skips and not py_runs:
                forms["guard:skipped-by-both"] = forms.get("guard:skipped-by-both", 0) + 1
                continue
            if (not pd_skips and py_runs) or (pd_only and not pd_skips):
                forms["guard:runs"] = forms.get("guard:runs", 0) + 1
                _stmts(node.body, toplevel, out, forms, defs, values, scope, pd_only)
                continue
            if pd_only:
                continue
            raise Unsupported("guard: pydoctor %s the block, Python %s it" % ("skips" if pd_skips else "visits",
                                                                               "runs" if py_runs else "does not run"))
        if pd_only and isinstance(node, ast.Try):
            _stmts(node.body + [x for h in node.handlers for x in h.body] + node.orelse + node.finalbody,
                   toplevel, out, forms, defs, values, scope, pd_only)
            forms["try"] = forms.get("try", 0) + 1
            continue
        if pd_only and isinstance(node, ast.AnnAssign) and isinstance(node.target, ast.Name) and node.value is not None \
                and isinstance(node.value, ast.Constant):
            out.append("A|%s|0" % _enc(node.target.id))
            continue
        if isinstance(node, ast.Expr) and isinstance(node.value, ast.Constant) and isinstance(node.value.value, str):
            continue                                  # docstring / attribute docstring: binds nothing
        if isinstance(node, ast.Pass):
            continue
        if isinstance(node, ast.Import):
            for al in node.names:
                out.append("I|%s|%s" % (_enc(al.name), _enc(al.asname) if al.asname else "-"))
                forms["import_as" if al.asname else "import"] = forms.get("import_as" if al.asname else "import", 0) + 1
        elif isinstance(node, ast.ImportFrom):
            mod = _enc(node.module) if node.module else "-"
            for al in node.names:
                if al.name == "*":
                    out.append("S|%d|%s" % (node.level, mod))
                    k = "star" + ("_relative" if node.level else "")
                else:
                    out.append("F|%d|%s|%s|%s" % (node.level, mod, _enc(al.name), _enc(al.asname) if al.asname else "-"))
                    k = "from" + ("_as" if al.asname else "") + ("_relative%d" % node.level if node.level else "")
                if not toplevel:
                    k += "_in_class"
                forms[k] = forms.get(k, 0) + 1
        elif isinstance(node, ast.ClassDef):
            if node.decorator_list or node.keywords:
                raise Unsupported("class decorators / keywords")
            bases = [_dotted(b) for b in node.bases]
            out.append("C|%s|%s" % (_enc(node.name), ",".join(_enc(b) for b in bases) or "-"))
            forms["class" + ("_with_bases" if bases else "")] = forms.get("class" + ("_with_bases" if bases else ""), 0) + 1
            defs[node.name] = scope + "." + node.name
            _stmts(node.body, False, out, forms, defs, values, scope + "." + node.name, pd_only)
            out.append("}")
        elif isinstance(node, (ast.FunctionDef, ast.AsyncFunctionDef)):
            if node.decorator_list:
                raise Unsupported("decorated function")
            if any(isinstance(x, (ast.ClassDef, ast.Import, ast.ImportFrom)) for sub in node.body for x in ast.walk(sub)):
                raise Unsupported("definitions inside a function")
            out.append("D|%s" % _enc(node.name))
            defs[node.name] = scope + "." + node.name
        elif isinstance(node, ast.Assign) and len(node.targets) == 1 and isinstance(node.targets[0], ast.Name):
            name = node.targets[0].id
            v = node.value
            if name == "__all__":
                if not toplevel or not isinstance(v, (ast.List, ast.Tuple)) or \
                        not all(isinstance(e, ast.Constant) and isinstance(e.value, str) for e in v.elts):
                    raise Unsupported("__all__ form")
                out.append("L|%s" % (",".join(_enc(e.value) for e in v.elts) or "-"))
                forms["__all__"] = forms.get("__all__", 0) + 1
            elif isinstance(v, ast.Constant) and isinstance(v.value, int) and not isinstance(v.value, bool) and v.value >= 0:
                out.append("A|%s|%d" % (_enc(name), v.value))
                values[v.value] = scope + "." + name
            else:
                raise Unsupported("assignment value")
        else:
            raise Unsupported(type(node).__name__)


def abstract_project(units: List[Unit], pd_only: bool = False):
    """(tokens, info) for the Lean `imports` / `pyimp` models, or raise Unsupported.
    info: {"forms": import-form histogram, "defs": definition name -> qualified site (only meaningful when
    names are unique), "values": int constant -> qualified site, "mods": [qualified names]}"""
    import ast
    toks: List[str] = []
    forms: Dict[str, int] = {}
    defs: Dict[str, str] = {}
    values: Dict[int, str] = {}
    for u in units:
        toks.append("M|%s|%s" % (_enc(u.qname), "P" if u.is_package else "M"))
        _stmts(ast.parse(u.source).body, True, toks, forms, defs, values, u.qname, pd_only)
    return toks, {"forms": forms, "defs": defs, "values": values, "mods": [u.qname for u in units]}
