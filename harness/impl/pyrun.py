"""Run under CPython in a subprocess: import generated projects and dump what each namespace binds.
stdin: JSON list of projects {"files": {relpath: source}, "modules": [qualified names]}
stdout: JSON list of {"error": str | None, "scopes": {scope: {dotted: ident}}, "classes": {...}}"""
import importlib
import json
import os
import shutil
import sys
import tempfile
import types
import inspect


def ident(o):
    if isinstance(o, types.ModuleType):
        return ["module", o.__name__]
    if isinstance(o, (type, types.FunctionType)):
        d = o.__doc__
        if isinstance(d, str) and d.startswith("ID:"):
            return ["def", d]
        return ["other", getattr(o, "__qualname__", "?")]
    if isinstance(o, (classmethod, staticmethod)):
        return ident(o.__func__)
    if isinstance(o, property):
        return ident(o.fget) if o.fget else ["other", "property"]
    if isinstance(o, bool) or o is None:
        return ["value", repr(o)]
    if isinstance(o, (int, str)):
        return ["value", o]
    return ["other", type(o).__name__]


def site_ident(o):
    """identity by definition site (C04 `pyimp` stream): module name, or __module__.__qualname__ of a
    class / function, or the value of an int constant"""
    if isinstance(o, types.ModuleType):
        return "m:" + o.__name__
    if isinstance(o, (classmethod, staticmethod)):
        return site_ident(o.__func__)
    if isinstance(o, (type, types.FunctionType)):
        return "d:%s.%s" % (o.__module__, o.__qualname__)
    if isinstance(o, int) and not isinstance(o, bool):
        return "v:%d" % o
    return "o:" + type(o).__name__


def public(ns):
    return [(k, v) for k, v in ns.items() if not (k.startswith("__") and k.endswith("__"))]


def extend(scope_out, prefix, value, depth, seen):
    if depth > 2 or id(value) in seen:
        return
    if isinstance(value, (types.ModuleType, type)):
        for k, v in public(vars(value)):
            try:
                scope_out[prefix + "." + k] = ident(getattr(value, k))
            except Exception:
                continue
            extend(scope_out, prefix + "." + k, v, depth + 1, seen | {id(value)})


def extend_sites(scope_out, prefix, value, depth, seen):
    """like extend(), with definition-site identities, and for classes every name found along the MRO"""
    if depth > 2 or id(value) in seen:
        return
    if isinstance(value, types.ModuleType):
        names = [k for k, _ in public(vars(value))]
    elif isinstance(value, type):
        names = []
        for c in value.__mro__:
            if c is object:
                continue
            for k, _ in public(vars(c)):
                if k not in names:
                    names.append(k)
    else:
        return
    for k in names:
        try:
            v = inspect.getattr_static(value, k) if isinstance(value, type) else getattr(value, k)
        except Exception:
            continue
        scope_out[prefix + "." + k] = site_ident(v)
        extend_sites(scope_out, prefix + "." + k, v, depth + 1, seen | {id(value)})


def sites(mods):
    """per namespace (module, class defined there): own names and their dotted extensions -> site identity"""
    res = {}
    classes = []
    for q, m in mods.items():
        sc = res.setdefault(q, {})
        for k, v in public(vars(m)):
            sc[k] = site_ident(v)
            extend_sites(sc, k, v, 0, set())
            if isinstance(v, type) and v.__module__ == q and v.__qualname__ == k:
                classes.append((q + "." + k, v))
    while classes:
        sq, c = classes.pop()
        sc = res.setdefault(sq, {})
        for k, v in public(vars(c)):
            sc[k] = site_ident(v)
            extend_sites(sc, k, v, 0, set())
            if isinstance(v, type) and v.__qualname__ == c.__qualname__ + "." + k and v.__module__ == c.__module__:
                classes.append((sq + "." + k, v))
    return res


def run_project(p):
    tmp = tempfile.mkdtemp(prefix="pyrun")
    before = set(sys.modules)
    out = {"error": None, "scopes": {}, "kinds": {}}
    try:
        for rel, src in p["files"].items():
            path = os.path.join(tmp, rel)
            os.makedirs(os.path.dirname(path), exist_ok=True)
            with open(path, "w", encoding="utf-8") as f:
                f.write(src)
        sys.path.insert(0, tmp)
        importlib.invalidate_caches()
        mods = {}
        for q in p["modules"]:
            try:
                mods[q] = importlib.import_module(q)
            except BaseException as e:
                out["error"] = "%s importing %s: %s" % (type(e).__name__, q, e)
                return out
        classes = []
        for q, m in mods.items():
            sc = out["scopes"].setdefault(q, {})
            for k, v in public(vars(m)):
                sc[k] = ident(v)
                extend(sc, k, v, 0, set())
                if isinstance(v, type) and v.__module__ == q and v.__qualname__ == k:
                    classes.append((q + "." + k, v))
        while classes:
            sq, c = classes.pop()
            sc = out["scopes"].setdefault(sq, {})
            for k, v in public(vars(c)):
                try:
                    sc[k] = ident(getattr(c, k))
                except Exception:
                    continue
                extend(sc, k, v, 0, set())
                if isinstance(v, type) and v.__qualname__ == c.__qualname__ + "." + k:
                    classes.append((sq + "." + k, v))
        if p.get("details"):
            out["details"] = details(mods)
            out["module_docs"] = {q: (inspect.cleandoc(m.__doc__) if isinstance(m.__doc__, str) else None) for q, m in mods.items()}
        if p.get("sites"):
            out["sites"] = sites(mods)
    finally:
        if tmp in sys.path:
            sys.path.remove(tmp)
        for k in set(sys.modules) - before:
            del sys.modules[k]
        shutil.rmtree(tmp, ignore_errors=True)
    return out


def details(mods):
    """per namespace: name -> {kind, doc} as the interpreter sees it (C03)"""
    res = {}

    def kind_of(raw, owner_is_class):
        if isinstance(raw, classmethod):
            return "classmethod", raw.__func__
        if isinstance(raw, staticmethod):
            return "staticmethod", raw.__func__
        if isinstance(raw, property):
            return "property", raw.fget
        if isinstance(raw, type):
            return ("exception" if issubclass(raw, BaseException) else "class"), raw
        if isinstance(raw, types.FunctionType):
            return ("method" if owner_is_class else "function"), raw
        return "variable", raw

    def unwrap(o):
        """follow __func__ / fget down to the object the descriptors wrap (stacked descriptors)"""
        for _ in range(8):
            if isinstance(o, (classmethod, staticmethod)):
                o = o.__func__
            elif isinstance(o, property):
                o = o.fget
            else:
                break
        return o

    def names_of(xs):
        return sorted({type(x).__name__ for x in xs})

    def walk(scope, ns, owner_is_class, modname, qualprefix):
        out = res.setdefault(scope, {})
        for k, raw in public(ns):
            kind, target = kind_of(raw, owner_is_class)
            if kind == "variable":
                out[k] = {"kind": "variable", "type": type(raw).__name__,
                          "elem": names_of(raw) if isinstance(raw, (list, tuple, set, frozenset)) else None}
                if isinstance(raw, dict):
                    out[k]["keys"] = names_of(raw.keys())
                    out[k]["vals"] = names_of(raw.values())
                continue
            stacked = isinstance(target, (classmethod, staticmethod, property))
            if stacked:
                target = unwrap(target)
            if isinstance(target, (types.FunctionType, type)):
                defined_here = getattr(target, "__module__", None) == modname and \
                    getattr(target, "__qualname__", "") == qualprefix + k
                if isinstance(raw, (property, classmethod, staticmethod)) and getattr(target, "__module__", None) == modname:
                    # `x = property(getter)` / `make = staticmethod(_make)`: a descriptor object created in this namespace
                    # is a definition of this namespace whatever the name of the function it wraps
                    defined_here = True
            else:
                defined_here = False
            if not defined_here:
                out[k] = {"kind": "imported-or-alias"}
                continue
            doc = target.__doc__
            out[k] = {"kind": kind, "doc": inspect.cleandoc(doc) if isinstance(doc, str) else None,
                      "coroutine": inspect.iscoroutinefunction(target), "raw": type(raw).__name__,
                      "stacked": stacked}
            if isinstance(raw, type):
                walk(scope + "." + k, vars(raw), True, modname, qualprefix + k + ".")
    for q, m in mods.items():
        walk(q, vars(m), False, q, "")
    return res


def main():
    projects = json.load(sys.stdin)
    res = []
    for p in projects:
        try:
            res.append(run_project(p))
        except BaseException as e:   # never lose the batch
            res.append({"error": "runner: %s: %s" % (type(e).__name__, e), "scopes": {}})
    json.dump(res, sys.stdout)


if __name__ == "__main__":
    main()
