"""Child-process launcher for the C18 (determinism) check.

    python -m harness.impl.launch_shuffled MODE [--sidecar FILE] [--outdir DIR] [--srcroot DIR] [--clock SECONDS] [--pin SUFFIX,...] -- <pydoctor args>

Runs the real `pydoctor.driver.main(<pydoctor args>)` in this interpreter (whose hash seed the
parent fixed through PYTHONHASHSEED) after replacing the directory-listing primitives
(`os.listdir`, `os.scandir`, `pathlib.Path.iterdir`) by versions that return the same entries in
another order:

    asis            untouched
    sorted          sorted by name
    reverse         sorted by name, reversed
    shuffle:<seed>  sorted, then shuffled by random.Random(f"{seed}:{directory}")

--pin SUFFIX: directories whose path ends with SUFFIX are always listed sorted (used to attribute a listing-order
difference to one directory, e.g. pydoctor/extensions).

Every reordering is a function of the SET of entries, so applying it twice (Path.iterdir is built
on os.listdir in some Python versions and not in others) changes nothing.

--clock SECONDS moves the wall clock of this process: `datetime.datetime.now()/utcnow()/today()` answer the
fixed naive instant 1970-01-01 + SECONDS and `time.time()` is shifted accordingly (the `datetime.datetime` name
in the `datetime` module is rebound to a subclass before pydoctor is imported).  Two builds given different
clocks differ in wall-clock second without anybody sleeping, so any dependence of the output on the time of
the run shows at once.

Nothing in pydoctor is replaced.  For the correspondence streams the launcher only OBSERVES:
  * the listings it handed out under --srcroot,
  * the calls of System.analyzeModule / introspectModule (the traversal),
  * at driver.make: the enumeration `list(system.root_names)` of this interpreter, the project
    name, the url of every page object, the summary page classes,
  * through a `sys.addaudithook` hook: every open-for-writing / remove / symlink / mkdir / rename
    under --outdir (the operation log of the output directory).
They are written as JSON to --sidecar (outside the output tree).
"""
from __future__ import annotations

import json
import os
import pathlib
import random
import sys
from typing import Any, Dict, List, Optional


def _reorder(mode: str, where: str, names: List[Any], key=lambda x: x) -> List[Any]:
    if mode == "asis":
        return list(names)
    out = sorted(names, key=key)
    if mode == "sorted":
        return out
    if mode == "reverse":
        out.reverse()
        return out
    if mode.startswith("shuffle:"):
        random.Random(f"{mode[8:]}:{where}").shuffle(out)
        return out
    raise SystemExit(f"launch_shuffled: unknown mode {mode!r}")


class _ScandirWrapper:
    """what os.scandir returns: an iterator that is also a context manager with close()"""

    def __init__(self, entries: List[Any]) -> None:
        self._it = iter(entries)

    def __iter__(self) -> "_ScandirWrapper":
        return self

    def __next__(self) -> Any:
        return next(self._it)

    def __enter__(self) -> "_ScandirWrapper":
        return self

    def __exit__(self, *a: Any) -> None:
        self.close()

    def close(self) -> None:
        self._it = iter(())


PINNED: List[str] = []      # directories (path suffixes) whose listing is always handed out sorted (--pin)


def _mode_for(mode: str, where: Any) -> str:
    try:
        w = os.fspath(where)
        if isinstance(w, bytes):
            w = os.fsdecode(w)
        w = w.rstrip("/")
    except TypeError:
        return mode
    return "sorted" if any(w.endswith(sfx) for sfx in PINNED) else mode


def install(mode: str, record: Dict[str, Any], srcroot: Optional[str], outdir: Optional[str]) -> None:
    real_listdir = os.listdir
    real_scandir = os.scandir
    real_iterdir = pathlib.Path.iterdir
    listings: List[Any] = record.setdefault("listings", [])
    src = os.path.realpath(srcroot) if srcroot else None

    def note(where: Any, names: List[str]) -> None:
        if src is None:
            return
        try:
            w = os.path.realpath(os.fspath(where))
        except TypeError:
            return
        if w == src or w.startswith(src + os.sep):
            listings.append([os.path.relpath(w, src), list(names)])

    def listdir(path: Any = ".") -> List[Any]:
        names = real_listdir(path)
        if isinstance(path, int):
            return names
        out = _reorder(_mode_for(mode, path), os.fspath(path) if not isinstance(path, bytes) else path.decode("utf-8", "replace"), names)
        note(path, [n if isinstance(n, str) else os.fsdecode(n) for n in out])
        return out

    def scandir(path: Any = ".") -> Any:
        with real_scandir(path) as it:
            entries = list(it)
        if isinstance(path, int):
            return _ScandirWrapper(entries)
        out = _reorder(_mode_for(mode, path), os.fspath(path) if not isinstance(path, bytes) else path.decode("utf-8", "replace"),
                       entries, key=lambda e: e.name)
        note(path, [e.name if isinstance(e.name, str) else os.fsdecode(e.name) for e in out])
        return _ScandirWrapper(out)

    def iterdir(self: pathlib.Path) -> Any:
        children = list(real_iterdir(self))
        out = _reorder(_mode_for(mode, self), str(self), children, key=lambda p: p.name)
        note(self, [p.name for p in out])
        return iter(out)

    if mode != "asis" or src is not None:
        os.listdir = listdir            # type: ignore[assignment]
        os.scandir = scandir            # type: ignore[assignment]
        pathlib.Path.iterdir = iterdir  # type: ignore[assignment]

    # ---- operation log of the output directory
    ops: List[Any] = record.setdefault("fs_ops", [])
    out = os.path.realpath(outdir) if outdir else None

    def rel(p: Any) -> Optional[str]:
        if out is None or isinstance(p, int) or p is None:
            return None
        try:
            s = os.fspath(p)
        except TypeError:
            return None
        if isinstance(s, bytes):
            s = os.fsdecode(s)
        a = os.path.join(os.path.realpath(os.path.dirname(os.path.abspath(s))), os.path.basename(s))
        if a == out:
            return "."
        if a.startswith(out + os.sep):
            return os.path.relpath(a, out)
        return None

    WRITE_FLAGS = os.O_WRONLY | os.O_RDWR | os.O_CREAT | os.O_TRUNC | os.O_APPEND

    def hook(event: str, args: Any) -> None:
        try:
            if event == "open":
                path, mode_, flags = args[0], args[1], args[2]
                writing = (isinstance(mode_, str) and any(c in mode_ for c in "wax+")) or \
                          (mode_ is None and isinstance(flags, int) and flags & WRITE_FLAGS)
                if writing:
                    r = rel(path)
                    if r is not None:
                        ops.append(["W", r])
            elif event == "os.remove":
                r = rel(args[0])
                if r is not None:
                    ops.append(["U", r])
            elif event == "os.symlink":
                r = rel(args[1])
                if r is not None:
                    ops.append(["S", r, os.fspath(args[0])])
            elif event == "os.mkdir":
                r = rel(args[0])
                if r is not None:
                    ops.append(["D", r])
            elif event in ("os.rename", "os.rmdir", "os.link", "os.truncate", "shutil.rmtree", "shutil.move",
                           "shutil.copyfile", "shutil.copytree", "os.chmod", "os.utime"):
                rs = [rel(a) for a in args[:2]]
                if any(r is not None for r in rs):
                    ops.append(["X", event, [r for r in rs if r is not None]])
        except Exception as e:       # an audit hook must never break the run it observes
            ops.append(["E", repr(e)])

    if out is not None:
        sys.addaudithook(hook)


def install_clock(fake: int, record: Dict[str, Any]) -> None:
    import datetime as _dt
    import time as _time
    real = _dt.datetime
    base = real(1970, 1, 1) + _dt.timedelta(seconds=fake)

    class datetime(real):  # noqa: N801 - it takes the place of datetime.datetime
        @classmethod
        def now(cls, tz: Any = None) -> Any:
            if tz is None:
                return cls(base.year, base.month, base.day, base.hour, base.minute, base.second)
            return cls.fromtimestamp(fake, tz)

        @classmethod
        def utcnow(cls) -> Any:
            return cls(base.year, base.month, base.day, base.hour, base.minute, base.second)

        @classmethod
        def today(cls) -> Any:
            return cls.now()

    datetime.__qualname__ = "datetime"
    datetime.__module__ = "datetime"
    _dt.datetime = datetime  # type: ignore[misc]
    real_time = _time.time
    offset = fake - real_time()
    _time.time = lambda: real_time() + offset  # type: ignore[assignment]
    # the no-argument forms of the struct_time functions read the C clock themselves (docutils' `date` directive calls
    # time.strftime(format)): give them the moved clock too
    real_localtime, real_gmtime, real_strftime, real_ctime, real_asctime = (
        _time.localtime, _time.gmtime, _time.strftime, _time.ctime, _time.asctime)
    _time.localtime = lambda secs=None: real_localtime(_time.time() if secs is None else secs)   # type: ignore[assignment]
    _time.gmtime = lambda secs=None: real_gmtime(_time.time() if secs is None else secs)         # type: ignore[assignment]
    _time.strftime = lambda fmt, t=None: real_strftime(fmt, _time.localtime() if t is None else t)  # type: ignore[assignment]
    _time.ctime = lambda secs=None: real_ctime(_time.time() if secs is None else secs)           # type: ignore[assignment]
    _time.asctime = lambda t=None: real_asctime(_time.localtime() if t is None else t)           # type: ignore[assignment]
    record["clock"] = fake


def observe_pydoctor(record: Dict[str, Any]) -> None:
    """wrap (never replace the behaviour of) three entry points to record facts"""
    from pydoctor import driver, model
    from pydoctor.templatewriter import summary

    trav: List[Any] = record.setdefault("traversal", [])
    real_analyze = model.System.analyzeModule
    real_introspect = model.System.introspectModule

    def analyzeModule(self: Any, modpath: Any, modname: str, parentPackage: Any = None, is_package: bool = False) -> Any:
        parent = parentPackage.fullName().split(".") if parentPackage is not None else []
        trav.append(["P" if is_package else "M", parent + [modname]])
        return real_analyze(self, modpath, modname, parentPackage, is_package)

    def introspectModule(self: Any, path: Any, module_name: str, package: Any) -> Any:
        parent = package.fullName().split(".") if package is not None else []
        trav.append(["C", parent + [module_name]])
        return real_introspect(self, path, module_name, package)

    model.System.analyzeModule = analyzeModule          # type: ignore[assignment]
    model.System.introspectModule = introspectModule    # type: ignore[assignment]

    real_make = driver.make

    def make(system: Any) -> None:
        try:
            record["root_enum"] = list(system.root_names)
            record["rootobjects"] = [o.name for o in system.rootobjects]
            record["projectname"] = system.projectname
            record["explicit"] = system.options.projectname
            record["buildtime"] = system.buildtime.isoformat()
            import datetime as _dt
            record["buildtime_seconds"] = int((system.buildtime - _dt.datetime(1970, 1, 1)).total_seconds())
            record["summary_pages"] = [p.__name__ for p in summary.summaryPages(system)]
            from pydoctor.templatewriter import search as _search
            record["page_files"] = [p.filename for p in list(summary.summaryPages(system)) + list(_search.searchpages)]
            record["any_root_visible"] = any(o.isVisible for o in system.rootobjects)
            record["extensions"] = list(system.extensions)
            urls = {}
            for o in system.allobjects.values():
                if o.documentation_location is model.DocLocation.OWN_PAGE:
                    urls[o.fullName()] = o.url
            record["page_urls"] = urls
            record["unknown_root"] = {p: (p not in system.root_names)
                                      for p in ["os", "pkg", "lib", "app", "mod", "util", "zz", "index"]}
        except Exception as e:
            record["observe_error"] = repr(e)
        return real_make(system)

    driver.make = make  # type: ignore[assignment]


def main(argv: List[str]) -> int:
    if "--" not in argv or not argv:
        print(__doc__)
        return 2
    i = argv.index("--")
    mine, args = argv[:i], argv[i + 1:]
    mode = mine[0]
    opts = dict(zip(mine[1::2], mine[2::2]))
    sidecar = opts.get("--sidecar")
    record: Dict[str, Any] = {"mode": mode, "hashseed": os.environ.get("PYTHONHASHSEED"),
                              "hash_of_a": hash("a")}
    if opts.get("--pin"):
        PINNED.extend(x.rstrip("/") for x in opts["--pin"].split(",") if x)
    if opts.get("--clock") is not None:
        install_clock(int(opts["--clock"]), record)
    install(mode, record, opts.get("--srcroot"), opts.get("--outdir"))
    code: Any = 1
    try:
        if sidecar:
            observe_pydoctor(record)
        from pydoctor.driver import main as pydoctor_main
        code = pydoctor_main(args)
    except SystemExit as e:
        code = e.code
    finally:
        record["exit"] = code if isinstance(code, int) or code is None else str(code)
        if sidecar:
            # the audit hook is still active: the sidecar lives outside --outdir, so it is not logged
            with open(sidecar, "w") as f:
                json.dump(record, f)
    return code if isinstance(code, int) else (0 if code is None else 1)


if __name__ == "__main__":
    sys.exit(main(sys.argv[1:]))
