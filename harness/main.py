"""./check Cxx {quick|thorough}   |   ./check Cxx --replay FILE"""
from __future__ import annotations

import importlib
import json
import re
import os
import sys
import time
import traceback
from pathlib import Path

from . import core
from .core import Ctx, Infra, VERIF, OUT


def write_evidence(ctx: Ctx, mod, thms, forbidden, build_log_tail, violations: int) -> None:
    required = list(getattr(mod, "THEOREMS", []))
    main_thms = {k: v for k, v in thms.items() if not core.is_aux(k)}
    discharged = sum(1 for k, v in main_thms.items() if set(v) <= core.ALLOWED_AXIOMS)
    cov = {
        "obligations": max(len(main_thms), len(required), 1),
        "discharged": discharged if not forbidden else 0,
        "checker_cmd": f"cd lean && lake build PdProps.{ctx.prop} driver && lake env lean out/audit/Audit{ctx.prop}.lean  (#print-axioms audit of every theorem of PdProps.{ctx.prop}; grep for sorry/admit/axiom/native_decide/bv_decide)"
                       + ("; lake env leanchecker PdProps." + ctx.prop if ctx.tier == "thorough" else ""),
        "trusted_base": core.TRUSTED_BASE + list(getattr(mod, "TRUSTED", [])),
        "theorems": {k: v for k, v in sorted(main_thms.items())},
        "required_theorems": required,
        "missing_theorems": [t for t in required if t not in thms],
        "partial_theorems": getattr(mod, "PARTIAL", {}),
        "evaluations": ctx.evaluations,
        "distinct_nontrivial": len(ctx.nontrivial),
        "rule": ctx.rule or getattr(mod, "RULE", ""),
        "samples": ctx.samples[:6] if ctx.samples else ["(no case generated: proof obligations broke before the correspondence ran)"],
        "traces_validated_against_impl": ctx.traces_validated,
        "exhaustive": bool(ctx.exhaustive),
        "distribution": dict(sorted(ctx.dist.items())),
        "broken": ctx.broken,
        "disagreements": ctx.disagreements[:10],
        "oracle_failures": [{k: f[k] for k in ("signature", "what", "count")} for f in ctx.failures],
        "model_lines_run": ctx.driver.lines_run,
        "explanation": getattr(mod, "EXPLANATION", ""),
    }
    cov.update(ctx.extra)
    ev = {
        "property_id": ctx.prop,
        "tier": ctx.tier,
        "seed": ctx.seed,
        "level": "proof",
        "coverage": cov,
        "assumptions": list(getattr(mod, "ASSUMPTIONS", [])) + ctx.notes,
        "wall_s": round(ctx.elapsed(), 2),
        "violations": violations,
    }
    # runs against a scratch worktree (seeded mutants) must not overwrite the evidence of /repo
    evdir = VERIF / "evidence" if str(core.REPO) == "/repo" else OUT / "evidence-scratch"
    evdir.mkdir(parents=True, exist_ok=True)
    (evdir / f"{ctx.prop}.json").write_text(json.dumps(ev, indent=1, ensure_ascii=True, default=str) + "\n")


def write_replay(ctx: Ctx, name: str, obj) -> Path:
    d = OUT / "replay"
    d.mkdir(parents=True, exist_ok=True)
    p = d / f"{ctx.prop}-{ctx.tier}-{ctx.seed}-{name}.json"
    p.write_text(json.dumps(obj, indent=1, ensure_ascii=True, default=str) + "\n")
    return p


def main(argv) -> int:
    if len(argv) < 2:
        print(__doc__)
        return 2
    prop = argv[0].upper()
    mod = importlib.import_module(f"harness.props.{prop.lower()}")
    if argv[1] == "--replay":
        obj = json.loads(Path(argv[2]).read_text())
        ctx = Ctx(prop, "quick", 0)
        return mod.replay(ctx, obj) if hasattr(mod, "replay") else _generic_replay(obj)
    tier = os.environ.get("VERIF_TIER") or argv[1]
    if tier not in ("quick", "thorough"):
        print("tier must be quick or thorough")
        return 2
    seed = int(os.environ.get("VERIF_SEED", "0") or 0)
    ctx = Ctx(prop, tier, seed)
    thms, forbidden, log = {}, [], ""
    try:
        # 1. generated tables (data read from the live /repo modules)
        if getattr(mod, "USES_TABLES", False):
            from . import tables
            try:
                tables.generate()
            except Exception as e:  # extraction failed: attribute moved etc.
                ctx.broken.append(f"table-extraction: {type(e).__name__}: {e}")
        # 2. build model driver and the property's proofs. A build error in a Lean file this property
        #    does not depend on (someone else's half-written file) is infrastructure, not a broken obligation.
        own = set(core.import_closure(prop))

        def build(target):
            for attempt in range(4):
                rc, out = core.lake(["build", target])
                if rc == 0:
                    return rc, out, False
                files = set(re.findall(r"error: ((?:PdModel|PdProps|Generated)/\w+\.lean|Driver\.lean|PdModel\.lean|PdProps\.lean)", out))
                # an error is this property's only when it names one of the files the property depends on; anything else
                # (another property's half-written file, a transient "no such file" / link error while another build
                # rewrites .lake) is retried and, if it persists, reported as infrastructure (exit 2), never as a violation
                mine = {f for f in files if f in own or f == "Driver.lean" or f.replace("IO.lean", ".lean") in own}
                if mine:
                    return rc, out, False
                time.sleep(15)
            return rc, out, True
        rc, log, foreign = build("driver")
        if rc != 0 and foreign:
            raise Infra("lake build driver fails in files this property does not depend on: " + log[-300:])
        if rc != 0:
            ctx.model_ok = False
            ctx.broken.append("lake build driver (model does not compile)")
        else:
            ctx.driver.binary = core.snapshot_driver()
        rc, log2, foreign = build(f"PdProps.{prop}")
        log += log2
        if rc != 0 and foreign:
            raise Infra("lake build fails in files this property does not depend on: " + log2[-300:])
        if rc != 0:
            errs = [l for l in log2.splitlines() if l.startswith("error")][:5]
            ctx.broken.append(f"lake build PdProps.{prop}: " + " | ".join(errs))
        else:
            # 3. audit
            thms, alog = core.audit(prop)
            if not thms:
                ctx.broken.append("axiom audit produced nothing: " + alog[-300:])
            for t, axs in thms.items():
                extra = set(axs) - core.ALLOWED_AXIOMS
                if extra:
                    ctx.broken.append(f"theorem {t} depends on {sorted(extra)}")
            for t in getattr(mod, "THEOREMS", []):
                if t not in thms:
                    ctx.broken.append(f"theorem {t} missing from PdProps.{prop}")
            forbidden = core.grep_forbidden(prop)
            for h in forbidden:
                ctx.broken.append("forbidden token " + h)
            if tier == "thorough" and not ctx.broken:
                rc, out = core.lake(["env", "leanchecker", f"PdProps.{prop}"], timeout=3000)
                ctx.extra["leanchecker"] = "ok" if rc == 0 else out[-300:]
                if rc != 0:
                    ctx.broken.append("leanchecker rejected PdProps." + prop)
        # 4./5. correspondence + direct oracle (pydoctor's own chatter on stdout is dropped)
        import contextlib, io
        with contextlib.redirect_stdout(io.StringIO()):
            mod.run(ctx)
    except Infra as e:
        _restore_tables(mod)
        print(f"INFRA {prop}: {e}", file=sys.stderr)
        return 2
    except (MemoryError, OSError) as e:
        _restore_tables(mod)
        traceback.print_exc()
        print(f"INFRA {prop}: {type(e).__name__}", file=sys.stderr)
        return 2
    except Exception as e:
        # The harness could not observe the implementation the way it does on the unchanged tree (an internal
        # representation it reads has changed, an adapter call fails, ...): that is a broken correspondence, not
        # an infrastructure problem - whatever the direct oracle found before the exception still counts.
        tb = traceback.extract_tb(e.__traceback__)
        where = next((f"{f.filename.rsplit('/', 1)[-1]}:{f.lineno}" for f in reversed(tb) if "/harness/" in f.filename), "?")
        traceback.print_exc()
        ctx.broken.append(f"correspondence harness failed at {where}: {type(e).__name__}: {str(e)[:200]}")

    _restore_tables(mod)
    known = core.load_known().get(prop, [])
    known_sigs = {k["signature"]: k for k in known if k.get("status", "open") == "open"}
    new = [f for f in ctx.failures if f["signature"] not in known_sigs]
    seen_known = [f for f in ctx.failures if f["signature"] in known_sigs]
    for f in seen_known:
        print(f"KNOWN-FINDING: property={prop} {known_sigs[f['signature']]['what']} [{f['signature']}]")
    status = 0
    nviol = 0
    if new:
        for i, f in enumerate(new[:5]):
            p = write_replay(ctx, f"fail{i}", {"kind": "oracle-failure", "property": prop, **f})
            print(f"VIOLATION property={prop} replay={p}")
        nviol = len(new)
        status = 1
    elif ctx.broken or ctx.disagreements:
        p = write_replay(ctx, "broken", {
            "kind": "broken-obligation", "property": prop,
            "broken": ctx.broken, "disagreements": ctx.disagreements[:10],
            "note": "the proof obligation / correspondence named here no longer checks; the failing-input "
                    "search (the property's direct oracle over this run's inputs and bounded enumeration) found no input "
                    "on which the property itself fails"})
        print(f"VIOLATION property={prop} replay={p} no-failing-input-found")
        nviol = 1
        status = 1
    write_evidence(ctx, mod, thms, forbidden, log[-2000:], nviol)
    if ctx.driver.binary is not None:
        try:
            ctx.driver.binary.unlink()
        except OSError:
            pass
    print(f"{prop} {tier} seed={seed}: theorems={len([t for t in thms if not core.is_aux(t)])} "
          f"evaluations={ctx.evaluations} nontrivial={len(ctx.nontrivial)} corr={ctx.traces_validated} "
          f"disagree={len(ctx.disagreements)} oracle_fail={len(ctx.failures)} known={len(seen_known)} "
          f"broken={len(ctx.broken)} wall={ctx.elapsed():.1f}s -> exit {status}")
    return status


def _restore_tables(mod) -> None:
    """a run against a scratch worktree (seeded mutant) regenerated Generated/Tables.lean from that tree:
    put the tables of /repo back so that later runs of other properties are not disturbed"""
    if getattr(mod, "USES_TABLES", False) and str(core.REPO) != "/repo":
        import subprocess
        env = dict(os.environ, PYDOCTOR_REPO="/repo", PYTHONPATH=f"/repo:{VERIF}")
        subprocess.run(["/venv/bin/python", "-c", "from harness import tables; tables.generate()"], cwd=str(VERIF), env=env,
                       stdout=subprocess.DEVNULL, stderr=subprocess.DEVNULL)


def _generic_replay(obj) -> int:
    print(json.dumps(obj, indent=1))
    return 0


if __name__ == "__main__":
    sys.exit(main(sys.argv[1:]))
