"""Static scan of pydoctor's sources for places that consume a set (or a raw directory listing).

This is a HEURISTIC, syntactic, flow-insensitive scan; it is the tie between the site catalogue of
the `Determinism` model (harness/c18_sites.json) and the code.  It finds

  set-typed expressions
    * set displays, set comprehensions, `set(...)` / `frozenset(...)` calls,
    * names / parameters / attributes annotated `Set[..]`, `FrozenSet[..]`, `MutableSet[..]`,
      `AbstractSet[..]`, `set[..]`, `frozenset[..]` (anywhere in the scanned tree; attributes are
      matched by attribute NAME only), or assigned a set-typed expression,
    * subscripts / `.get()` / `.values()` elements of names annotated `Dict[.., Set[..]]`,
    * properties and functions whose return annotation is a set type or whose every `return`
      returns a set display / comprehension / `set()` call or a local name bound to one (e.g. `System.root_names`, which is
      annotated `Collection[str]`); matched by NAME at attribute accesses and calls,
    * `|  &  -  ^` and `.union/.intersection/.difference/.symmetric_difference/.copy` of those, and `|  &  -  ^`
      applied to a dict view (`d.keys() - other`: a set; a view that is merely iterated is insertion ordered and
      is NOT a site),
  unordered listings
    * `.iterdir()`, `.glob()`, `.rglob()`, `os.listdir()`, `os.scandir()`, `os.walk()`,

and classifies every syntactic USE of such an expression:

  membership        right operand of `in` / `not in`
  sorted            argument of `sorted(...)` (directly, or through a generator/list comprehension)
  order-free:<f>    len, bool, any, all, set, frozenset, min, max, sum, ==/!=/<=.., set methods
                    (add, update, discard, ...), comprehension that builds a set
  iterate:<how>     for, comp (list/dict/generator comprehension not consumed by one of the
                    above), list, tuple, iter, next, enumerate, zip, map, filter, join, extend,
                    star, unpack, yieldfrom, format, str, repr, pop, reversed, fromkeys
  escape:<how>      returned, passed to another callable, stored: the scan does NOT follow it

Nothing here proves absence: values that reach an `Iterable[...]` parameter, sets built by third
party code, `dict`s keyed by identity-hashed objects (insertion ordered, so harmless) and dynamic
attribute access are outside the scan.  The byte comparison of whole output trees (direct oracle
of C18) is what speaks for those.
"""
from __future__ import annotations

import ast
from pathlib import Path
from typing import Dict, Iterator, List, Optional, Set, Tuple

SET_TYPE_NAMES = {"Set", "FrozenSet", "MutableSet", "AbstractSet", "set", "frozenset"}
SET_CTORS = {"set", "frozenset"}
SET_RETURNING_METHODS = {"union", "intersection", "difference", "symmetric_difference", "copy"}
SET_MUTATORS = {"add", "update", "discard", "remove", "clear", "difference_update", "intersection_update",
                "symmetric_difference_update", "issubset", "issuperset", "isdisjoint"}
LISTING_METHODS = {"iterdir", "glob", "rglob"}
LISTING_FUNCS = {"listdir", "scandir", "walk"}
ORDER_FREE_CALLS = {"len", "bool", "any", "all", "set", "frozenset", "min", "max", "sum"}
ITER_CALLS = {"list", "tuple", "iter", "next", "enumerate", "zip", "map", "filter", "str", "repr", "reversed"}


def _ann_is_set(ann: Optional[ast.expr]) -> bool:
    """annotation denotes a set type (outermost constructor, Optional[...] looked through)"""
    if ann is None:
        return False
    if isinstance(ann, ast.Constant) and isinstance(ann.value, str):
        try:
            return _ann_is_set(ast.parse(ann.value, mode="eval").body)
        except SyntaxError:
            return False
    if isinstance(ann, ast.Subscript):
        head = _dotted_last(ann.value)
        if head in SET_TYPE_NAMES:
            return True
        if head in ("Optional", "Final", "ClassVar"):
            return _ann_is_set(ann.slice)
        return False
    return _dotted_last(ann) in SET_TYPE_NAMES


def _ann_values_are_sets(ann: Optional[ast.expr]) -> bool:
    """annotation is a mapping whose VALUES are sets: Dict[K, Set[V]], DefaultDict[...], Mapping[...]"""
    if isinstance(ann, ast.Constant) and isinstance(ann.value, str):
        try:
            return _ann_values_are_sets(ast.parse(ann.value, mode="eval").body)
        except SyntaxError:
            return False
    if isinstance(ann, ast.Subscript) and _dotted_last(ann.value) in (
            "Dict", "dict", "DefaultDict", "defaultdict", "Mapping", "MutableMapping", "OrderedDict"):
        sl = ann.slice
        if isinstance(sl, ast.Tuple) and len(sl.elts) == 2:
            return _ann_is_set(sl.elts[1])
    return False


def _dotted_last(e: ast.expr) -> Optional[str]:
    if isinstance(e, ast.Name):
        return e.id
    if isinstance(e, ast.Attribute):
        return e.attr
    return None


def _is_set_literal(e: ast.expr) -> bool:
    if isinstance(e, (ast.Set, ast.SetComp)):
        return True
    if isinstance(e, ast.Call) and isinstance(e.func, ast.Name) and e.func.id in SET_CTORS:
        return True
    return False


class Index:
    """names that denote sets anywhere in the scanned tree (matched by NAME, a heuristic)"""

    def __init__(self) -> None:
        self.attrs: Set[str] = set()          # obj.<attr> is a set
        self.dictattrs: Set[str] = set()      # obj.<attr>[k] is a set
        self.funcs: Set[str] = set()          # f(...) / obj.f(...) / property obj.f is a set
        self.module_names: Dict[str, Set[str]] = {}   # per file: module-level names bound to sets


def _returns_set(fn: ast.AST) -> bool:
    if _ann_is_set(getattr(fn, "returns", None)):
        return True
    own = list(_walk_own(fn))
    local_sets = set()
    for n in own:
        if isinstance(n, ast.Assign) and _is_set_literal(n.value):
            local_sets.update(t.id for t in n.targets if isinstance(t, ast.Name))
        elif isinstance(n, ast.AnnAssign) and isinstance(n.target, ast.Name) and (
                _ann_is_set(n.annotation) or (n.value is not None and _is_set_literal(n.value))):
            local_sets.add(n.target.id)
    rets = [n for n in own if isinstance(n, ast.Return)]
    return bool(rets) and all(r.value is not None and (
        _is_set_literal(r.value) or (isinstance(r.value, ast.Name) and r.value.id in local_sets)) for r in rets)


def _walk_own(fn: ast.AST) -> Iterator[ast.AST]:
    """nodes of a function body, not descending into nested function / class definitions"""
    stack = list(ast.iter_child_nodes(fn))
    while stack:
        n = stack.pop()
        yield n
        if isinstance(n, (ast.FunctionDef, ast.AsyncFunctionDef, ast.ClassDef, ast.Lambda)):
            continue
        stack.extend(ast.iter_child_nodes(n))


def build_index(trees: Dict[str, ast.Module]) -> Index:
    idx = Index()
    for rel, tree in trees.items():
        mod_names: Set[str] = set()
        for node in ast.walk(tree):
            if isinstance(node, (ast.FunctionDef, ast.AsyncFunctionDef)):
                if _returns_set(node):
                    idx.funcs.add(node.name)
            elif isinstance(node, ast.AnnAssign):
                tgt = node.target
                isset = _ann_is_set(node.annotation) or (node.value is not None and _is_set_literal(node.value))
                isdict = _ann_values_are_sets(node.annotation)
                if isinstance(tgt, ast.Attribute):
                    if isset:
                        idx.attrs.add(tgt.attr)
                    if isdict:
                        idx.dictattrs.add(tgt.attr)
                elif isinstance(tgt, ast.Name):
                    # class-level annotated attribute (attrs / dataclass field) or a variable
                    if isset:
                        idx.attrs.add(tgt.id)
                    if isdict:
                        idx.dictattrs.add(tgt.id)
            elif isinstance(node, ast.Assign):
                if _is_set_literal(node.value):
                    for tgt in node.targets:
                        if isinstance(tgt, ast.Attribute):
                            idx.attrs.add(tgt.attr)
        for node in tree.body:
            if isinstance(node, ast.Assign) and _is_set_literal(node.value):
                for tgt in node.targets:
                    if isinstance(tgt, ast.Name):
                        mod_names.add(tgt.id)
            elif isinstance(node, ast.AnnAssign) and isinstance(node.target, ast.Name) and (
                    _ann_is_set(node.annotation) or (node.value is not None and _is_set_literal(node.value))):
                mod_names.add(node.target.id)
        idx.module_names[rel] = mod_names
    return idx


class _Scope:
    def __init__(self, qualname: str, sets: Set[str], dicts: Set[str]) -> None:
        self.qualname = qualname
        self.sets = sets
        self.dicts = dicts


class Scanner(ast.NodeVisitor):
    def __init__(self, rel: str, tree: ast.Module, idx: Index) -> None:
        self.rel = rel
        self.idx = idx
        self.sites: List[Dict[str, str]] = []
        self.parents: Dict[int, ast.AST] = {}
        for p in ast.walk(tree):
            for c in ast.iter_child_nodes(p):
                self.parents[id(c)] = p
        self.scopes: List[_Scope] = [_Scope("<module>", set(idx.module_names.get(rel, ())), set())]
        self.names: List[str] = []
        self.tree = tree

    # ---- typing heuristic
    def is_listing(self, e: ast.expr) -> bool:
        if isinstance(e, ast.Call):
            if isinstance(e.func, ast.Attribute) and e.func.attr in LISTING_METHODS:
                return True
            if _dotted_last(e.func) in LISTING_FUNCS:
                return True
        return False

    def is_set(self, e: ast.expr) -> bool:
        if _is_set_literal(e):
            return True
        if isinstance(e, ast.Name):
            return any(e.id in s.sets for s in self.scopes[-1:]) or e.id in self.scopes[0].sets
        if isinstance(e, ast.Attribute):
            return e.attr in self.idx.attrs or e.attr in self.idx.funcs
        if isinstance(e, ast.Subscript):
            return self.is_setdict(e.value)
        if isinstance(e, ast.Call):
            f = e.func
            if isinstance(f, ast.Name) and f.id in self.idx.funcs:
                return True
            if isinstance(f, ast.Attribute):
                if f.attr in self.idx.funcs:
                    return True
                if f.attr in SET_RETURNING_METHODS and self.is_set(f.value):
                    return True
                if f.attr in ("get", "setdefault", "pop") and self.is_setdict(f.value):
                    return True
            return False
        if isinstance(e, ast.BinOp) and isinstance(e.op, (ast.BitOr, ast.BitAnd, ast.Sub, ast.BitXor)):
            # set algebra; also on dict views: `d.keys() - other` / `d.items() & other` build a SET
            return self.is_set(e.left) or self.is_set(e.right) or self.is_view(e.left) or self.is_view(e.right)
        if isinstance(e, ast.IfExp):
            return self.is_set(e.body) or self.is_set(e.orelse)
        if isinstance(e, ast.BoolOp):
            return any(self.is_set(v) for v in e.values)
        if isinstance(e, ast.NamedExpr):
            return self.is_set(e.value)
        return False

    @staticmethod
    def is_view(e: ast.expr) -> bool:
        """`x.keys()` / `x.items()`: ordered when iterated, but a set as soon as `- & | ^` is applied"""
        return isinstance(e, ast.Call) and isinstance(e.func, ast.Attribute) and e.func.attr in ("keys", "items") and not e.args

    def is_setdict(self, e: ast.expr) -> bool:
        if isinstance(e, ast.Name):
            return e.id in self.scopes[-1].dicts
        if isinstance(e, ast.Attribute):
            return e.attr in self.idx.dictattrs
        return False

    # ---- scopes
    def _enter(self, node: ast.AST, name: str) -> None:
        sets: Set[str] = set()
        dicts: Set[str] = set()
        if isinstance(node, (ast.FunctionDef, ast.AsyncFunctionDef)):
            a = node.args
            for arg in a.posonlyargs + a.args + a.kwonlyargs + [x for x in (a.vararg, a.kwarg) if x]:
                if _ann_is_set(arg.annotation):
                    sets.add(arg.arg)
                if _ann_values_are_sets(arg.annotation):
                    dicts.add(arg.arg)
        self.names.append(name)
        self.scopes.append(_Scope(".".join(self.names), sets, dicts))
        if isinstance(node, (ast.FunctionDef, ast.AsyncFunctionDef)):
            # flow-insensitive: two passes so that `b = a` after `a = set()` in any order is seen
            for _ in range(2):
                for n in _walk_own(node):
                    self._bind(n)

    def _bind(self, n: ast.AST) -> None:
        sc = self.scopes[-1]
        if isinstance(n, ast.AnnAssign) and isinstance(n.target, ast.Name):
            if _ann_is_set(n.annotation) or (n.value is not None and self.is_set(n.value)):
                sc.sets.add(n.target.id)
            if _ann_values_are_sets(n.annotation):
                sc.dicts.add(n.target.id)
        elif isinstance(n, ast.Assign) and self.is_set(n.value):
            for t in n.targets:
                if isinstance(t, ast.Name):
                    sc.sets.add(t.id)
        elif isinstance(n, ast.NamedExpr) and isinstance(n.target, ast.Name) and self.is_set(n.value):
            sc.sets.add(n.target.id)
        elif isinstance(n, (ast.For, ast.comprehension)) and isinstance(n.target, ast.Name):
            it = n.iter
            if isinstance(it, ast.Call) and isinstance(it.func, ast.Attribute) and it.func.attr == "values" \
                    and self.is_setdict(it.func.value):
                sc.sets.add(n.target.id)

    def visit_FunctionDef(self, node: ast.FunctionDef) -> None:
        for d in node.decorator_list:
            self.visit(d)
        self._enter(node, node.name)
        for ch in node.body:
            self.visit(ch)
        self.scopes.pop()
        self.names.pop()

    visit_AsyncFunctionDef = visit_FunctionDef  # type: ignore

    def visit_ClassDef(self, node: ast.ClassDef) -> None:
        self._enter(node, node.name)
        for ch in node.body:
            self.visit(ch)
        self.scopes.pop()
        self.names.pop()

    # ---- uses
    def generic_visit(self, node: ast.AST) -> None:
        if isinstance(node, ast.expr):
            src = "listing" if self.is_listing(node) else ("set" if self.is_set(node) else None)
            if src:
                kind = self.classify(node)
                if kind:
                    self.sites.append({
                        "file": self.rel,
                        "function": self.scopes[-1].qualname,
                        "expression": ast.unparse(node),
                        "source": src,
                        "kind": kind,
                        "line": str(getattr(node, "lineno", 0)),
                    })
        super().generic_visit(node)

    def _consumer_of_comp(self, comp: ast.AST) -> str:
        """how the value of a comprehension is consumed"""
        if isinstance(comp, ast.SetComp):
            return "order-free:comp->set"
        if isinstance(comp, ast.DictComp):
            return "iterate:comp->dict"
        par = self.parents.get(id(comp))
        if isinstance(par, ast.Call) and comp in par.args:
            f = par.func
            if isinstance(f, ast.Name):
                if f.id == "sorted":
                    return "sorted"
                if f.id in ORDER_FREE_CALLS:
                    return "order-free:comp->" + f.id
            if isinstance(f, ast.Attribute) and f.attr == "join":
                return "iterate:comp->join"
        return "iterate:comp"

    def classify(self, node: ast.expr) -> Optional[str]:
        par = self.parents.get(id(node))
        if par is None:
            return None
        if isinstance(par, (ast.For, ast.AsyncFor)) and par.iter is node:
            return "iterate:for"
        if isinstance(par, ast.comprehension) and par.iter is node:
            return self._consumer_of_comp(self.parents[id(par)])
        if isinstance(par, ast.Call):
            f = par.func
            if node in par.args or any(k.value is node for k in par.keywords):
                if isinstance(f, ast.Name):
                    if f.id == "sorted":
                        return "sorted"
                    if f.id in ORDER_FREE_CALLS:
                        # set(x)/frozenset(x)/len(x) of a set: the result is again order free; classify the
                        # outer expression separately (it is a set-typed expression itself when set()).
                        return "order-free:" + f.id
                    if f.id in ITER_CALLS:
                        return "iterate:" + f.id
                    return "escape:arg:" + f.id
                if isinstance(f, ast.Attribute):
                    if f.attr == "join":
                        return "iterate:join"
                    if f.attr in ("extend", "fromkeys", "chain", "from_iterable"):
                        return "iterate:" + f.attr
                    if f.attr in SET_MUTATORS or f.attr in SET_RETURNING_METHODS:
                        return "order-free:" + f.attr
                    return "escape:arg:" + f.attr
                return "escape:arg"
            return None
        if isinstance(par, ast.Attribute) and par.value is node:
            gp = self.parents.get(id(par))
            if isinstance(gp, ast.Call) and gp.func is par:
                if par.attr == "pop" and not gp.args:
                    return "iterate:pop"
                if par.attr in SET_MUTATORS or par.attr in SET_RETURNING_METHODS:
                    return "order-free:" + par.attr
                if par.attr in ("get", "setdefault", "values", "items", "keys"):
                    return None
            return None
        if isinstance(par, ast.Compare):
            if node in par.comparators:
                i = par.comparators.index(node)
                if isinstance(par.ops[i], (ast.In, ast.NotIn)):
                    return "membership"
            return "order-free:compare"
        if isinstance(par, ast.Starred):
            return "iterate:star"
        if isinstance(par, ast.YieldFrom):
            return "iterate:yieldfrom"
        if isinstance(par, ast.FormattedValue):
            return "iterate:format"
        if isinstance(par, ast.Assign) and par.value is node:
            if any(isinstance(t, (ast.Tuple, ast.List)) for t in par.targets):
                return "iterate:unpack"
            return None      # plain binding: the name is tracked instead
        if isinstance(par, ast.AnnAssign):
            return None
        if isinstance(par, ast.Return):
            return "escape:return"
        if isinstance(par, (ast.BinOp, ast.BoolOp, ast.IfExp, ast.NamedExpr)):
            return None      # the enclosing expression is set-typed itself and is classified there
        if isinstance(par, (ast.If, ast.While, ast.UnaryOp, ast.Assert)):
            return "order-free:bool"
        if isinstance(par, (ast.Tuple, ast.List, ast.Dict, ast.Set, ast.keyword, ast.Yield, ast.Lambda)):
            return "escape:stored"
        if isinstance(par, ast.Subscript) and par.value is node:
            return "iterate:subscript"
        return None


def scan(repo: Path) -> List[Dict[str, str]]:
    """all sites of `<repo>/pydoctor/**/*.py`, tests excluded; deterministic order"""
    base = Path(repo) / "pydoctor"
    trees: Dict[str, ast.Module] = {}
    for p in sorted(base.rglob("*.py")):
        rel = p.relative_to(repo).as_posix()
        if "/test/" in "/" + rel:
            continue
        trees[rel] = ast.parse(p.read_text(encoding="utf-8"), filename=rel)
    idx = build_index(trees)
    sites: List[Dict[str, str]] = []
    for rel, tree in trees.items():
        sc = Scanner(rel, tree, idx)
        sc.visit(tree)
        sites.extend(sc.sites)
    return sites


class _SortScanner(ast.NodeVisitor):
    def __init__(self, rel: str) -> None:
        self.rel = rel
        self.names: List[str] = []
        self.found: List[Dict[str, str]] = []

    def _scoped(self, node: ast.AST) -> None:
        self.names.append(node.name)  # type: ignore[attr-defined]
        self.generic_visit(node)
        self.names.pop()

    visit_FunctionDef = visit_AsyncFunctionDef = visit_ClassDef = _scoped  # type: ignore

    def visit_Call(self, node: ast.Call) -> None:
        what = None
        if isinstance(node.func, ast.Name) and node.func.id == "sorted" and node.args:
            what = ast.unparse(node.args[0])
        elif isinstance(node.func, ast.Attribute) and node.func.attr == "sort" and not node.args:
            what = ast.unparse(node.func.value)
        if what is not None:
            kw = {k.arg: ast.unparse(k.value) for k in node.keywords if k.arg}
            self.found.append({"file": self.rel, "function": ".".join(self.names) or "<module>", "sorted": what,
                               "key": kw.get("key", "-"), "reverse": kw.get("reverse", "-"), "line": str(node.lineno)})
        self.generic_visit(node)


def scan_sorts(repo: Path) -> List[Dict[str, str]]:
    """every `sorted(...)` / `.sort(...)` call of `<repo>/pydoctor/**/*.py` (tests and the vendored sre_parse
    excluded) with the expression sorted and the key expression: the sort sites of the presentation order"""
    base = Path(repo) / "pydoctor"
    res: List[Dict[str, str]] = []
    for p in sorted(base.rglob("*.py")):
        rel = p.relative_to(repo).as_posix()
        if "/test/" in "/" + rel or rel.endswith("sre_parse36.py") or rel.endswith("sre_constants36.py"):
            continue
        sc = _SortScanner(rel)
        sc.visit(ast.parse(p.read_text(encoding="utf-8"), filename=rel))
        res.extend(sc.found)
    return res


def key(site: Dict[str, str]) -> Tuple[str, str, str]:
    return (site["file"], site["function"], site["expression"])


if __name__ == "__main__":
    import json
    import sys
    for s in scan(Path(sys.argv[1] if len(sys.argv) > 1 else "/repo")):
        print(json.dumps(s))
    for s in scan_sorts(Path(sys.argv[1] if len(sys.argv) > 1 else "/repo")):
        print(json.dumps(s))
