"""Dump a real pydoctor System as the state tokens of the Lean `Names`/`Registry` models and
evaluate name queries on the real code."""
from __future__ import annotations

from typing import Any, Dict, List, Tuple

from .core import enc


def cls_letter(o) -> str:
    from pydoctor import model
    if isinstance(o, model.Package):
        return "P"
    if isinstance(o, model.Module):
        return "M"
    if isinstance(o, model.Class):
        return "C"
    if isinstance(o, model.Function):
        return "F"
    return "A"


def all_objects(system) -> List[Any]:
    """every object that is registered or hangs below a root / a registered object"""
    seen: Dict[int, Any] = {}
    order: List[Any] = []

    def visit(o):
        if id(o) in seen:
            return
        seen[id(o)] = o
        order.append(o)
        for c in o.contents.values():
            visit(c)
    for r in system.rootobjects:
        visit(r)
    for o in list(system.allobjects.values()):
        p = o
        chain = []
        while p is not None and id(p) not in seen:
            chain.append(p)
            p = p.parent
        for q in reversed(chain):
            visit(q)
    return order


def has_dotted_names(objs) -> bool:
    return any("." in o.name for o in objs) or any(
        "." in k for o in objs for k in getattr(o, "_localNameToFullName_map", {}))


def state_tokens(system) -> Tuple[List[str], Dict[int, int], List[Any]]:
    from pydoctor import model
    objs = all_objects(system)
    ids = {id(o): i for i, o in enumerate(objs)}
    toks = []
    for o in objs:
        cont = ",".join("%s=%d" % (enc(k), ids[id(c)]) for k, c in o.contents.items() if id(c) in ids) or "-"
        al = ",".join("%s=%s" % (enc(k), enc(v)) for k, v in getattr(o, "_localNameToFullName_map", {}).items()) or "-"
        par = "-" if o.parent is None else str(ids[id(o.parent)])
        toks.append("O|%s|%s|%s|%s|%s" % (cls_letter(o), enc(o.name), par, cont, al))
    for k, o in system.allobjects.items():
        if id(o) in ids:
            toks.append("K|%s|%d" % (enc(k), ids[id(o)]))
    toks.append("T|" + (",".join(str(ids[id(r)]) for r in system.rootobjects if id(r) in ids) or "-"))
    for o in objs:
        if isinstance(o, model.Class):
            try:
                m = [ids[id(c)] for c in o.mro() if id(c) in ids]
            except Exception:
                m = [ids[id(o)]]
            toks.append("X|%d|%s" % (ids[id(o)], ",".join(map(str, m)) or "-"))
    return toks, ids, objs


def real_expand(o, dotted: str) -> str:
    try:
        return enc(o.expandName(dotted))
    except RecursionError:
        return "Crash"
    except Exception as e:
        return "Crash"


def real_resolve(o, dotted: str, ids) -> str:
    try:
        r = o.resolveName(dotted)
    except Exception:
        return "Crash"
    return "None" if r is None else str(ids.get(id(r), "?"))


def real_find(system, dotted: str, ids) -> str:
    try:
        r = system.find_object(dotted)
    except LookupError:
        return "LookupError"
    except IndexError:
        return "IndexError"
    except Exception:
        return "Crash"
    return "None" if r is None else str(ids.get(id(r), "?"))
