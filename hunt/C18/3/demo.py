"""
C18 demo 3: --buildtime does not fix the time that ends up in the pages.

The property names two ways of fixing the build time: SOURCE_DATE_EPOCH or --buildtime.
A reStructuredText docstring may use the standard docutils "date" directive
(".. |now| date:: %H:%M:%S").  docutils evaluates it with the wall clock unless the
SOURCE_DATE_EPOCH *environment variable* is set; pydoctor's --buildtime option only sets
System.buildtime (the footer) and is not propagated to the docstring parser.  So two runs
with the same sources, the same options and the same --buildtime, started a second apart,
write different pages, a different all-documents.html and a different fullsearchindex.json.
"""
import hashlib
import os
import re
import subprocess
import sys
import tempfile
import time
from pathlib import Path

SOURCE = """\
'''
Documentation generated at |now|.

.. |now| date:: %Y-%m-%d %H:%M:%S
'''
__docformat__ = 'restructuredtext'
"""

def tree(d: Path) -> dict:
    r = {}
    for p in sorted(d.rglob('*')):
        rel = p.relative_to(d).as_posix()
        if p.is_symlink():
            r[rel] = 'symlink:' + os.readlink(p)
        elif p.is_file():
            r[rel] = hashlib.sha256(p.read_bytes()).hexdigest()
    return r

def main() -> int:
    tmp = Path(tempfile.mkdtemp(prefix='c18-demo3-'))
    os.chdir(tmp)
    (tmp / 'm.py').write_text(SOURCE)
    env = dict(os.environ, PYTHONHASHSEED='0')
    env.pop('SOURCE_DATE_EPOCH', None)   # the build time is given with --buildtime
    args = ['-q', '--project-name=demo', '--buildtime=2020-01-01 00:00:00']
    trees, shown = [], []
    for run in (1, 2):
        out = tmp / f'out{run}'
        p = subprocess.run([sys.executable, '-c',
                            'import sys; from pydoctor.driver import main; sys.exit(main(sys.argv[1:]))',
                            *args, '--html-output', str(out), str(tmp / 'm.py')],
                           cwd=tmp, env=env, capture_output=True, text=True)
        if p.returncode not in (0, 2, 3) or not (out / 'index.html').exists():
            print('pydoctor did not run:', p.returncode, p.stdout, p.stderr)
            return 0
        trees.append(tree(out))
        html = (out / 'index.html').read_text()
        m = re.search(r'Documentation generated at ([^<]*?)\.?<', html)
        f = re.search(r'at (2020-01-01 00:00:00)', html)
        shown.append((m.group(1) if m else '?', f.group(1) if f else '?'))
        time.sleep(1.1)
    a, b = trees
    differing = [k for k in sorted(set(a) | set(b)) if a.get(k) != b.get(k)]
    if not differing:
        print('OK: both runs give byte-identical output trees')
        return 0
    print(f"C18 VIOLATED: same sources (m.py), same options ({' '.join(args)}), same build time given "
          f"with --buildtime, same PYTHONHASHSEED, fresh output directories - the footer of both runs says "
          f"'{shown[0][1]}' / '{shown[1][1]}', but the module docstring (docutils 'date' directive) is rendered "
          f"as 'Documentation generated at {shown[0][0]}' by the first run and as 'Documentation generated at "
          f"{shown[1][0]}' by the second. Differing output files: {', '.join(differing)}. Cause: --buildtime "
          f"only sets System.buildtime; docutils' date directive reads the clock unless the SOURCE_DATE_EPOCH "
          f"environment variable is set.")
    return 1

if __name__ == '__main__':
    sys.exit(main())
