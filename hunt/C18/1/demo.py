"""
C18 demo 1: the output depends on the order in which the file system lists the
entries of pydoctor's own 'extensions' directory.

pydoctor.extensions.get_extensions() walks importlib.resources.files('pydoctor.extensions').iterdir()
without sorting, so the built-in extensions (attrs, deprecate, zopeinterface) are loaded - and
their AST visitors are run - in directory-listing order.  The attrs and the zopeinterface visitor
both assign the kind of the same attribute; the one that runs last wins.

The two runs below differ ONLY in the order in which os.listdir() returns directory entries
(ascending vs. descending by name; a real file system may produce either).  Same sources,
same options, same SOURCE_DATE_EPOCH, same PYTHONHASHSEED, both into fresh output directories.
"""
import hashlib
import os
import subprocess
import sys
import tempfile
from pathlib import Path

SOURCE = '''\
import attr
import zope.schema
from zope.interface import Attribute

@attr.s(auto_attribs=True)
class C:
    x: int = Attribute("doc of x")
    y: str = zope.schema.TextLine(description="doc of y")
'''

# Bootstrap of the child process: make os.listdir() (used by Path.iterdir()) return the entries
# in a fixed order chosen by the LISTING_ORDER environment variable, then run the pydoctor CLI.
BOOT = r'''
import os, sys
_listdir = os.listdir
_reverse = os.environ['LISTING_ORDER'] == 'descending'
def listdir(path='.'):
    return sorted(_listdir(path), reverse=_reverse)
os.listdir = listdir
from pydoctor.driver import main
sys.exit(main(sys.argv[1:]))
'''

def tree(d: Path) -> dict:
    r = {}
    for p in sorted(d.rglob('*')):
        rel = p.relative_to(d).as_posix()
        if p.is_symlink():
            r[rel] = 'symlink:' + os.readlink(p)
        elif p.is_file():
            r[rel] = hashlib.sha256(p.read_bytes()).hexdigest()
    return r

def main() -> int:
    tmp = Path(tempfile.mkdtemp(prefix='c18-demo1-'))
    os.chdir(tmp)
    (tmp / 'm.py').write_text(SOURCE)
    trees = {}
    for order in ('ascending', 'descending'):
        out = tmp / f'out-{order}'
        env = dict(os.environ, LISTING_ORDER=order, PYTHONHASHSEED='0', SOURCE_DATE_EPOCH='1000000000')
        p = subprocess.run([sys.executable, '-c', BOOT, '-q', '--project-name=demo',
                            '--html-output', str(out), str(tmp / 'm.py')],
                           cwd=tmp, env=env, capture_output=True, text=True)
        if p.returncode not in (0, 2, 3) or not (out / 'index.html').exists():
            print('pydoctor did not run:', p.returncode, p.stdout, p.stderr)
            return 0
        trees[order] = tree(out)
    a, b = trees['ascending'], trees['descending']
    differing = [k for k in sorted(set(a) | set(b)) if a.get(k) != b.get(k)]
    if not differing:
        print('OK: both listing orders give byte-identical output trees')
        return 0
    def kinds(order: str) -> str:
        import re
        html = (tmp / f'out-{order}' / 'm.C.html').read_text()
        return ', '.join(sorted(set(re.findall(r'<td>(Instance Variable|Attribute|Schema Field)</td>', html)))) or '?'
    print(f"C18 VIOLATED: same sources (m.py), same options, same SOURCE_DATE_EPOCH and PYTHONHASHSEED, "
          f"fresh output directories - but when the file system lists directory entries in ascending "
          f"order of name the attributes m.C.x / m.C.y are documented as [{kinds('ascending')}], and "
          f"when it lists them in descending order they are documented as [{kinds('descending')}]. "
          f"{len(differing)} output files differ: {', '.join(differing)}. "
          f"Cause: pydoctor.extensions.get_extensions() loads the built-in extensions in unsorted "
          f"iterdir() order, and the attrs and zopeinterface visitors both set the kind of the same attribute.")
    return 1

if __name__ == '__main__':
    sys.exit(main())
