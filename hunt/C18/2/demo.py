"""
C18 demo 2: with --introspect-c-modules the output depends on the interpreter's hash seed.

The signature of a function of an introspected extension module is obtained with
inspect.signature() and rendered through str(signature), i.e. through the plain repr() of the
default values (pydoctor.model._EscapedRepr).  A default that is a set literal in the
__text_signature__ ("flags={'alpha', 'beta', 'gamma', 'delta'}", which inspect evaluates with
ast.literal_eval) is a live set of strings: its repr() lists the elements in hash order,
so the page of the module changes with PYTHONHASHSEED.

The extension module is compiled from the C source below with the system C compiler; if no
compiler is available a prebuilt copy (linux x86-64, built from the very same source) is used.
"""
import base64
import hashlib
import lzma
import os
import re
import shutil
import subprocess
import sys
import sysconfig
import tempfile
from pathlib import Path

C_SOURCE = r'''
#include <Python.h>
static PyObject* f(PyObject* self, PyObject* args, PyObject* kw) { Py_RETURN_NONE; }
static PyMethodDef methods[] = {
  {"f", (PyCFunction)f, METH_VARARGS|METH_KEYWORDS,
   "f($module, /, flags={'alpha', 'beta', 'gamma', 'delta'})\n--\n\nDo f."},
  {NULL, NULL, 0, NULL}
};
static struct PyModuleDef mod = {PyModuleDef_HEAD_INIT, "cmod", "C module.", -1, methods};
PyMODINIT_FUNC PyInit_cmod(void) { return PyModule_Create(&mod); }
'''

PREBUILT_XZ_B64 = '''
/Td6WFoAAATm1rRGAgAhARwAAAAQz1jM4DfvBQNdAD+RRYRoPYmm2orhgzJO8e3vZxg+unlyRKkM2V/fwugQBGmJjjGSbqfXsuOq
UqL8+OP/80w2MFTxFndM0LJMhduGku9sH6X4SHipKBmvczscpTsllkdhJQYL+qB+90EVsmhGq/hlDPmi2luxDQ+VeKp2dyiF9JXD
VYJbDXxZflUdSk3kXU68SvKghiK2Npvi4sfyO5ZbPzDSoHDXGPvTTVmMdCa6f2q81mRHXobjpofBX12q0uqPULfNuZRFQlTxCBiD
j2xT6JcdB1a50d8kGzdtFSj5uFvVm6myf9Kw4N1j07QKhOGq/BTTYTFwOr1ihJBMvU+jgoTBHOdts0OAhEt7L5IyC/c84n7pFJx/
DnQm9/38/xL/0IVKFcAEIsILXNpd+09Tlv1PwAWCf+D8sk9Cu5XsvotgzxGeHK52+j22KkMNFMLzFR67Fm8+hARDwVNe9UtK1Tyc
bdKMOcX1kx1Vza+drw/AEsYeqE5hPAvl2WGbJvp1PGLbm2B4rULfo0Bv+J2lnReFevj3BwxbekSmkgYvKATXACaOQ1UZg5xW/b9S
HOOeL+mJlBwtHSYknbLALMNsE3TCgnqfs2OXOUFtaRvnoPeaZ2i64hXNgjF9rHCPI5STejAht/NmnfDqyagwNLQdZ2bUyNt8LKFR
G1MeV3ske5154wSS7fzU3xbeT7tNpk7UVrSZnIW7kmlHtfNzeo/h1v/9eHZG6XbWKNI3WCUbjFW6G6NsH/mIAeN0mtsc+ac+YkEL
LdjxRb/lSIPsmXFygcegVYkM07YyQ5hNMQbvKItOdIi+Oh4H3bZ3IKEApa4zILMsuJiW6YWasQiYyL9bSruZ9FIq8G1bWhwU3i7t
yEQ+KV/4OPYn9Uwe1xbkXajclFF9K9MSV58xXoCVmCIuNxqLG0sKnU4QIq0aUu8gd3xjxxuclTsNZq3wwhDedOkvQZ049rsPkDex
tRjqLjJwb04WSyVEWlEQfNt7sH8A8ZsOGEbpb0HGNg6vRU6l7jwrvfq2VuUZty3v8GcHf4MMkcfw7Nxf5ImHu23mmkt8vt5RvMbZ
yvAlPo43yebxXaoOSR7h+q+m4huJSh86WDsahygZPABfoRWPNd7Z6b74Fn6bnNABBb7lTvcOedKKFSkSjAEU5KCisOzK2YGERPs6
/a7FEmgDgYWiZx0lEcuWhAsQ/BWNsOkYbPctaG8NY8k2tMrztRDYzmJdiJ0OuoW7cdiwUujsuVe6HCrDBGO3iQiiouZnun/I7OyH
K9pjyZw+utntY9rxiif+jQcvJl7eZUafWLe362ce1mRX2Cp7eRBCRVY8fGmWc+JEXh53d2f4DGpmBeoRwTDeoNMFxP8WLHtZbO6I
bDQkUQ4xkK39nR206YkaX3Xsh7N85jQfdFdKH2rMZgqq6HjUJWujC8mAs3yT9oPyEmdqOrFsj0/an0GR1fks9ZE2cxNgd37JpUQ+
wTPcglmQK0gnnaXQCqF5HcUGRIYamd9H9BC0rOdvefwnZQOKQQ326P8J3h0/+n6YJbpilMr92kTQEUB2aoOXTvQcPjcCcVlnytgq
bKvNTtNvPfCYMOUbWElszybME31QWUTSTEIA/Fi2iafcCdvy/MRn2nIOpyIuOdjVis4C/zvvLuOF2MKqNKeQXcogaGlrbY26WEi/
p15R8zU81eB2ApxYjCAWWnd7vKAXOPneUq4euPxU237nvck7NxsDAABJ6VocSxlPEQABnwrwbwAAUPI4oLHEZ/sCAAAAAARZWg==
'''

def build_extension(dest: Path, tmp: Path) -> str:
    src = tmp / 'cmod.c'
    src.write_text(C_SOURCE)
    include = sysconfig.get_paths()['include']
    for cc in ('cc', 'gcc', 'clang'):
        exe = shutil.which(cc)
        if exe and os.path.exists(os.path.join(include, 'Python.h')):
            p = subprocess.run([exe, '-shared', '-fPIC', '-I', include, str(src), '-o', str(dest)],
                               capture_output=True, text=True)
            if p.returncode == 0 and dest.exists():
                return f'compiled with {cc}'
    dest.write_bytes(lzma.decompress(base64.b64decode(PREBUILT_XZ_B64)))
    return 'prebuilt'

def tree(d: Path) -> dict:
    r = {}
    for p in sorted(d.rglob('*')):
        rel = p.relative_to(d).as_posix()
        if p.is_symlink():
            r[rel] = 'symlink:' + os.readlink(p)
        elif p.is_file():
            r[rel] = hashlib.sha256(p.read_bytes()).hexdigest()
    return r

def main() -> int:
    tmp = Path(tempfile.mkdtemp(prefix='c18-demo2-'))
    os.chdir(tmp)
    pkg = tmp / 'cpkg'
    pkg.mkdir()
    (pkg / '__init__.py').write_text('"""A package with an extension module."""\n')
    how = build_extension(pkg / 'cmod.so', tmp)

    results = {}
    for seed in range(1, 9):
        out = tmp / f'out-seed{seed}'
        env = dict(os.environ, PYTHONHASHSEED=str(seed), SOURCE_DATE_EPOCH='1000000000')
        p = subprocess.run([sys.executable, '-c',
                            'import sys; from pydoctor.driver import main; sys.exit(main(sys.argv[1:]))',
                            '-q', '--introspect-c-modules', '--project-name=demo',
                            '--html-output', str(out), str(pkg)],
                           cwd=tmp, env=env, capture_output=True, text=True)
        if p.returncode not in (0, 2, 3) or not (out / 'cpkg.cmod.html').exists():
            print('pydoctor did not run:', p.returncode, p.stdout, p.stderr)
            return 0
        html = (out / 'cpkg.cmod.html').read_text()
        m = re.search(r"flags=\{[^}]*\}", html)
        results[seed] = (tree(out), m.group(0) if m else '?')

    seeds = sorted(results)
    base = seeds[0]
    for s in seeds[1:]:
        a, b = results[base][0], results[s][0]
        differing = [k for k in sorted(set(a) | set(b)) if a.get(k) != b.get(k)]
        if differing:
            print(f"C18 VIOLATED: same sources (package cpkg with the extension module cmod.so, {how}), same "
                  f"options (--introspect-c-modules --project-name=demo), same SOURCE_DATE_EPOCH, fresh output "
                  f"directories - but with PYTHONHASHSEED={base} the signature of cpkg.cmod.f is rendered as "
                  f"f({results[base][1]}) and with PYTHONHASHSEED={s} as f({results[s][1]}); "
                  f"differing output files: {', '.join(differing)}. Cause: the defaults of an introspected "
                  f"signature are rendered with the plain repr() of the live value (model._EscapedRepr), "
                  f"and the repr() of a set of strings follows the hash seed.")
            return 1
    print('OK: the output did not depend on the hash seed for seeds', seeds)
    return 0

if __name__ == '__main__':
    sys.exit(main())
