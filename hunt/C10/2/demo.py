"""C10: text inside math markup (epytext M{...}, reST :math:/.. math::) can still put unescaped
< > " characters, a comment node and - for every HTML parser - a live element with an event handler
on the page, by wrapping itself in a CDATA section or in a comment."""
import contextlib, io, os, re, sys, tempfile
import xml.etree.ElementTree as ET
from html.parser import HTMLParser
from pathlib import Path

tmp = tempfile.mkdtemp(prefix='c10-cdata-')
os.chdir(tmp)
Path('src').mkdir()
CDATA_PAYLOAD = '''<![CDATA[><img src="x" onerror="alert('from-cdata')"/>]]>'''
COMMENT_PAYLOAD = '''<!--><img src="y" onerror="alert('from-comment')"/>-->'''
Path('src', 'mod.py').write_text(
    'r"""\nFormulas M{\\text{%s}} and M{\\mbox{%s}} end.\n"""\n' % (CDATA_PAYLOAD, COMMENT_PAYLOAD))

from pydoctor.driver import main
buf = io.StringIO()
with contextlib.redirect_stdout(buf), contextlib.redirect_stderr(buf):
    try:
        rc = main(['--html-output', 'out', '--project-name', 'demo', '--docformat', 'epytext',
                   str(Path('src', 'mod.py'))])
    except SystemExit as e:
        rc = e.code

page = Path('out', 'mod.html').read_text(encoding='utf-8')
ET.fromstring(page.encode())        # still XML: the payloads hide in a CDATA section and in a comment
problems = []
if CDATA_PAYLOAD in page:
    problems.append('the docstring text %r is in mod.html verbatim: its < > " are NOT escaped (CDATA section)' % CDATA_PAYLOAD)
if COMMENT_PAYLOAD in page:
    problems.append('the docstring text %r is in mod.html verbatim and is an XML comment node: source text became markup' % COMMENT_PAYLOAD)

# What an HTML parser (the pages are .html files) makes of it, following the HTML standard:
# outside SVG/MathML "<![CDATA[" starts a bogus comment that ends at the first ">", and "<!-->" is a
# complete (empty) comment. Whatever follows is ordinary markup.
class Collect(HTMLParser):
    def __init__(self):
        super().__init__(); self.handlers = []
    def handle_starttag(self, tag, attrs):
        self.handlers += ['<%s %s="%s">' % (tag, k, v) for k, v in attrs if k.startswith('on')]
    handle_startendtag = handle_starttag
live = Collect()
for m in re.finditer(r'<!\[CDATA\[[^>]*>(.*?)\]\]>|<!-->(.*?)-->', page, re.S):
    live.feed(m.group(1) or m.group(2) or '')
if live.handlers:
    problems.append('a browser therefore sees the elements/event handlers ' + ', '.join(live.handlers))

if problems:
    print('PROPERTY C10 VIOLATED by an epytext docstring that only uses M{...} math markup (no raw/include): '
          + '; '.join(problems) + f'. (pydoctor exit code {rc})')
    sys.exit(1)
print('math text was escaped; property holds for this input')
