"""C10: the alternate text of an image whose URI ends in .svg/.swf/.mp4/.webm/.ogg is copied
unescaped into the page, so a reST ``image`` directive (not ``raw``/``include``) injects elements."""
import contextlib, io, os, re, sys, tempfile
import xml.etree.ElementTree as ET
from pathlib import Path

tmp = tempfile.mkdtemp(prefix='c10-img-')
os.chdir(tmp)
Path('src').mkdir()
Path('src', 'mod.py').write_text('''\
"""
Module with a picture.

.. image:: diagram.svg
   :alt: <script>alert("xss-from-alt")</script><img src="x" onerror="alert(1)"/>
"""
__docformat__ = "restructuredtext"
''')

from pydoctor.driver import main
buf = io.StringIO()
with contextlib.redirect_stdout(buf), contextlib.redirect_stderr(buf):
    try:
        rc = main(['--html-output', 'out', '--project-name', 'demo', '--docformat', 'restructuredtext',
                   str(Path('src', 'mod.py'))])
    except SystemExit as e:
        rc = e.code

bad = []
for page in sorted(Path('out').glob('*.html')):
    root = ET.fromstring(page.read_bytes())      # every page is still well-formed XML...
    for el in root.iter():
        tag = el.tag.split('}')[-1].lower()
        if tag == 'script' and 'xss-from-alt' in (el.text or ''):
            bad.append(f'{page.name}: <script>{el.text}</script>')
        if 'onerror' in el.attrib:
            bad.append(f'{page.name}: <{tag} onerror="{el.attrib["onerror"]}">')

if bad:
    snippet = re.search(r'<object[^>]*diagram\.svg.*?</object>', Path('out', 'index.html').read_text(), re.S)
    print('PROPERTY C10 VIOLATED: the :alt: text of a reST image directive (no raw/include directive anywhere) '
          'became live markup: the pages contain a <script> element and an onerror event handler that exist '
          'only in the docstring text. Found: ' + '; '.join(bad) + '. HTML written: ' +
          (snippet.group(0) if snippet else '?') + f' (pydoctor exit code {rc})')
    sys.exit(1)
print('alt text was escaped; property holds for this input')
