"""C10: the URL of a hyperlink written in a docstring is copied to href whatever its scheme, so
docstring text introduces a script (javascript: URL) in every docformat that has links."""
import contextlib, io, os, re, sys, tempfile
import xml.etree.ElementTree as ET
from pathlib import Path

tmp = tempfile.mkdtemp(prefix='c10-jsurl-')
os.chdir(tmp)
Path('src').mkdir()
Path('src', 'epy.py').write_text('''\
"""
See U{the manual<javascript:alert('xss-epytext')>} for details.
"""
__docformat__ = "epytext"
''')
Path('src', 'rst.py').write_text('''\
"""
See `the manual <javascript:alert('xss-rst')>`_ for details.
"""
__docformat__ = "restructuredtext"
''')

from pydoctor.driver import main
buf = io.StringIO()
with contextlib.redirect_stdout(buf), contextlib.redirect_stderr(buf):
    try:
        rc = main(['--html-output', 'out', '--project-name', 'demo',
                   str(Path('src', 'epy.py')), str(Path('src', 'rst.py'))])
    except SystemExit as e:
        rc = e.code

def scheme(url):
    # what a browser does before it looks at the scheme: strip leading/trailing C0 control or space,
    # remove every tab and newline
    url = re.sub(r'[\t\n\r]', '', url.strip(''.join(map(chr, range(0, 33)))))
    return url.split(':', 1)[0].lower() if ':' in url else ''

bad = []
for page in sorted(Path('out').glob('*.html')):
    for el in ET.fromstring(page.read_bytes()).iter():
        href = el.attrib.get('href')
        if href is not None and scheme(href) in ('javascript', 'vbscript', 'data'):
            bad.append('%s: <a href="%s">%s</a>' % (page.name, href, ''.join(el.itertext())))

if bad:
    print('PROPERTY C10 VIOLATED: text of a docstring (the URL of an epytext U{...} link / of a reST `text <url>`_ '
          'link) introduced a script on the generated pages: clicking the link runs it. No raw or include directive '
          'is involved. Found: ' + '; '.join(bad) + f' (pydoctor exit code {rc})')
    sys.exit(1)
print('no script URL found; property holds for this input')
