"""C10: HTML derived from docstrings is loaded with twisted's *template* loader, so docstring text in
the twisted.web.template namespace is executed as a template directive: it can call the page's
renderers (elements appear that no markup asked for) and a name that does not exist aborts the run in
the middle of a page, leaving a file that is not well-formed."""
import contextlib, io, os, re, sys, tempfile, traceback
import xml.etree.ElementTree as ET
from pathlib import Path

NS = 'xmlns:t="http://twistedmatrix.com/ns/twisted.web.template/0.1"'

def run(docstring):
    tmp = tempfile.mkdtemp(prefix='c10-tmpl-')
    os.chdir(tmp)
    Path('src').mkdir()
    Path('src', 'mod.py').write_text('r"""\n%s\n"""\n' % docstring)
    from pydoctor.driver import main
    buf = io.StringIO()
    outcome = 'exit code %s'
    with contextlib.redirect_stdout(buf), contextlib.redirect_stderr(buf):
        try:
            outcome %= main(['--html-output', 'out', '--project-name', 'demo', '--docformat', 'epytext',
                             str(Path('src', 'mod.py'))])
        except SystemExit as e:
            outcome %= e.code
        except BaseException as e:
            outcome = 'run aborted by %s: %s' % (type(e).__name__, str(e).strip().splitlines()[-1])
    return Path(tmp, 'out'), outcome

problems = []

# 1. The docstring only contains math markup; its text asks for the page's "footer" renderer.
out, outcome = run(r'Formula M{\text{<span %s t:render="footer">x</span>}} end.' % NS)
page = out / 'mod.html'
if page.exists():
    root = ET.fromstring(page.read_bytes())
    for para in root.iter('p'):
        if (para.text or '').startswith('Formula'):
            introduced = sorted({el.tag for el in para.iter()} - {'p', 'span'})
            if introduced:
                problems.append('a docstring made of the words "Formula M{\\text{<span ... t:render="footer">x</span>}} end." '
                                'made mod.html render the page footer inside the docstring paragraph: the elements '
                                + ', '.join('<%s>' % t for t in introduced) + ' ('
                                + ', '.join('<script src="%s">' % el.get('src') for el in para.iter('script'))
                                + ') were introduced by docstring text, and the whitelist for math HTML never saw them ('
                                + outcome + ')')

# 2. Same thing with a renderer that does not exist: the run dies while a page is being written.
out, outcome = run(r'Formula M{\text{<span %s t:render="nosuch">x</span>}} end.' % NS)
broken = []
for page in sorted(out.glob('*.html')):
    try:
        ET.fromstring(page.read_bytes())
    except ET.ParseError as e:
        broken.append('%s (%d bytes: %r) is not well-formed: %s' % (page.name, page.stat().st_size,
                                                                   page.read_text()[-40:], e))
if broken or 'aborted' in outcome:
    problems.append('with t:render="nosuch" the ' + outcome + '; pages written: ' +
                    (', '.join(p.name for p in sorted(out.glob('*.html'))) or 'none') + '; ' + '; '.join(broken))

if problems:
    print('PROPERTY C10 VIOLATED (no raw/include directive used): ' + ' -- ALSO: '.join(problems))
    sys.exit(1)
print('template directives in docstring text were not executed; property holds for this input')
