"""
C20: an unknown key in setup.cfg / pydoctor.ini aborts the run instead of being warned about,
as soon as its value looks like a list (or a quoted string) that does not evaluate.

The INI parser evaluates the value of *every* key of the pydoctor section - `[...]` with
ast.literal_eval, quoted text with literal_eval too - before the validator gets to see which keys
exist.  So `future-option = [a, b]` (the list syntax of plain configargparse, or simply an option of
a newer pydoctor) is a fatal "Error evaluating list", where `future-option = a, b` is the promised
"No such config option" warning.
"""
import os, sys, tempfile, warnings, io, contextlib

tmp = tempfile.mkdtemp(prefix='c20-unknown-key-')
os.chdir(tmp)

from pydoctor.options import Options

def attempt(name, text):
    with open(name, 'w') as f:
        f.write(text)
    err = io.StringIO()
    try:
        with warnings.catch_warnings(record=True) as caught, contextlib.redirect_stderr(err):
            warnings.simplefilter('always')
            o = Options.from_args([])
        return 'ok', o.projectname, [str(w.message) for w in caught if 'config option' in str(w.message)]
    except SystemExit as e:
        return 'abort', e.code, err.getvalue().strip().splitlines()[-1][:230]
    finally:
        os.remove(name)

# control: an unknown key with a plain value is warned about and dropped, the rest of the file applies
control = attempt('setup.cfg', "[tool:pydoctor]\nproject-name = Demo\nfuture-option = a, b\n")
assert control == ('ok', 'Demo', ["No such config option: 'future-option'"]), control

failures = []
for name, text in [
        ('setup.cfg',    "[tool:pydoctor]\nproject-name = Demo\nfuture-option = [a, b]\n"),
        ('pydoctor.ini', "[pydoctor]\nproject-name = Demo\nfuture-option = [a, b]\n"),
        ('pydoctor.ini', "[pydoctor]\nproject-name = Demo\nfuture-option = 'C:\\x'\n"),
    ]:
    r = attempt(name, text)
    if r[0] != 'ok' or r[1] != 'Demo' or not r[2]:
        failures.append(f"  {name}: {text.splitlines()[2]!r} -> {r!r}")

if failures:
    print("PROPERTY C20 VIOLATED: an unknown key must be warned about rather than abort the run. "
          f"With `future-option = a, b` pydoctor warns and goes on ({control!r}), but when the value of the unknown key "
          "looks like a list or a quoted string that does not evaluate, pydoctor exits with an option error "
          "before the key is even looked up:\n" + "\n".join(failures))
    sys.exit(1)
print("ok: unknown keys are only warned about")
