"""
C20: the option --config, set as a key of a config file, is neither applied nor warned about.

`pydoctor --config=extra.ini` loads extra.ini.  The same option written in pydoctor.ini
(`config = extra.ini`, in setup.cfg or pyproject.toml alike) is accepted as a known key - so
no "No such config option" warning - but the file it names is never read, not even opened.
"""
import os, sys, tempfile, warnings

tmp = tempfile.mkdtemp(prefix='c20-config-key-')
os.chdir(tmp)

from pydoctor.options import Options

with open('extra.ini', 'w') as f:
    f.write("[pydoctor]\nproject-name = FromExtra\nprivacy = HIDDEN:pkg.secret\n")

def effective(args):
    with warnings.catch_warnings(record=True) as caught:
        warnings.simplefilter('always')
        o = Options.from_args(args)
    return (o.projectname, o.privacy), [str(w.message) for w in caught if 'config option' in str(w.message)]

# 1. on the command line
cli, _ = effective(['--config=extra.ini'])

failures = []
for name, text in [
        ('pydoctor.ini',   "[pydoctor]\nconfig = extra.ini\n"),
        ('setup.cfg',      "[tool:pydoctor]\nconfig = extra.ini\n"),
        ('pyproject.toml', "[tool.pydoctor]\nconfig = \"extra.ini\"\n"),
        # the named file does not even have to exist:
        ('pydoctor.ini',   "[pydoctor]\nconfig = does-not-exist.ini\n"),
    ]:
    with open(name, 'w') as f:
        f.write(text)
    try:
        got, warned = effective([])
    except SystemExit as e:
        got, warned = ('exit', e.code), []
    os.remove(name)
    if got != cli and not warned:
        failures.append(f"  {name}: {text.splitlines()[1]!r} -> (projectname, privacy) = {got!r}, warnings about the key: {warned!r}")

if failures:
    print("PROPERTY C20 VIOLATED: the option --config does not mean the same in a config file as on the command line. "
          f"`pydoctor --config=extra.ini` gives (projectname, privacy) = {cli!r}, but the key `config` in a config file "
          "is silently swallowed: the named file is not loaded (it need not even exist) and, the key being 'known', "
          "no 'No such config option' warning is issued either - neither applied like on the command line nor warned about:\n"
          + "\n".join(failures))
    sys.exit(1)
print("ok: config key behaves like --config (or is warned about)")
