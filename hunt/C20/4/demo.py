"""
C20: in setup.cfg / pydoctor.ini a quoted string survives only as the *whole* value of a key.
In the one-value-per-line list form (the form pydoctor documents for repeatable options) each
line that is written quoted is read back WITH its quotes, so the repeated option does not get the
text that was written, and a value that needs quoting (trailing blank, leading '#', ...) cannot be
given in that form at all.
"""
import os, sys, tempfile, warnings

tmp = tempfile.mkdtemp(prefix='c20-quoted-lines-')
os.chdir(tmp)

from pydoctor.options import Options

def effective(files, args):
    for name, text in files.items():
        with open(name, 'w') as f:
            f.write(text)
    try:
        with warnings.catch_warnings(record=True):
            warnings.simplefilter('always')
            o = Options.from_args(args)
        return o.intersphinx, o.htmlsubjects
    finally:
        for name in files:
            os.remove(name)

values = ['https://a.example/objects.inv', 'https://b.example/objects.inv']
subjects = ['pkg.mod ', '#pkg.other']          # need quoting in an INI file: trailing blank, comment character

cli = effective({}, [f'--intersphinx={v}' for v in values] + [f'--html-subject={s}' for s in subjects])
assert cli == (values, subjects)

# a single quoted value: the quotes are quoting (this works)
single = effective({'pydoctor.ini': f"[pydoctor]\nintersphinx = {values[0]!r}\nhtml-subject = {subjects[0]!r}\n"}, [])
assert single == (values[:1], subjects[:1]), single

failures = []
for name, sect in (('setup.cfg', 'tool:pydoctor'), ('pydoctor.ini', 'pydoctor')):
    text = (f"[{sect}]\n"
            "intersphinx =\n" + "".join(f'    "{v}"\n' for v in values) +
            "html-subject =\n" + "".join(f"    {s!r}\n" for s in subjects))
    got = effective({name: text}, [])
    if got != cli:
        failures.append(f"  {name}:\n" + "".join("      | " + l + "\n" for l in text.splitlines()) + f"    -> (intersphinx, htmlsubjects) = {got!r}")

if failures:
    print("PROPERTY C20 VIOLATED: what is written quoted in a config file is not read back as the same text when the "
          f"repeatable option is written one value per line. Command line: (intersphinx, htmlsubjects) = {cli!r}; a single quoted "
          f"value is unquoted as promised: {single!r}; but each quoted line of a multi-line list keeps its quote characters, "
          "so the file does not yield the configuration of the command line:\n" + "\n".join(failures))
    sys.exit(1)
print("ok: quoted list items are unquoted")
