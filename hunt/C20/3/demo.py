"""
C20: a pyproject.toml that the old `toml` package cannot parse is silently re-read as an INI file,
so the [tool.pydoctor] table is interpreted with the INI/Python quoting rules instead of TOML's.

The `toml` 0.10 package implements TOML 0.5.  A perfectly valid TOML 1.0 construct anywhere in
pyproject.toml - here an array of mixed types in the table of ANOTHER tool - makes toml.load() fail;
CompositeConfigParser then falls back to IniConfigParser, which happily finds a section called
"tool.pydoctor" and evaluates the values as Python literals / raw INI text:
  * the TOML literal string 'C:\temp\new' (backslashes are literal) becomes C:<TAB>emp<NEWLINE>ew
  * "https://example.org" # comment   keeps its quotes and the comment
No warning, no error.
"""
import os, sys, tempfile, warnings, tomllib

tmp = tempfile.mkdtemp(prefix='c20-toml-fallback-')
os.chdir(tmp)

from pydoctor.options import Options

PYDOCTOR_TABLE = (
    "[tool.pydoctor]\n"
    "project-name = 'C:\\temp\\new'\n"                 # TOML literal string: what is written is what you get
    "project-url = \"https://example.org\" # home\n"   # basic string followed by a comment
)
OTHER_TOOL = "[tool.other]\nmixed = [1, \"a\"]\n"      # valid TOML 1.0 (heterogeneous array), rejected by toml 0.10

def effective(text):
    with open('pyproject.toml', 'w') as f:
        f.write(text)
    with warnings.catch_warnings(record=True):
        warnings.simplefilter('always')
        o = Options.from_args([])
    return o.projectname, o.projecturl

want = tomllib.loads(OTHER_TOOL + PYDOCTOR_TABLE)['tool']['pydoctor']   # the interpreter's TOML reader is the judge
want = (want['project-name'], want['project-url'])
cli = Options.from_args(['--project-name=' + want[0], '--project-url=' + want[1]])
assert (cli.projectname, cli.projecturl) == want

alone = effective(PYDOCTOR_TABLE)
assert alone == want, alone     # the table on its own is read correctly

got = effective(OTHER_TOOL + PYDOCTOR_TABLE)
if got != want:
    print("PROPERTY C20 VIOLATED: string values of pyproject.toml do not survive the TOML quoting rules. "
          f"The table {PYDOCTOR_TABLE!r} means (projectname, projecturl) = {want!r} (tomllib, and pydoctor itself when the "
          f"table stands alone: {alone!r}; same as passing these values on the command line). Preceded by the unrelated, valid "
          f"TOML 1.0 table {OTHER_TOOL!r} pydoctor reads {got!r} instead: the `toml` package rejects the file, "
          "CompositeConfigParser silently falls back to the INI parser, which finds a section named 'tool.pydoctor' and "
          "applies Python/INI quoting (\\t and \\n become TAB and NEWLINE, the quotes and the trailing comment of the URL are kept).")
    sys.exit(1)
print("ok: pyproject.toml read with TOML rules")
