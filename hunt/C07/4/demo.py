"""C07: a re-exported object that the defining module binds under a second name (Foo = _Foo) is lost for consumers importing that name."""
import contextlib, io, os, re, subprocess, sys, tempfile
from pathlib import Path

FILES = {
    'pkg/__init__.py': '"""Re-exporting package."""\nfrom ._impl import Foo\n__all__ = ["Foo"]\n',
    # the class is written under a private name and published under a public one
    'pkg/_impl.py': '"""Defining module (no __all__)."""\nclass _Foo:\n    """The re-exported class."""\n    def m(self):\n        """A member."""\n\nFoo = _Foo\n',
    'pkg/a.py': '"""Consumer."""\nfrom pkg._impl import Foo\n\nclass C(Foo):\n    """Subclass."""\n    def g(self, x: Foo) -> None:\n        """Method."""\n',
    # control: the same consumer, importing from the re-exporting package
    'pkg/b.py': '"""Consumer."""\nfrom pkg import Foo\n\nclass C(Foo):\n    """Subclass."""\n    def g(self, x: Foo) -> None:\n        """Method."""\n',
}

def refs(page: str):
    sig = re.search(r'<p class="class-signature">(.*?)</p>', page, re.S).group(1)
    meth = re.search(r'<span class="function-signature">(.*?)</span>:', page, re.S).group(1)
    return sig, meth

def main() -> int:
    tmp = Path(tempfile.mkdtemp(prefix='c07-4-'))
    os.chdir(tmp)
    for name, text in FILES.items():
        p = tmp / name
        p.parent.mkdir(parents=True, exist_ok=True)
        p.write_text(text)
    subprocess.run([sys.executable, '-c',
        'import pkg, pkg.a, pkg.b; assert pkg.a.C.__mro__[1] is pkg.Foo is pkg.b.C.__mro__[1]'],
        check=True, cwd=tmp, env={**os.environ, 'PYTHONPATH': str(tmp)})

    from pydoctor import driver
    out = io.StringIO()
    with contextlib.redirect_stdout(out), contextlib.redirect_stderr(out):
        rc = driver.main(['--html-output', str(tmp / 'out'), '--project-name', 'demo', str(tmp / 'pkg')])
    o = tmp / 'out'
    pages = sorted(p.name for p in o.glob('pkg*.html'))
    assert 'pkg.Foo.html' in pages and 'pkg._impl._Foo.html' not in pages, (pages, out.getvalue())
    target = 'href="pkg.Foo.html"'
    sig_b, meth_b = refs((o / 'pkg.b.C.html').read_text())
    assert target in sig_b and target in meth_b, (sig_b, meth_b)      # control
    sig_a, meth_a = refs((o / 'pkg.a.C.html').read_text())
    if target in sig_a and target in meth_a:
        print('OK: the references of pkg.a lead to pkg.Foo')
        return 0
    print("C07 VIOLATED: pkg/_impl.py defines 'class _Foo' and binds it to the public name with 'Foo = _Foo'; "
          "pkg/__init__.py does 'from ._impl import Foo' with __all__ = ['Foo'], and the class is documented once, as "
          f"pkg.Foo (pages: {pages}). pkg/a.py imports it from the defining module ('from pkg._impl import Foo', the "
          "same object for CPython) and uses it as a base class and as an annotation: both must lead to pkg.Foo.html, "
          f"as they do in pkg/b.py which imports it from the re-exporter. Observed in pkg.a.C.html: class signature "
          f"{sig_a!r}, method signature {meth_a!r}: plain text, no link (and pkg.a.C has no resolved base class: no "
          "inherited members, not listed as a subclass of pkg.Foo). The name pkg._impl.Foo is an alias of "
          "pkg._impl._Foo, which the move turned into an alias of pkg.Foo: pydoctor gives up after the first stale name.")
    return 1

if __name__ == '__main__':
    sys.exit(main())
