"""C07: an object named like the module that defines it is unreachable through the defining module once re-exported."""
import contextlib, io, os, re, subprocess, sys, tempfile
from pathlib import Path

FILES = {
    # the classic 'from .thing import thing' layout
    'pkg/__init__.py': '"""Re-exporting package."""\nfrom .Foo import Foo\n__all__ = ["Foo"]\n',
    'pkg/Foo.py': '"""Defining module (no __all__)."""\nclass Foo:\n    """The re-exported class."""\n    def m(self):\n        """A member."""\n',
    'pkg/a.py': '"""Consumer, see L{pkg.Foo.Foo}."""\nfrom pkg.Foo import Foo\n\nclass C(Foo):\n    """Subclass."""\n    def g(self, x: Foo) -> None:\n        """Method."""\n',
}

def main() -> int:
    tmp = Path(tempfile.mkdtemp(prefix='c07-2-'))
    os.chdir(tmp)
    for name, text in FILES.items():
        p = tmp / name
        p.parent.mkdir(parents=True, exist_ok=True)
        p.write_text(text)

    # CPython: the consumer's import from the defining module is fine and names the re-exported class.
    subprocess.run([sys.executable, '-c',
        'import pkg, pkg.a; assert pkg.a.C.__mro__[1] is pkg.Foo; assert pkg.a.Foo is pkg.Foo'],
        check=True, cwd=tmp, env={**os.environ, 'PYTHONPATH': str(tmp)})

    from pydoctor import driver
    out = io.StringIO()
    with contextlib.redirect_stdout(out), contextlib.redirect_stderr(out):
        rc = driver.main(['--html-output', str(tmp / 'out'), '--project-name', 'demo', str(tmp / 'pkg')])
    log = out.getvalue()
    assert (tmp / 'out' / 'pkg.Foo.html').exists() and 'moving' in log, log   # the class is documented as pkg.Foo

    page = (tmp / 'out' / 'pkg.a.C.html').read_text()
    sig = re.search(r'<p class="class-signature">(.*?)</p>', page, re.S).group(1)
    meth = re.search(r'<span class="function-signature">(.*?)</span>:', page, re.S).group(1)
    modpage = (tmp / 'out' / 'pkg.a.html').read_text()
    doc = re.search(r'Consumer, see (.*?)\.</', modpage, re.S).group(1)
    target = 'href="pkg.Foo.html"'
    problems = []
    if target not in sig:
        problems.append(f"the base class of pkg.a.C is not linked: {sig!r}")
    if target not in meth:
        problems.append(f"the annotation 'x: Foo' is not linked: {meth!r}")
    if target not in doc:
        problems.append(f"the cross-reference L{{pkg.Foo.Foo}} (old qualified name) is not linked: {doc!r}")
    warn = [l for l in log.splitlines() if 'Cannot find link target' in l]
    if not problems:
        print('OK: every reference leads to pkg.Foo')
        return 0
    print("C07 VIOLATED: pkg/__init__.py does 'from .Foo import Foo' with __all__ = ['Foo'], the class is documented "
          "as pkg.Foo (page pkg.Foo.html). pkg/a.py imports it from the defining module ('from pkg.Foo import Foo', "
          "valid for CPython) and uses it as a base class, as an annotation and in L{pkg.Foo.Foo}: every one of these "
          "references must lead to pkg.Foo.html, but " + '; '.join(problems) +
          f". pydoctor warnings: {warn}. (The moved class takes the full name of its defining module 'pkg.Foo': the "
          "module is renamed to 'pkg.Foo 0', so the alias 'Foo' left in it cannot be reached from 'pkg.Foo.Foo' anymore.)")
    return 1

if __name__ == '__main__':
    sys.exit(main())
