"""C07: annotations of a re-exported object are resolved in the re-exporter's namespace, references to another re-exported object are lost."""
import contextlib, io, os, re, subprocess, sys, tempfile
from pathlib import Path

FILES = {
    # re-exporter of Foo
    'pkg/__init__.py': '"""Package, re-exports Foo."""\nfrom ._impl import Foo\n__all__ = ["Foo"]\n',
    'pkg/_impl.py': '"""Defines Foo (no __all__)."""\nclass Foo:\n    """The re-exported class."""\n',
    # a consumer that imports Foo from the defining module and uses it in annotations
    'pkg/_cons.py': ('"""Consumer (no __all__)."""\nfrom pkg._impl import Foo\n\n'
                     'DEFAULT: Foo = Foo()\n"""Re-exported by pkg.api."""\n\n'
                     'STAYS: Foo = Foo()\n"""Not re-exported."""\n\n'
                     'class User:\n    """Re-exported by pkg.api."""\n    attr: Foo = Foo()\n    """Class variable."""\n'),
    # the consumer's own objects are re-exported by a sibling module
    'pkg/api.py': '"""Sibling module, re-exports DEFAULT and User."""\nfrom ._cons import DEFAULT, User\n__all__ = ["DEFAULT", "User"]\n',
}

def header(page: str, name: str) -> str:
    m = re.search(r'<span class="py-defname">%s</span>:\s*(<code>.*?</code>)' % name, page, re.S)
    return ' '.join(m.group(1).split()) if m else '<not found>'

def main() -> int:
    tmp = Path(tempfile.mkdtemp(prefix='c07-3-'))
    os.chdir(tmp)
    for name, text in FILES.items():
        p = tmp / name
        p.parent.mkdir(parents=True, exist_ok=True)
        p.write_text(text)
    subprocess.run([sys.executable, '-c', 'import pkg, pkg.api; assert type(pkg.api.DEFAULT) is pkg.Foo'],
        check=True, cwd=tmp, env={**os.environ, 'PYTHONPATH': str(tmp)})

    from pydoctor import driver
    out = io.StringIO()
    with contextlib.redirect_stdout(out), contextlib.redirect_stderr(out):
        rc = driver.main(['--html-output', str(tmp / 'out'), '--project-name', 'demo', str(tmp / 'pkg')])
    o = tmp / 'out'
    assert (o / 'pkg.Foo.html').exists() and (o / 'pkg.api.User.html').exists(), out.getvalue()
    stays = header((o / 'pkg._cons.html').read_text(), 'STAYS')
    default = header((o / 'pkg.api.html').read_text(), 'DEFAULT')
    attr = header((o / 'pkg.api.User.html').read_text(), 'attr')
    target = 'href="pkg.Foo.html"'
    assert target in stays, stays     # control: the same annotation in the same module is linked
    bad = {n: h for n, h in (('pkg.api.DEFAULT', default), ('pkg.api.User.attr', attr)) if target not in h}
    if not bad:
        print('OK: the annotations lead to pkg.Foo')
        return 0
    print("C07 VIOLATED: class Foo (pkg._impl) is re-exported by pkg and documented as pkg.Foo. pkg/_cons.py imports it "
          "from the defining module ('from pkg._impl import Foo') and annotates three variables with it. The annotation "
          f"of STAYS (not re-exported) is rendered {stays!r}: linked to pkg.Foo.html as the property demands. DEFAULT and "
          "class User are themselves re-exported (once) by the sibling module pkg.api; their annotation 'Foo' is the very "
          "same reference to the re-exported class through an import from its defining module, but it is rendered as "
          f"plain text: {bad}. The annotation of a moved object is looked up in the namespace of the module it was moved "
          "to (pkg.api), where the import 'from pkg._impl import Foo' does not exist.")
    return 1

if __name__ == '__main__':
    sys.exit(main())
