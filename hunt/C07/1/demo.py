"""C07: a re-export is skipped when the defining module is entered first and imports its re-exporter back."""
import contextlib, io, os, subprocess, sys, tempfile
from pathlib import Path

FILES = {
    'pkg/__init__.py': '"""Root package."""\n',
    # the consumer: alphabetically before 'sub', so pydoctor analyses it first
    'pkg/a.py': '"""Consumer."""\nfrom pkg.sub._impl import Foo\n\nclass C(Foo):\n    """Subclass."""\n',
    # the re-exporter
    'pkg/sub/__init__.py': '"""Re-exporting package."""\nhelper = 1\nfrom ._impl import Foo\n__all__ = ["Foo"]\n',
    # the defining module: uses something of the package it lives in (legal, helper is bound before the import)
    'pkg/sub/_impl.py': '"""Defining module."""\nfrom pkg.sub import helper\n\nclass Foo:\n    """The re-exported class."""\n    def m(self):\n        """A member."""\n',
}

def main() -> int:
    tmp = Path(tempfile.mkdtemp(prefix='c07-1-'))
    os.chdir(tmp)
    for name, text in FILES.items():
        p = tmp / name
        p.parent.mkdir(parents=True, exist_ok=True)
        p.write_text(text)

    # CPython accepts the package, whatever module is imported first.
    for first in ('pkg.a', 'pkg.sub', 'pkg.sub._impl'):
        subprocess.run([sys.executable, '-c',
            f'import {first}, pkg.sub, pkg.a; assert pkg.sub.Foo is pkg.a.Foo; assert pkg.sub.__all__ == ["Foo"]'],
            check=True, cwd=tmp, env={**os.environ, 'PYTHONPATH': str(tmp)})

    from pydoctor import driver
    out = io.StringIO()
    with contextlib.redirect_stdout(out), contextlib.redirect_stderr(out):
        rc = driver.main(['--html-output', str(tmp / 'out'), '--project-name', 'demo', str(tmp / 'pkg')])
    pages = sorted(p.name for p in (tmp / 'out').glob('pkg*.html'))
    new, old = 'pkg.sub.Foo.html', 'pkg.sub._impl.Foo.html'
    if new in pages and old not in pages:
        print('OK: Foo is documented as pkg.sub.Foo only')
        return 0
    print(f"C07 VIOLATED: pkg/sub/__init__.py does 'from ._impl import Foo' and lists 'Foo' in __all__ "
          f"(pkg.sub._impl has no __all__), so class Foo and its method m must be documented as pkg.sub.Foo "
          f"and no longer under pkg.sub._impl. pydoctor (exit code {rc}) wrote the pages {pages}: "
          f"{old} exists and {new} does not. The consumer pkg/a.py ('from pkg.sub._impl import Foo') is analysed "
          f"first; it makes pydoctor enter pkg.sub._impl before pkg.sub; _impl's 'from pkg.sub import helper' then "
          f"processes pkg/sub/__init__.py while _impl has not reached 'class Foo' yet, so the re-export finds "
          f"nothing to move and is silently dropped. 'moving' messages in the log: "
          f"{[l for l in out.getvalue().splitlines() if 'moving' in l]}")
    return 1

if __name__ == '__main__':
    sys.exit(main())
