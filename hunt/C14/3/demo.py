"""
C14 finding 3: a default that is rendered through the astor fallback (conditional expression,
comparison, lambda, comprehension, f-string ...) is cut off with "..." as soon as its source
text is longer than astor's line width: astor wraps the line, the inline colorizer takes the
line break for "too many lines" and truncates.
"""
import ast, contextlib, html, io, os, re, sys, tempfile

SOURCE = '''\
"""Module."""
import os
DEFAULT_CONNECTION_TIMEOUT = 30.0
def connect(host, port=8080, timeout=DEFAULT_CONNECTION_TIMEOUT if os.environ.get('APPLICATION_TIMEOUT') is None else float(os.environ['APPLICATION_TIMEOUT']), *, retries=3):
    """Doc."""
'''

def displayed_signature(htmltext, name):
    start = htmltext.index('<span class="py-defname">%s</span>' % name)
    start = htmltext.index('</span>', start) + len('</span>')
    end = htmltext.index('<a class="headerLink"', start)
    text = html.unescape(re.sub(r'<[^>]*>', '', htmltext[start:end])).strip()
    assert text.endswith(':'), text
    return text[:-1]

def main():
    tmp = tempfile.mkdtemp(prefix='c14-3-')
    os.chdir(tmp)
    with open('mod.py', 'w', encoding='utf-8') as fobj:
        fobj.write(SOURCE)
    from pydoctor import driver
    log = io.StringIO()
    with contextlib.redirect_stdout(log), contextlib.redirect_stderr(log):
        driver.main(['--html-output', 'out', '--project-name', 'demo', 'mod.py'])
    with open(os.path.join('out', 'mod.html'), encoding='utf-8') as fobj:
        shown = displayed_signature(fobj.read(), 'connect')

    func = ast.parse(SOURCE).body[-1]
    written = ast.dump(func.args)
    try:
        readback = ast.dump(ast.parse('def f%s: pass' % shown).body[0].args)
        how = 'its parameters/defaults differ from the source'
    except SyntaxError as e:
        readback = None
        how = 'it is not Python any more (%s)' % e
    if readback != written:
        print('C14 VIOLATED: for the definition\n    %s\npydoctor shows\n    def connect%s\n'
              'Read back, %s: the default of "timeout" (a conditional expression of %d characters) '
              'is cut and ends in "...", so the default shown is not equivalent to the source '
              'expression (a shorter conditional expression such as "a if b else c" is shown in full).'
              % (SOURCE.splitlines()[3], shown, how, len(ast.unparse(func.args.defaults[1]))))
        return 1
    print('property holds: %s' % shown)
    return 0

if __name__ == '__main__':
    sys.exit(main())
