"""
C14 finding 1: a one-element tuple default loses its trailing comma: ``(1,)`` is displayed as ``(1)``.
"""
import ast, contextlib, html, io, os, re, sys, tempfile

SOURCE = '''\
"""Module."""
def f(a, dims=(1,), fmt='%s' % (a,), *, shape: "Tuple[int]" = (0,)):
    """Doc."""
'''

def displayed_signature(htmltext, name):
    start = htmltext.index('<span class="py-defname">%s</span>' % name)
    start = htmltext.index('</span>', start) + len('</span>')
    end = htmltext.index('<a class="headerLink"', start)
    text = html.unescape(re.sub(r'<[^>]*>', '', htmltext[start:end])).strip()
    assert text.endswith(':'), text
    return text[:-1]

def main():
    tmp = tempfile.mkdtemp(prefix='c14-1-')
    os.chdir(tmp)
    with open('mod.py', 'w', encoding='utf-8') as fobj:
        fobj.write(SOURCE)
    from pydoctor import driver
    log = io.StringIO()
    with contextlib.redirect_stdout(log), contextlib.redirect_stderr(log):
        driver.main(['--html-output', 'out', '--project-name', 'demo', 'mod.py'])
    with open(os.path.join('out', 'mod.html'), encoding='utf-8') as fobj:
        shown = displayed_signature(fobj.read(), 'f')

    written = ast.parse(SOURCE).body[1].args
    try:
        readback = ast.parse('def f%s: pass' % shown).body[0].args
    except SyntaxError as e:
        print('C14 VIOLATED: the displayed signature %r is not even Python: %s' % (shown, e))
        return 1

    problems = []
    pairs = list(zip(written.defaults + written.kw_defaults, readback.defaults + readback.kw_defaults))
    for src_default, shown_default in pairs:
        a, b = ast.unparse(src_default), ast.unparse(shown_default)
        if ast.dump(src_default) != ast.dump(shown_default):
            problems.append('source default %s is displayed as %s' % (a, b))
    if problems:
        print('C14 VIOLATED: pydoctor shows "def f%s" for the definition\n    %s\n'
              'Read back as Python the defaults are not the ones written: %s. '
              'A one-element tuple written (1,) is shown as (1), which is the integer 1 '
              '(eval: %r vs %r): the default is not equivalent to the source expression.'
              % (shown, SOURCE.splitlines()[1], '; '.join(problems), eval('(1,)'), eval('(1)')))
        return 1
    print('property holds: %s' % shown)
    return 0

if __name__ == '__main__':
    sys.exit(main())
