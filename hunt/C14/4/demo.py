"""
C14 finding 4: a re.compile() default is re-generated from the parsed regular expression; in a
verbose pattern ((?x)) an escaped blank or an escaped '#' is written back without its escape,
so the pattern that is displayed is a different regular expression.
"""
import ast, contextlib, html, io, os, re, sys, tempfile

SOURCE = '''\
"""Module."""
import re
def split_name(text, pattern=re.compile(r'(?x) (\\w+) \\ (\\w+) \\# (\\d+)')):
    """Doc."""
'''

def displayed_signature(htmltext, name):
    start = htmltext.index('<span class="py-defname">%s</span>' % name)
    start = htmltext.index('</span>', start) + len('</span>')
    end = htmltext.index('<a class="headerLink"', start)
    text = html.unescape(re.sub(r'<[^>]*>', '', htmltext[start:end])).strip()
    assert text.endswith(':'), text
    return text[:-1]

def main():
    tmp = tempfile.mkdtemp(prefix='c14-4-')
    os.chdir(tmp)
    with open('mod.py', 'w', encoding='utf-8') as fobj:
        fobj.write(SOURCE)
    from pydoctor import driver
    log = io.StringIO()
    with contextlib.redirect_stdout(log), contextlib.redirect_stderr(log):
        driver.main(['--html-output', 'out', '--project-name', 'demo', 'mod.py'])
    with open(os.path.join('out', 'mod.html'), encoding='utf-8') as fobj:
        shown = displayed_signature(fobj.read(), 'split_name')

    written_default = ast.parse(SOURCE).body[-1].args.defaults[0]
    shown_default = ast.parse('def f%s: pass' % shown).body[0].args.defaults[0]
    written_src, shown_src = ast.unparse(written_default), ast.unparse(shown_default)
    # the interpreter is the judge: evaluate both expressions and use them
    written_re = eval(written_src, {'re': re})
    try:
        shown_re = eval(shown_src, {'re': re})
    except re.error as e:
        print('C14 VIOLATED: displayed default %s does not compile: %s' % (shown_src, e))
        return 1
    subject = 'John Smith#42'
    a, b = written_re.match(subject), shown_re.match(subject)
    if (a is None) != (b is None) or (a and a.groups() != b.groups()):
        print('C14 VIOLATED: pydoctor shows "def split_name%s" for the definition\n    %s\n'
              'The default of "pattern" read back as Python is %s, the source has %s. They are '
              'different regular expressions: on %r the source pattern gives %r, the displayed '
              'one gives %r. In the verbose pattern the escaped blank "\\ " and the escaped "\\#" '
              'are displayed as a bare " " and "#", which (?x) ignores / takes as a comment, '
              'so the default is not equivalent to the source expression.'
              % (shown, SOURCE.splitlines()[2], shown_src, written_src, subject,
                 a and a.groups(), b and b.groups()))
        return 1
    print('property holds: %s' % shown)
    return 0

if __name__ == '__main__':
    sys.exit(main())
