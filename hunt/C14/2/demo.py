"""
C14 finding 2: a string default that contains a no-break space (U+00A0) makes the whole
signature unparsable for html2stan; the documentation shows "(...)" instead of the parameters.
"""
import ast, contextlib, html, io, os, re, sys, tempfile

SOURCE = '''\
"""Module."""
def join_words(words, count: int = 0, *, sep='\\xa0') -> str:
    """Doc."""
'''

def displayed_signature(htmltext, name):
    start = htmltext.index('<span class="py-defname">%s</span>' % name)
    start = htmltext.index('</span>', start) + len('</span>')
    end = htmltext.index('<a class="headerLink"', start)
    text = html.unescape(re.sub(r'<[^>]*>', '', htmltext[start:end])).strip()
    assert text.endswith(':'), text
    return text[:-1]

def main():
    tmp = tempfile.mkdtemp(prefix='c14-2-')
    os.chdir(tmp)
    with open('mod.py', 'w', encoding='utf-8') as fobj:
        fobj.write(SOURCE)
    from pydoctor import driver
    log = io.StringIO()
    with contextlib.redirect_stdout(log), contextlib.redirect_stderr(log):
        driver.main(['--html-output', 'out', '--project-name', 'demo', 'mod.py'])
    with open(os.path.join('out', 'mod.html'), encoding='utf-8') as fobj:
        shown = displayed_signature(fobj.read(), 'join_words')
    warnings = [l for l in log.getvalue().splitlines() if 'bad signature' in l]

    func = ast.parse(SOURCE).body[1]
    written = ast.dump(func.args) + ' -> ' + ast.dump(func.returns)
    try:
        got = ast.parse('def f%s: pass' % shown).body[0]
        readback = ast.dump(got.args) + ' -> ' + (ast.dump(got.returns) if got.returns else 'nothing')
    except SyntaxError as e:
        readback = 'not Python (%s)' % e
    if readback != written:
        print('C14 VIOLATED: for the definition\n    %s\npydoctor shows "def join_words%s": '
              'none of the parameters (words, count: int = 0, *, sep=\'\\xa0\') nor the "-> str" '
              'is displayed, the signature read back is %s. pydoctor reported: %s. '
              'The only unusual thing in the input is the no-break space in the default of sep.'
              % (SOURCE.splitlines()[1], shown, readback, warnings))
        return 1
    print('property holds: %s' % shown)
    return 0

if __name__ == '__main__':
    sys.exit(main())
