"""
C17 finding 2: one line of a remote inventory that is not valid UTF-8 (here: the Latin-1
encoded title of a non-Python 'std:label' entry) makes pydoctor drop every other line
of the same file.

Run as:  cd /tmp && PYTHONPATH=/tmp/hunt-C17 /venv/bin/python /tmp/hunt-C17/found/2/demo.py
"""
import contextlib
import http.server
import io
import os
import sys
import tempfile
import threading
import zlib
from pathlib import Path

tmp = Path(tempfile.mkdtemp(prefix='c17-found2-'))
os.chdir(tmp)

from pydoctor import driver  # noqa: E402

HEADER = (b"# Sphinx inventory version 2\n# Project: ext\n# Version: 1.0\n"
          b"# The rest of this file is compressed with zlib.\n")

good_lines = [
    b"ext.mod py:module 0 ext.mod.html -\n",
    b"ext.mod.func py:function 1 ext.mod.html#func -\n",
    b"ext.mod.Klass py:class 1 ext.mod.Klass.html -\n",
]
# A non-Python line whose display name was written in Latin-1 instead of UTF-8:
# b'\xe9' alone is not valid UTF-8.
bad_line = "intro std:label -1 index.html#intro Pr\xe9sentation g\xe9n\xe9rale\n".encode('latin-1')

served = {
    '/good/objects.inv': HEADER + zlib.compress(b"".join(good_lines)),
    '/bad/objects.inv': HEADER + zlib.compress(good_lines[0] + good_lines[1] + bad_line + good_lines[2]),
}


class Handler(http.server.BaseHTTPRequestHandler):
    def do_GET(self):
        data = served.get(self.path)
        if data is None:
            self.send_error(404)
            return
        self.send_response(200)
        self.send_header('Content-Type', 'application/octet-stream')
        self.send_header('Content-Length', str(len(data)))
        self.end_headers()
        self.wfile.write(data)

    def log_message(self, *a):
        pass


server = http.server.ThreadingHTTPServer(('127.0.0.1', 0), Handler)
threading.Thread(target=server.serve_forever, daemon=True).start()
port = server.server_address[1]

src = tmp / 'src' / 'mypkg'
src.mkdir(parents=True)
(src / '__init__.py').write_text('"""See L{ext.mod.func} and L{ext.mod.Klass}."""\n')


def run(which):
    out = tmp / ('out-' + which)
    buf = io.StringIO()
    with contextlib.redirect_stdout(buf), contextlib.redirect_stderr(buf):
        code = driver.main([
            '--html-output', str(out), '--project-name', 'mypkg',
            '--disable-intersphinx-cache',
            '--intersphinx', 'http://127.0.0.1:%d/%s/objects.inv' % (port, which),
            str(src)])
    page = (out / 'index.html').read_text()
    base = 'http://127.0.0.1:%d/%s/' % (port, which)
    return code, buf.getvalue(), [base + 'ext.mod.html#func' in page, base + 'ext.mod.Klass.html' in page]


code_good, log_good, linked_good = run('good')
code_bad, log_bad, linked_bad = run('bad')
server.shutdown()

reports = [l for l in log_bad.splitlines() if 'inventory' in l.lower() or 'ext.mod' in l]
print("clean inventory            : exit code %s, [func, Klass] linked: %s" % (code_good, linked_good))
print("one Latin-1 std:label line : exit code %s, [func, Klass] linked: %s" % (code_bad, linked_bad))
print("messages of the second run:", reports)

if not all(linked_good):
    print("UNEXPECTED: the clean inventory did not resolve either; demo is inconclusive")
    sys.exit(0)
if not all(linked_bad):
    print(
        "\nPROPERTY C17 VIOLATED: the inventory has three well-formed py: lines (ext.mod, ext.mod.func, "
        "ext.mod.Klass) and ONE malformed non-Python line, a std:label whose title is Latin-1 encoded "
        "(b'Pr\\xe9sentation ...'). The property demands that the unusable part is reported and skipped and "
        "that the usable lines of the same file still resolve; instead pydoctor reports 'Failed to decode "
        "inventory' and throws the whole file away: neither L{ext.mod.func} nor L{ext.mod.Klass} is "
        "linked (linked: %s), although both lines are plain ASCII and sit next to the bad one "
        "(SphinxInventory._getPayload decodes the whole payload with a strict .decode('utf-8'))." % (linked_bad,))
    sys.exit(1)
print("property holds")
sys.exit(0)
