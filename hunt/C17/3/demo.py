"""
C17 finding 3: a documented module whose file name contains blanks and a number
("utils copy 2.py", the name a file manager gives to a duplicated file) gets an
objects.inv line that neither pydoctor's reader nor Sphinx can read back: the
module is visible, has its own HTML page, but has no inventory entry.

Run as:  cd /tmp && PYTHONPATH=/tmp/hunt-C17 /venv/bin/python /tmp/hunt-C17/found/3/demo.py
"""
import contextlib
import io
import os
import sys
import tempfile
import zlib
from pathlib import Path

tmp = Path(tempfile.mkdtemp(prefix='c17-found3-'))
os.chdir(tmp)

from pydoctor import driver  # noqa: E402
from pydoctor.sphinx import SphinxInventory  # noqa: E402

pkg = tmp / 'src' / 'pkg'
pkg.mkdir(parents=True)
(pkg / '__init__.py').write_text('"""A package."""\n')
(pkg / 'utils.py').write_text('"""Utilities."""\ndef helper():\n    """Help."""\n')
# what "duplicate" in a file manager leaves behind; pydoctor documents it as module 'pkg.utils copy 2'
(pkg / 'utils copy 2.py').write_text('"""Utilities, second copy."""\ndef helper():\n    """Help."""\n')

out = tmp / 'out'
buf = io.StringIO()
with contextlib.redirect_stdout(buf), contextlib.redirect_stderr(buf):
    code = driver.main(['--html-output', str(out), '--project-name', 'pkg', str(pkg)])

name = 'pkg.utils copy 2'
page = out / 'pkg.utils copy 2.html'
raw = (out / 'objects.inv').read_bytes()
payload = zlib.decompress(raw.split(b'\n', 4)[4]).decode()
line = [l for l in payload.splitlines() if l.startswith(name + ' ')][0]


class FileCache:
    def get(self, url):
        return raw

    def close(self):
        pass


messages = []
inv = SphinxInventory(logger=lambda section, msg, **kw: messages.append(msg))
inv.update(FileCache(), 'http://example.org/api/objects.inv')

sphinx_names = None
try:
    from sphinx.util.inventory import InventoryFile
    import posixpath
    loaded = InventoryFile.load(io.BytesIO(raw), 'http://example.org/api', posixpath.join)
    sphinx_names = {n for typ in loaded for n in loaded[typ]}
except ImportError:
    pass

print("pydoctor exit code:", code)
print("HTML page of the module written:", page.exists())
print("inventory line written for it: %r" % line)
print("pydoctor reader: getLink(%r) = %r ; getLink('pkg.utils') = %r ; getLink('pkg.utils copy 2.helper') = %r"
      % (name, inv.getLink(name), inv.getLink('pkg.utils'), inv.getLink(name + '.helper')))
print("pydoctor reader messages:", messages)
if sphinx_names is not None:
    print("Sphinx reader: %r present: %s ; all names: %s" % (name, name in sphinx_names, sorted(sphinx_names)))

failed = inv.getLink(name) is None or (sphinx_names is not None and name not in sphinx_names)
if page.exists() and failed:
    print(
        "\nPROPERTY C17 VIOLATED: module %r is visible and documented (page %r exists), its members and "
        "its sibling 'pkg.utils copy'-style names with blanks round-trip, but the module itself has NO entry "
        "when objects.inv is read back - neither by pydoctor's own reader (getLink -> None, and nothing "
        "is reported) nor by Sphinx. The written line %r is split at blanks by both readers, which take "
        "the first integer token after the second column - the '2' of the NAME - for the priority column, "
        "so the line is read as name 'pkg.utils', type 'copy' and dropped as a non-Python entry. The "
        "property demands exactly one entry per visible documented object." % (name, page.name, line))
    sys.exit(1)
print("property holds")
sys.exit(0)
