"""
C17 finding 1: a remote inventory whose compressed body is truncated (download cut short)
loses ALL of its entries, including the complete lines that precede the cut.

Run as:  cd /tmp && PYTHONPATH=/tmp/hunt-C17 /venv/bin/python /tmp/hunt-C17/found/1/demo.py
"""
import contextlib
import http.server
import io
import os
import random
import sys
import tempfile
import threading
import zlib
from pathlib import Path

tmp = Path(tempfile.mkdtemp(prefix='c17-found1-'))
os.chdir(tmp)

from pydoctor import driver  # noqa: E402

HEADER = (b"# Sphinx inventory version 2\n# Project: ext\n# Version: 1.0\n"
          b"# The rest of this file is compressed with zlib.\n")

# A valid inventory of an external project: 'ext.first.func' is the very first line,
# followed by 3000 other perfectly valid py: lines.
rnd = random.Random(17)
lines = [b"ext.first.func py:function 1 ext.first.html#func -\n"]
for i in range(3000):
    lines.append(b"ext.mod%d.obj%d py:function 1 ext.mod%d.html#obj%d -\n"
                 % (i, rnd.randrange(10 ** 6), i, rnd.randrange(10 ** 6)))
body = b"".join(lines)
compressed = zlib.compress(body)
complete_inventory = HEADER + compressed
# The download is cut short: the last 40% of the compressed stream is missing.
truncated_inventory = HEADER + compressed[: len(compressed) * 6 // 10]

# What a streaming decompressor still recovers from the truncated file:
recovered = zlib.decompressobj().decompress(truncated_inventory[len(HEADER):])
recovered_lines = recovered.split(b"\n")[:-1]   # drop the possibly partial last line
assert lines[0].rstrip(b"\n") == recovered_lines[0], "first line must be recoverable"

served = {'/good/objects.inv': complete_inventory, '/cut/objects.inv': truncated_inventory}


class Handler(http.server.BaseHTTPRequestHandler):
    def do_GET(self):
        data = served.get(self.path)
        if data is None:
            self.send_error(404)
            return
        self.send_response(200)
        self.send_header('Content-Type', 'application/octet-stream')
        self.send_header('Content-Length', str(len(data)))
        self.end_headers()
        self.wfile.write(data)

    def log_message(self, *a):
        pass


server = http.server.ThreadingHTTPServer(('127.0.0.1', 0), Handler)
threading.Thread(target=server.serve_forever, daemon=True).start()
port = server.server_address[1]

src = tmp / 'src' / 'mypkg'
src.mkdir(parents=True)
(src / '__init__.py').write_text('"""See L{ext.first.func}."""\n')


def run(which):
    out = tmp / ('out-' + which)
    buf = io.StringIO()
    with contextlib.redirect_stdout(buf), contextlib.redirect_stderr(buf):
        code = driver.main([
            '--html-output', str(out), '--project-name', 'mypkg',
            '--disable-intersphinx-cache',
            '--intersphinx', 'http://127.0.0.1:%d/%s/objects.inv' % (port, which),
            str(src)])
    page = (out / 'index.html').read_text()
    return code, buf.getvalue(), ('http://127.0.0.1:%d/%s/ext.first.html#func' % (port, which)) in page


code_good, log_good, linked_good = run('good')
code_cut, log_cut, linked_cut = run('cut')
server.shutdown()

reports = [l for l in log_cut.splitlines() if 'inventory' in l.lower() or 'ext.first' in l]
print("complete inventory : exit code %s, L{ext.first.func} linked: %s" % (code_good, linked_good))
print("truncated inventory: exit code %s, L{ext.first.func} linked: %s" % (code_cut, linked_cut))
print("messages of the truncated run:", reports)
print("complete lines still present in the truncated file: %d of %d (the first one is %r)"
      % (len(recovered_lines), len(lines), recovered_lines[0].decode()))

if not linked_good:
    print("UNEXPECTED: the complete inventory did not resolve either; demo is inconclusive")
    sys.exit(0)
if not linked_cut:
    print(
        "\nPROPERTY C17 VIOLATED: the remote inventory was truncated (only the last 40%% of the "
        "compressed stream is missing). %d complete, well-formed py: lines are still in the file - among "
        "them the first one, 'ext.first.func py:function 1 ext.first.html#func -' - yet pydoctor "
        "reports 'Failed to uncompress inventory' and drops the whole file: L{ext.first.func} is not "
        "linked, whereas the property demands that the unusable part is reported and skipped and "
        "that the usable lines of the same file still resolve (SphinxInventory._getPayload uses the "
        "all-or-nothing zlib.decompress())." % len(recovered_lines))
    sys.exit(1)
print("property holds")
sys.exit(0)
