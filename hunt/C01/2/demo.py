"""C01 demo 2: a string annotation that ast.parse() rejects with something else than SyntaxError aborts the run.

Run as:  cd /tmp && PYTHONPATH=/tmp/hunt-C01 /venv/bin/python /tmp/hunt-C01/found/2/demo.py
"""
import contextlib
import io
import os
import sys
import tempfile
import traceback

VARIANTS = {
    # name -> source of pkg/mod.py (each one is compiled by CPython without complaint)
    'lone surrogate (UnicodeEncodeError)':
        'def f(a: "\\ud800"):\n    """Doc."""\n',
    'over-nested unary minus (MemoryError from the parser)':
        'def f(a: "' + '-' * 10000 + '1"):\n    """Doc."""\n',
    'very long union (RecursionError during ast construction)':
        'X: "' + ' | '.join(['int'] * 5000) + '" = 1\n',
}


def run_variant(label: str, source: str) -> str:
    """Return '' when the property holds, else a description of the failure."""
    tmp = tempfile.mkdtemp(prefix='c01-demo2-')
    os.chdir(tmp)   # no setup.cfg / pyproject.toml is picked up from here
    os.mkdir('pkg')
    with open('pkg/__init__.py', 'w') as f:
        f.write('"""A package."""\n')
    with open('pkg/other.py', 'w') as f:
        f.write('"""An ordinary module."""\ndef ok():\n    """Fine."""\n')
    with open('pkg/mod.py', 'w') as f:
        f.write(source)
    compile(source, 'mod.py', 'exec')   # valid Python: the interpreter is the judge

    from pydoctor import driver
    out = os.path.join(tmp, 'out')
    buf = io.StringIO()
    try:
        with contextlib.redirect_stdout(buf), contextlib.redirect_stderr(buf):
            rc = driver.main(['--html-output', out, os.path.join(tmp, 'pkg')])
    except SystemExit as e:
        return f'[{label}] SystemExit({e.code!r})'
    except BaseException as e:
        tb = [l.strip() for l in traceback.format_exc().splitlines()]
        where = [l for l in tb if l.startswith('File') and 'pydoctor' in l][-2:]
        return (f'[{label}] uncaught {type(e).__name__}: {str(e)[:100]} (at {" <- ".join(reversed(where))}); '
                f'index.html written: {os.path.exists(os.path.join(out, "index.html"))}, '
                f'page of pkg.other written: {os.path.exists(os.path.join(out, "pkg.other.html"))}')
    missing = [n for n in ('index.html', 'pkg.mod.html', 'pkg.other.html', 'objects.inv', 'searchindex.json')
               if not os.path.exists(os.path.join(out, n))]
    if rc not in (0, 2, 3) or missing:
        return f'[{label}] exit status {rc!r}, missing output files {missing}'
    return ''


def main() -> int:
    failures = [msg for msg in (run_variant(k, v) for k, v in VARIANTS.items()) if msg]
    if failures:
        print('PROPERTY C01 VIOLATED: each of these modules is valid Python (compile() accepts it) whose only '
              'oddity is the TEXT of a string annotation; a bad string annotation is supposed to be reported as '
              '"syntax error in annotation" on the file, but here the run is aborted by an uncaught exception and '
              'no page, search index or inventory is written for any module. Expected exit status 0, 2 or 3. Observed: '
              + ' ;; '.join(failures))
        return 1
    print('property holds on these inputs')
    return 0


if __name__ == '__main__':
    sys.exit(main())
