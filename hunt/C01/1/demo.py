"""C01 demo 1: a long (but perfectly legal) chain of binary operators aborts the run with RecursionError.

Run as:  cd /tmp && PYTHONPATH=/tmp/hunt-C01 /venv/bin/python /tmp/hunt-C01/found/1/demo.py
"""
import contextlib
import io
import os
import sys
import tempfile
import traceback

N_TERMS = 400   # CPython compiles and runs this; pydoctor starts failing at about 327 terms


def main() -> int:
    tmp = tempfile.mkdtemp(prefix='c01-demo1-')
    os.chdir(tmp)   # no setup.cfg / pyproject.toml is picked up from here
    os.mkdir('pkg')
    with open('pkg/__init__.py', 'w') as f:
        f.write('"""A package."""\n')
    with open('pkg/other.py', 'w') as f:
        f.write('"""An ordinary module."""\ndef ok():\n    """Fine."""\n')
    source = ('"""A module with one long sum."""\n'
              'TOTAL = ' + ' + '.join(['1'] * N_TERMS) + '\n')
    with open('pkg/longsum.py', 'w') as f:
        f.write(source)

    # The interpreter is happy with this module.
    ns: dict = {}
    exec(compile(source, 'longsum.py', 'exec'), ns)
    assert ns['TOTAL'] == N_TERMS

    from pydoctor import driver
    out = os.path.join(tmp, 'out')
    buf = io.StringIO()
    try:
        with contextlib.redirect_stdout(buf), contextlib.redirect_stderr(buf):
            rc = driver.main(['--html-output', out, '--docformat', 'epytext',
                              os.path.join(tmp, 'pkg')])
    except SystemExit as e:
        print(f'PROPERTY C01 VIOLATED: pydoctor exited through SystemExit({e.code!r}) on a valid source tree.\n'
              + buf.getvalue()[-500:])
        return 1
    except BaseException as e:
        tb = traceback.format_exc().splitlines()
        print(f'PROPERTY C01 VIOLATED: pkg/longsum.py is valid Python (CPython compiled and executed it: '
              f'TOTAL = 1 + 1 + ... with {N_TERMS} terms), yet driver.main() did not finish the run: it let an '
              f'uncaught {type(e).__name__} ({e}) escape while analysing the module, so no HTML page, search index '
              f'or objects.inv was written for ANY module of the package (out/index.html exists: '
              f'{os.path.exists(os.path.join(out, "index.html"))}, out/objects.inv exists: '
              f'{os.path.exists(os.path.join(out, "objects.inv"))}). Expected: exit status 0, 2 or 3 with all pages written. '
              f'Innermost frames: ' + ' | '.join(l.strip() for l in tb[-7:]))
        return 1

    missing = [n for n in ('index.html', 'pkg.longsum.html', 'pkg.other.html', 'objects.inv', 'searchindex.json')
               if not os.path.exists(os.path.join(out, n))]
    if rc not in (0, 2, 3) or missing:
        print(f'PROPERTY C01 VIOLATED: exit status {rc!r}, missing output files: {missing}')
        return 1
    print(f'property holds on this input: exit status {rc}, all pages written')
    return 0


if __name__ == '__main__':
    sys.exit(main())
