"""C01 demo 4: a class that is re-exported (moved) by another module while its body is still being visited,
and that continues an overloaded method after the move, aborts the run with an AssertionError.

Run as:  cd /tmp && PYTHONPATH=/tmp/hunt-C01 /venv/bin/python /tmp/hunt-C01/found/4/demo.py
"""
import contextlib
import io
import os
import sys
import tempfile
import traceback

FILES = {
    'pkg/__init__.py': '"""A package."""\n',
    'pkg/_shapes.py':
        '"""Private implementation module (analysed before pkg.api: modules are taken in sorted order)."""\n'
        'from typing import overload\n'
        '\n'
        'class Shape:\n'
        '    """A shape."""\n'
        '    @overload\n'
        '    def scale(self, factor: int) -> "Shape": ...\n'
        '    from pkg.api import describe      # an import in a class body binds a class attribute\n'
        '    @overload\n'
        '    def scale(self, factor: float) -> "Shape": ...\n'
        '    def scale(self, factor):\n'
        '        """Scale the shape."""\n'
        '        return self\n',
    'pkg/api.py':
        '"""The public API: re-exports Shape."""\n'
        'from pkg._shapes import Shape\n'
        '__all__ = ["Shape", "describe"]\n'
        'def describe(obj):\n'
        '    """Describe something."""\n',
}


def main() -> int:
    tmp = tempfile.mkdtemp(prefix='c01-demo4-')
    os.chdir(tmp)   # no setup.cfg / pyproject.toml is picked up from here
    os.mkdir('pkg')
    for name, text in FILES.items():
        with open(name, 'w') as f:
            f.write(text)
        compile(text, name, 'exec')   # every file is syntactically valid Python

    from pydoctor import driver
    out = os.path.join(tmp, 'out')
    buf = io.StringIO()
    try:
        with contextlib.redirect_stdout(buf), contextlib.redirect_stderr(buf):
            rc = driver.main(['--html-output', out, os.path.join(tmp, 'pkg')])
    except SystemExit as e:
        print(f'PROPERTY C01 VIOLATED: SystemExit({e.code!r}) on a valid source tree.\n' + buf.getvalue()[-500:])
        return 1
    except BaseException as e:
        tb = [l.strip() for l in traceback.format_exc().splitlines()]
        print('PROPERTY C01 VIOLATED: pkg/_shapes.py and pkg/api.py are syntactically valid Python using only ordinary '
              'constructs (typing.overload, an import statement in a class body, __all__). While the body of class Shape is '
              'visited, "from pkg.api import describe" makes pydoctor analyse pkg.api, whose __all__ re-exports Shape and '
              'therefore MOVES the half-built class into pkg.api; back in pkg/_shapes.py the next definition of the overloaded '
              f'method re-enters the existing Function and pydoctor dies: uncaught {type(e).__name__} at: '
              + ' | '.join(tb[-6:-1]) +
              f'. Nothing was rendered (index.html written: {os.path.exists(os.path.join(out, "index.html"))}, '
              f'objects.inv written: {os.path.exists(os.path.join(out, "objects.inv"))}). '
              'Expected: exit status 0, 2 or 3 with all pages written.')
        return 1
    missing = [n for n in ('index.html', 'pkg._shapes.html', 'pkg.api.html', 'objects.inv', 'searchindex.json')
               if not os.path.exists(os.path.join(out, n))]
    if rc not in (0, 2, 3) or missing:
        print(f'PROPERTY C01 VIOLATED: exit status {rc!r}, missing output files {missing}')
        return 1
    print(f'property holds on this input: exit status {rc}, all pages written')
    return 0


if __name__ == '__main__':
    sys.exit(main())
