"""C01 demo 3: assigning to the __doc__ of ANOTHER module that has not been analysed yet aborts the run.

Run as:  cd /tmp && PYTHONPATH=/tmp/hunt-C01 /venv/bin/python /tmp/hunt-C01/found/3/demo.py
"""
import contextlib
import io
import os
import sys
import tempfile
import traceback


def main() -> int:
    tmp = tempfile.mkdtemp(prefix='c01-demo3-')
    os.chdir(tmp)   # no setup.cfg / pyproject.toml is picked up from here
    os.mkdir('pkg')
    files = {
        'pkg/__init__.py': '"""A package."""\n',
        # 'a' is analysed before 'b' (alphabetical order); 'import' does not trigger the analysis of pkg.b.
        'pkg/a.py': '"""Module a."""\n'
                    'import pkg.b\n'
                    'pkg.b.__doc__ = "Documentation of b, provided by a."\n',
        'pkg/b.py': 'def helper():\n    """Help."""\n',
    }
    for name, text in files.items():
        with open(name, 'w') as f:
            f.write(text)
        compile(text, name, 'exec')   # all three files are valid Python

    from pydoctor import driver
    out = os.path.join(tmp, 'out')
    buf = io.StringIO()
    try:
        with contextlib.redirect_stdout(buf), contextlib.redirect_stderr(buf):
            rc = driver.main(['--html-output', out, os.path.join(tmp, 'pkg')])
    except SystemExit as e:
        print(f'PROPERTY C01 VIOLATED: SystemExit({e.code!r}) on a valid source tree.\n' + buf.getvalue()[-500:])
        return 1
    except BaseException as e:
        tb = [l.strip() for l in traceback.format_exc().splitlines()]
        print('PROPERTY C01 VIOLATED: the tree pkg/{__init__,a,b}.py is valid Python; pkg/a.py only does '
              '"import pkg.b; pkg.b.__doc__ = \'...\'" (it documents its sibling). pydoctor stores that text on the not yet '
              'analysed module pkg.b and, when pkg.b is analysed afterwards, dies on an internal assertion instead of finishing: '
              f'uncaught {type(e).__name__} at: ' + ' | '.join(tb[-4:-1]) +
              f'. Nothing was rendered (index.html written: {os.path.exists(os.path.join(out, "index.html"))}, '
              f'objects.inv written: {os.path.exists(os.path.join(out, "objects.inv"))}). '
              'Expected: exit status 0, 2 or 3 with the pages of pkg, pkg.a and pkg.b written.')
        return 1
    missing = [n for n in ('index.html', 'pkg.a.html', 'pkg.b.html', 'objects.inv', 'searchindex.json')
               if not os.path.exists(os.path.join(out, n))]
    if rc not in (0, 2, 3) or missing:
        print(f'PROPERTY C01 VIOLATED: exit status {rc!r}, missing output files {missing}')
        return 1
    print(f'property holds on this input: exit status {rc}, all pages written')
    return 0


if __name__ == '__main__':
    sys.exit(main())
