"""
C11 demo: the body of a @type field of a module docstring is rendered (and its HTML cached) on the
page of the module that carries the docstring; the variable it describes has been moved to another
module by a re-export, and its page re-uses the cached HTML: the link '#helper', shortened for the
first page, is dead on the second one.
"""
import os, sys, tempfile, io, contextlib
from pathlib import Path
from html.parser import HTMLParser
from urllib.parse import urlsplit, unquote


class P(HTMLParser):
    def __init__(self):
        super().__init__()
        self.anchors, self.links = set(), []
    def handle_starttag(self, tag, attrs):
        d = dict(attrs)
        if d.get('id'):
            self.anchors.add(d['id'])
        if tag == 'a' and d.get('name'):
            self.anchors.add(d['name'])
        if tag == 'a' and d.get('href'):
            self.links.append(d['href'])


def parse(path):
    p = P()
    p.feed(path.read_text(encoding='utf-8'))
    return p


def dead_links(out):
    pages = {p.name: parse(p) for p in out.glob('*.html')}
    dead = []
    for name, page in sorted(pages.items()):
        for href in page.links:
            u = urlsplit(href)
            if u.scheme or u.netloc:
                continue
            target = unquote(u.path) or name
            if not (out / target).exists():
                dead.append((name, href, 'no such file'))
            elif u.fragment and target in pages and unquote(u.fragment) not in pages[target].anchors:
                dead.append((name, href, 'no such anchor in ' + target))
    return dead


def main():
    tmp = Path(tempfile.mkdtemp(prefix='c11-demo1-'))
    os.chdir(tmp)
    pkg = tmp / 'pkg'
    pkg.mkdir()
    (pkg / '__init__.py').write_text('"The package."\n')
    (pkg / 'a.py').write_text(
        '"""\n'
        'Module a.\n'
        '\n'
        '@var x: The x.\n'
        '@type x: what L{helper} returns\n'
        '"""\n'
        'def helper():\n'
        '    "Make an x."\n'
        'x = helper()\n')
    (pkg / 'b.py').write_text(
        '"""\n'
        'Module b, the public home of x.\n'
        '"""\n'
        'from .a import x\n'
        "__all__ = ['x']\n")
    from pydoctor import driver
    out = tmp / 'out'
    buf = io.StringIO()
    with contextlib.redirect_stdout(buf), contextlib.redirect_stderr(buf):
        driver.main(['--html-output', str(out), '--project-base-dir', str(tmp), str(pkg)])
    dead = dead_links(out)
    if dead:
        print("C11 VIOLATED: pkg/a.py documents its variable x with '@type x: what L{helper} returns' "
              "(helper is a function of pkg.a), pkg/b.py re-exports x (from .a import x; __all__ = ['x']), "
              "so x is documented on pkg.b.html. The type shown there links to '#helper', an anchor that only "
              "exists on pkg.a.html: the field body was rendered first for the docstring of pkg.a (link shortened "
              "for pkg.a.html) and ParsedDocstring.to_stan() handed the cached HTML to the page of pkg.b. "
              "Dead links: %r" % (dead,))
        sys.exit(1)
    print("no dead link found")


if __name__ == '__main__':
    main()
