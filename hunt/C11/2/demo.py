"""
C11 demo: when the HTML of a docstring cannot be turned into a stan tree (docutils writes '&nbsp;',
which the XML parser used by html2stan() does not know), the docstring is shown as plain text, without
its section headings - but the sidebar still builds the table of contents from the docutils tree and
links to '#rst-<section id>' anchors that are nowhere on the page.
"""
import os, sys, tempfile, io, contextlib
from pathlib import Path
from html.parser import HTMLParser
from urllib.parse import urlsplit, unquote


class P(HTMLParser):
    def __init__(self):
        super().__init__()
        self.anchors, self.links = set(), []
    def handle_starttag(self, tag, attrs):
        d = dict(attrs)
        if d.get('id'):
            self.anchors.add(d['id'])
        if tag == 'a' and d.get('name'):
            self.anchors.add(d['name'])
        if tag == 'a' and d.get('href'):
            self.links.append(d['href'])


def parse(path):
    p = P()
    p.feed(path.read_text(encoding='utf-8'))
    return p


def dead_links(out):
    pages = {p.name: parse(p) for p in out.glob('*.html')}
    dead = []
    for name, page in sorted(pages.items()):
        for href in page.links:
            u = urlsplit(href)
            if u.scheme or u.netloc:
                continue
            target = unquote(u.path) or name
            if not (out / target).exists():
                dead.append((name, href, 'no such file'))
            elif u.fragment and target in pages and unquote(u.fragment) not in pages[target].anchors:
                dead.append((name, href, 'no such anchor in ' + target))
    return dead


CASES = {
    # a reStructuredText option list with a long option: html4css1 writes '<td>&nbsp;</td>'
    'rst-option-list': (
        '"""\n'
        'Command line tool.\n'
        '\n'
        'Usage\n'
        '=====\n'
        '\n'
        '-v                        be verbose\n'
        '--output-directory=DIR    where the files go\n'
        '\n'
        'Details\n'
        '=======\n'
        '\n'
        'Some more text.\n'
        '"""\n'
        '__docformat__ = "restructuredtext"\n'
        'class Tool:\n'
        '    "The tool."\n'),
    # epytext, a no-break space (U+00A0) in the text: docutils writes it as '&nbsp;'
    'epytext-no-break-space': (
        '"""\n'
        'Command line tool.\n'
        '\n'
        'Usage\n'
        '=====\n'
        '\n'
        'Needs 10\u00a0MB of memory.\n'
        '\n'
        'Details\n'
        '=======\n'
        '\n'
        'Some more text.\n'
        '"""\n'
        'class Tool:\n'
        '    "The tool."\n'),
}


def main():
    tmp = Path(tempfile.mkdtemp(prefix='c11-demo2-'))
    os.chdir(tmp)
    from pydoctor import driver
    failures = []
    for case, source in CASES.items():
        src = tmp / case
        src.mkdir()
        (src / 'tool.py').write_text(source, encoding='utf-8')
        out = tmp / (case + '-out')
        buf = io.StringIO()
        with contextlib.redirect_stdout(buf), contextlib.redirect_stderr(buf):
            driver.main(['--html-output', str(out), '--project-base-dir', str(src), str(src / 'tool.py')])
        dead = dead_links(out)
        if dead:
            failures.append((case, dead))
    if failures:
        print("C11 VIOLATED: the module docstring of tool.py has two sections (Usage, Details) and a body whose "
              "HTML contains '&nbsp;' (a long option in a reStructuredText option list; a no-break space in an "
              "epytext paragraph). html2stan() fails on the unknown entity, so format_docstring() falls back to the "
              "plain text of the docstring and no section anchor is written - yet the sidebar of the page lists "
              "the sections and links to '#rst-usage' and '#rst-details', anchors that do not exist on the page. "
              "Dead links per case: %r" % (failures,))
        sys.exit(1)
    print("no dead link found")


if __name__ == '__main__':
    main()
