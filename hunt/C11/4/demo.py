"""
C11 demo: a reStructuredText label placed before a code example (a doctest block, '.. code-block:: python'
or '.. code::') is attached by docutils to the node of the example, but pydoctor's
HTMLTranslator.visit_doctest_block() writes the colorized example without the ids of the node:
the reference to the label is a link to an anchor that is not on the page.
"""
import os, sys, tempfile, io, contextlib
from pathlib import Path
from html.parser import HTMLParser
from urllib.parse import urlsplit, unquote


class P(HTMLParser):
    def __init__(self):
        super().__init__()
        self.anchors, self.links = set(), []
    def handle_starttag(self, tag, attrs):
        d = dict(attrs)
        if d.get('id'):
            self.anchors.add(d['id'])
        if tag == 'a' and d.get('name'):
            self.anchors.add(d['name'])
        if tag == 'a' and d.get('href'):
            self.links.append(d['href'])


def parse(path):
    p = P()
    p.feed(path.read_text(encoding='utf-8'))
    return p


def dead_links(out):
    pages = {p.name: parse(p) for p in out.glob('*.html')}
    dead = []
    for name, page in sorted(pages.items()):
        for href in page.links:
            u = urlsplit(href)
            if u.scheme or u.netloc:
                continue
            target = unquote(u.path) or name
            if not (out / target).exists():
                dead.append((name, href, 'no such file'))
            elif u.fragment and target in pages and unquote(u.fragment) not in pages[target].anchors:
                dead.append((name, href, 'no such anchor in ' + target))
    return dead



SOURCE = (
    '__docformat__ = "restructuredtext"\n'
    '\n'
    'def connect(host):\n'
    '    """\n'
    '    Open a connection.\n'
    '\n'
    '    See the example_ and the `longer example`_ below (not in the first sentence: the summary has no link).\n'
    '\n'
    '    .. _example:\n'
    '\n'
    '    >>> connect("localhost")\n'
    '    <Connection>\n'
    '\n'
    '    .. _longer example:\n'
    '\n'
    '    .. code-block:: python\n'
    '\n'
    '       with connect("localhost") as c:\n'
    '           c.send(b"x")\n'
    '\n'
    '    .. _closing:\n'
    '\n'
    '    Do not forget closing_ the connection (this label precedes a paragraph and works).\n'
    '    """\n')


def main():
    tmp = Path(tempfile.mkdtemp(prefix='c11-demo4-'))
    os.chdir(tmp)
    from pydoctor import driver
    src = tmp / 'src'
    src.mkdir()
    (src / 'net.py').write_text(SOURCE, encoding='utf-8')
    out = tmp / 'out'
    buf = io.StringIO()
    with contextlib.redirect_stdout(buf), contextlib.redirect_stderr(buf):
        rc = driver.main(['--html-output', str(out), '--project-base-dir', str(src), str(src / 'net.py')])
    dead = dead_links(out)
    if dead:
        print("C11 VIOLATED: the docstring of net.connect refers to two labelled code examples ('.. _example:' before "
              "a doctest block, '.. _longer example:' before a code-block directive) and to a labelled paragraph. "
              "pydoctor exits with %r without any warning; the link to the paragraph (#rst-closing) works, but "
              "href=\"#rst-example\" and href=\"#rst-longer-example\" have no anchor on the page: docutils moved the "
              "labels' ids onto the doctest_block nodes and HTMLTranslator.visit_doctest_block() writes "
              "<pre class=\"py-doctest\"> without them. Dead links: %r" % (rc, dead))
        sys.exit(1)
    print("no dead link found")


if __name__ == '__main__':
    main()
