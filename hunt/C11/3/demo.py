"""
C11 demo: docutils promotes the lone top-level section title of a reStructuredText docstring to the
title of the document (DocTitle transform): its id moves to the <document> node and its text to the
translator's "title" part. pydoctor only writes the "body" part, so neither the heading nor its id
reaches the page, and a reference to that heading (`Frobnicator`_, or a label placed before it)
is a link to an anchor that does not exist.
"""
import os, sys, tempfile, io, contextlib
from pathlib import Path
from html.parser import HTMLParser
from urllib.parse import urlsplit, unquote


class P(HTMLParser):
    def __init__(self):
        super().__init__()
        self.anchors, self.links = set(), []
    def handle_starttag(self, tag, attrs):
        d = dict(attrs)
        if d.get('id'):
            self.anchors.add(d['id'])
        if tag == 'a' and d.get('name'):
            self.anchors.add(d['name'])
        if tag == 'a' and d.get('href'):
            self.links.append(d['href'])


def parse(path):
    p = P()
    p.feed(path.read_text(encoding='utf-8'))
    return p


def dead_links(out):
    pages = {p.name: parse(p) for p in out.glob('*.html')}
    dead = []
    for name, page in sorted(pages.items()):
        for href in page.links:
            u = urlsplit(href)
            if u.scheme or u.netloc:
                continue
            target = unquote(u.path) or name
            if not (out / target).exists():
                dead.append((name, href, 'no such file'))
            elif u.fragment and target in pages and unquote(u.fragment) not in pages[target].anchors:
                dead.append((name, href, 'no such anchor in ' + target))
    return dead



SOURCE = (
    '"""\n'
    '.. _top:\n'
    '\n'
    'Frobnicator\n'
    '===========\n'
    '\n'
    'Frobnicates things.\n'
    '\n'
    'Installation\n'
    '------------\n'
    '\n'
    'Nothing to do.\n'
    '\n'
    'Usage\n'
    '-----\n'
    '\n'
    'See Installation_ first, then go back to the introduction of Frobnicator_ (top_).\n'
    '"""\n'
    '__docformat__ = "restructuredtext"\n'
    'class Frob:\n'
    '    "The class."\n')


def main():
    tmp = Path(tempfile.mkdtemp(prefix='c11-demo3-'))
    os.chdir(tmp)
    from pydoctor import driver
    src = tmp / 'src'
    src.mkdir()
    (src / 'frob.py').write_text(SOURCE, encoding='utf-8')
    out = tmp / 'out'
    buf = io.StringIO()
    with contextlib.redirect_stdout(buf), contextlib.redirect_stderr(buf):
        rc = driver.main(['--html-output', str(out), '--project-base-dir', str(src), str(src / 'frob.py')])
    # moduleIndex.html / all-documents.html only show the summary (first sentence), which has no reference here.
    dead = dead_links(out)
    if dead:
        print("C11 VIOLATED: the reStructuredText docstring of frob.py is one top-level section 'Frobnicator' "
              "(label '.. _top:' before it) with the sub-sections Installation and Usage; the text of Usage refers "
              "to Installation_, Frobnicator_ and top_. pydoctor exits with %r and reports no problem in the docstring, "
              "the link to Installation works (#rst-installation exists), but the links href=\"#rst-frobnicator\" and "
              "href=\"#rst-top\" lead to anchors that are not on the page: docutils promoted the section title to the "
              "document title, whose ids sit on the <document> node that HTMLTranslator.visit_document() skips "
              "(the heading itself is not shown either). Dead links: %r" % (rc, dead))
        sys.exit(1)
    print("no dead link found")


if __name__ == '__main__':
    main()
