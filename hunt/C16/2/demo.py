"""
C16 demo 2: line numbers are counted in the *evaluated* value of the docstring literal, not in the
source text.  Everything that makes the two differ shifts every warning of that docstring:
the very common ``\"\"\"\\`` opening (backslash-newline right after the quotes) moves all warnings one
line UP, an escape such as ``\\n`` in a non-raw docstring moves the warnings that follow it one line DOWN.
"""
import contextlib, io, os, re, sys, tempfile

SRC = r'''"""
Module.
"""

def f(x):
    """\
    Func.

    Second paragraph, see L{nope1}.

    @bogus: unknown field
    """

def g(x):
    """
    The lines are joined with \n

    Second paragraph, see L{nope2}.
    """

def h(x):
    r"""
    The lines are joined with \n

    Second paragraph, see L{nope3}.
    """
'''

def run(src):
    from pydoctor import driver
    d = tempfile.mkdtemp(prefix='c16_2_')
    os.chdir(d)
    with open('m.py', 'w') as f:
        f.write(src)
    buf = io.StringIO()
    with contextlib.redirect_stdout(buf):
        rc = driver.main(['--docformat', 'epytext', '--html-output', os.path.join(d, 'out'),
                          '-q', os.path.join(d, 'm.py')])
    return rc, buf.getvalue().replace(d + os.sep, '')

def main():
    lines = SRC.split('\n')
    def line_of(text):
        return next(i for i, l in enumerate(lines, 1) if text in l)
    rc, out = run(SRC)
    bad = []
    for needle, pattern in [('L{nope1}', r'm\.py:(\d+): Cannot find link target for "nope1"'),
                            ('@bogus', r"m\.py:(\d+): Unknown field 'bogus'"),
                            ('L{nope2}', r'm\.py:(\d+): Cannot find link target for "nope2"'),
                            ('L{nope3}', r'm\.py:(\d+): Cannot find link target for "nope3"')]:
        m = re.search(pattern, out)
        assert m, (needle, out)
        exp, got = line_of(needle), int(m.group(1))
        if exp != got:
            bad.append(f"{needle} is on line {exp} ({lines[exp-1].strip()!r}) but is reported on line {got} "
                       f"({lines[got-1].strip()!r})")
    if bad:
        print("C16 VIOLATED: pydoctor counts lines in the evaluated string instead of the source: "
              + "; ".join(bad) + ". In f() the docstring opens with the usual '\"\"\"\\' continuation, so "
              "every warning is one line too high (a blank line / the wrong paragraph); in g() the "
              "escape \\n in a non-raw docstring pushes the warnings below it one line down; the raw "
              "docstring of h() is reported correctly.\npydoctor output:\n" + out)
        sys.exit(1)
    print("property holds here:", out)

if __name__ == '__main__':
    main()
