"""
C16 demo 1: an unresolvable cross-reference written in the argument of pydoctor's own
``versionadded`` / ``versionchanged`` / ``deprecated`` reStructuredText directives is reported
on the line that FOLLOWS the whole directive block, not on the line of the directive.
"""
import contextlib, io, os, re, sys, tempfile

SRC = '''"""
Module.
"""

def f(x):
    """
    Func.

    .. deprecated:: 1.3 use `nope` instead

       More explanation
       on several
       lines.

       And more.

    End.
    """
'''

def run(src, k=0):
    from pydoctor import driver
    d = tempfile.mkdtemp(prefix='c16_1_')
    os.chdir(d)
    with open('m.py', 'w') as f:
        f.write('\n' * k + src)
    buf = io.StringIO()
    with contextlib.redirect_stdout(buf):
        rc = driver.main(['--docformat', 'restructuredtext', '--html-output', os.path.join(d, 'out'),
                          '-q', os.path.join(d, 'm.py')])
    return rc, buf.getvalue().replace(d + os.sep, '')

def main():
    lines = SRC.split('\n')
    expected = next(i for i, l in enumerate(lines, 1) if '`nope`' in l)   # 9
    rc, out = run(SRC)
    m = re.search(r'm\.py:(\d+): Cannot find link target for "nope"', out)
    assert m, out
    got = int(m.group(1))
    if got != expected:
        print(f"C16 VIOLATED: the unresolvable reference `nope` is written on line {expected} of m.py "
              f"({lines[expected-1].strip()!r}, the first and only line of the paragraph that contains it), "
              f"but pydoctor reports 'm.py:{got}: Cannot find link target for \"nope\"'; line {got} is "
              f"{lines[got-1]!r}, the blank line after the end of the directive's content - the distance "
              f"grows with the length of the directive body.\npydoctor output:\n{out}")
        sys.exit(1)
    print("property holds here:", out)

if __name__ == '__main__':
    main()
