"""
C16 demo 3: an unresolvable cross-reference in a section title of a reStructuredText module or
class docstring is reported twice and neither report names the line of the title: the sidebar
table of contents renders a copy of the title with a *reporting* linker and without line
information, so the problem is reported (and counted) a second time on the FIRST line of the
docstring; the first report is on the underline, one line below the title.
"""
import contextlib, io, os, re, sys, tempfile

SRC = '''"""
Module summary.

Some text.

Section about `nope`
====================

More text.
"""

class C:
    """
    Class summary.

    Some text.

    Usage of `nope2`
    ----------------

    text
    """
'''

def run(src):
    from pydoctor import driver
    d = tempfile.mkdtemp(prefix='c16_3_')
    os.chdir(d)
    with open('m.py', 'w') as f:
        f.write(src)
    buf = io.StringIO()
    with contextlib.redirect_stdout(buf):
        rc = driver.main(['--docformat', 'restructuredtext', '--html-output', os.path.join(d, 'out'),
                          '-q', os.path.join(d, 'm.py')])
    return rc, buf.getvalue().replace(d + os.sep, '')

def main():
    lines = SRC.split('\n')
    rc, out = run(SRC)
    msgs = []
    for name in ('nope', 'nope2'):
        exp = next(i for i, l in enumerate(lines, 1) if f'`{name}`' in l)
        got = [int(n) for n in re.findall(rf'm\.py:(\d+): Cannot find link target for "{name}"', out)]
        assert got, out
        if got != [exp]:
            msgs.append(f"`{name}` is written on line {exp} ({lines[exp-1].strip()!r}) but pydoctor reports it "
                        f"on line(s) {got}: " + ", ".join(f"{n} = {lines[n-1].strip()!r}" for n in got))
    if msgs:
        print("C16 VIOLATED: " + "; ".join(msgs) + ". The report on the first line of the docstring "
              "comes from rendering the sidebar table of contents: that line belongs to another paragraph "
              "and the single problem is counted twice; the other report is on the title's underline, "
              "not on the title.\npydoctor output:\n" + out)
        sys.exit(1)
    print("property holds here:", out)

if __name__ == '__main__':
    main()
