"""
C16 demo 4: in a reStructuredText docstring, a character that str.splitlines() treats as a line
boundary but Python's tokenizer (and inspect.cleandoc / pydoctor's own line arithmetic) does not
- U+2028 LINE SEPARATOR, U+2029, U+0085 NEL, U+001C..U+001E - makes docutils count an extra line,
so every warning located after it is reported one line too low per such character.  epytext
(which splits on '\\n' only) reports the same docstring correctly.
"""
import contextlib, io, os, re, sys, tempfile

# NB: the \\u2028 / \\u2029 escapes below are evaluated here, m.py contains the real characters.
SRC = '''"""
Module.
"""

def f(x):
    """
    Func: the fields are separated by "\u2028" (U+2028) and records by "\u2029".

    Second paragraph, see `nope`.

    :bogus: unknown field
    """
'''

def run(src, docformat):
    from pydoctor import driver
    d = tempfile.mkdtemp(prefix='c16_4_')
    os.chdir(d)
    with open('m.py', 'w', encoding='utf-8') as f:
        f.write(src)
    buf = io.StringIO()
    with contextlib.redirect_stdout(buf):
        rc = driver.main(['--docformat', docformat, '--html-output', os.path.join(d, 'out'),
                          '-q', os.path.join(d, 'm.py')])
    return rc, buf.getvalue().replace(d + os.sep, '')

def main():
    # The interpreter is the judge of what a physical line is: compile() puts the closing
    # quotes of the docstring (and hence every line before) where a split on '\n' puts them.
    import ast
    lines = SRC.split('\n')
    fn = ast.parse(SRC).body[1]
    assert fn.body[0].end_lineno == next(i for i, l in enumerate(lines, 1) if l == '    """' and i > 7)
    exp_ref = next(i for i, l in enumerate(lines, 1) if '`nope`' in l)      # 9
    exp_fld = next(i for i, l in enumerate(lines, 1) if ':bogus:' in l)     # 11
    rc, out = run(SRC, 'restructuredtext')
    got_ref = int(re.search(r'm\.py:(\d+): Cannot find link target for "nope"', out).group(1))
    got_fld = int(re.search(r"m\.py:(\d+): Unknown field 'bogus'", out).group(1))
    # control: the same docstring in epytext
    _, out_epy = run(SRC.replace('`nope`', 'L{nope}').replace(':bogus:', '@bogus:'), 'epytext')
    if (got_ref, got_fld) != (exp_ref, exp_fld):
        print(f"C16 VIOLATED: `nope` is on physical line {exp_ref} and the unknown field on line {exp_fld} "
              f"of m.py (lines as Python counts them), but with --docformat restructuredtext pydoctor "
              f"reports them on lines {got_ref} and {got_fld} ({lines[got_ref-1].strip()!r} and "
              f"{lines[got_fld-1].strip()!r}): docutils splits the docstring with str.splitlines(), which "
              f"also breaks at U+2028 and U+2029 in the first paragraph, so everything below is shifted by 2. "
              f"epytext output for the same text: {out_epy.strip()!r}.\npydoctor output:\n{out}")
        sys.exit(1)
    print("property holds here:", out)

if __name__ == '__main__':
    main()
