"""
C15: a verbose-mode regular expression is displayed with the escapes of its
literal whitespace and '#' removed, so the displayed pattern is another regex.
"""
import ast, contextlib, html, io, os, re, sys, tempfile
from pathlib import Path

SOURCE = r'''
import re
TICKET = re.compile(r'(?x)\#\d+')
WORDS = re.compile(r'hello\ world', re.VERBOSE)
CLASS = re.compile(r'(?x)a[ ]b')
'''
ORIGINALS = {
    'TICKET': r"re.compile(r'(?x)\#\d+')",
    'WORDS': r"re.compile(r'hello\ world', re.VERBOSE)",
    'CLASS': r"re.compile(r'(?x)a[ ]b')",
}
PROBES = ['#12', 'x', '', 'hello world', 'helloworld', 'a b', 'ab']

def main() -> int:
    tmp = tempfile.mkdtemp(prefix='c15-1-')
    os.chdir(tmp)
    Path(tmp, 'vmod.py').write_text(SOURCE)
    from pydoctor.driver import main as pydoctor_main
    sink = io.StringIO()
    with contextlib.redirect_stdout(sink), contextlib.redirect_stderr(sink):
        pydoctor_main(['--html-output', os.path.join(tmp, 'out'), '--quiet', '--quiet',
                       '--pyval-repr-linelen=0', '--pyval-repr-maxlines=0',
                       os.path.join(tmp, 'vmod.py')])
    page = Path(tmp, 'out', 'vmod.html').read_text(encoding='utf-8')
    shown = {}
    for name in ORIGINALS:
        m = re.search(r'<a name="vmod\.%s">.*?<pre class="constant-value">(.*?)</pre>' % name, page, re.S)
        assert m, 'value of %s not found in the page' % name
        shown[name] = html.unescape(re.sub(r'<[^>]+>', '', m.group(1)))
    failures = []
    for name, original in ORIGINALS.items():
        displayed = shown[name]
        ast.parse(displayed, mode='eval')  # the displayed text is Python
        orig_re = eval(original, {'re': re})
        disp_re = eval(displayed, {'re': re})
        diff = [s for s in PROBES if bool(orig_re.fullmatch(s)) != bool(disp_re.fullmatch(s))]
        if diff:
            failures.append('%s: source %s is displayed as %s; fullmatch() differs on %r '
                            '(source pattern %r, displayed pattern %r)' % (
                                name, original, ' '.join(displayed.split()), diff, orig_re.pattern, disp_re.pattern))
    if failures:
        print('C15 VIOLATED: the displayed re.compile() call, read back as Python, compiles a different '
              'regular expression than the source: in verbose mode (inline (?x) or the re.VERBOSE argument) '
              'an escaped space, an escaped "#" and a one-character class "[ ]" are displayed as a bare '
              'space / "#", which verbose mode ignores or treats as a comment. ' + ' | '.join(failures))
        return 1
    print('displayed regular expressions are equivalent to the source')
    return 0

if __name__ == '__main__':
    sys.exit(main())
