"""
C15: a group back-reference followed by a literal digit is displayed as a
longer back-reference number: '(?P=d)0' and '\1[0]' become '\10'.
"""
import ast, contextlib, html, io, os, re, sys, tempfile
from pathlib import Path

SOURCE = r'''
import re
NAMED = re.compile(r'(?P<d>\d)(?P=d)0')
NUMBERED = re.compile(r'(\d)\1[0]')
'''
ORIGINALS = {
    'NAMED': r"re.compile(r'(?P<d>\d)(?P=d)0')",
    'NUMBERED': r"re.compile(r'(\d)\1[0]')",
}

def main() -> int:
    tmp = tempfile.mkdtemp(prefix='c15-2-')
    os.chdir(tmp)
    Path(tmp, 'bmod.py').write_text(SOURCE)
    from pydoctor.driver import main as pydoctor_main
    sink = io.StringIO()
    with contextlib.redirect_stdout(sink), contextlib.redirect_stderr(sink):
        pydoctor_main(['--html-output', os.path.join(tmp, 'out'), '--quiet', '--quiet',
                       os.path.join(tmp, 'bmod.py')])
    page = Path(tmp, 'out', 'bmod.html').read_text(encoding='utf-8')
    failures = []
    for name, original in ORIGINALS.items():
        m = re.search(r'<a name="bmod\.%s">.*?<pre class="constant-value">(.*?)</pre>' % name, page, re.S)
        assert m, 'value of %s not found in the page' % name
        displayed = html.unescape(re.sub(r'<[^>]+>', '', m.group(1)))
        ast.parse(displayed, mode='eval')  # the displayed text is Python
        orig_re = eval(original, {'re': re})
        assert orig_re.fullmatch('110') and not orig_re.fullmatch('11')
        try:
            disp_re = eval(displayed, {'re': re})
        except re.error as e:
            failures.append('%s: source %s (matches "110") is displayed as %s, which Python rejects: re.error: %s'
                            % (name, original, displayed, e))
        else:
            if not disp_re.fullmatch('110'):
                failures.append('%s: source %s is displayed as %s which does not match "110"' % (name, original, displayed))
    if failures:
        print('C15 VIOLATED: the displayed re.compile() call, read back as Python, is not the source expression: '
              'the reference to group 1 and the literal digit "0" that follows it are displayed glued together '
              'as a reference to group 10. ' + ' | '.join(failures))
        return 1
    print('displayed regular expressions are equivalent to the source')
    return 0

if __name__ == '__main__':
    sys.exit(main())
