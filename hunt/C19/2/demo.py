"""
C19 demo 2: the main visitor skips the siblings of a node from its depart_ method
(pydoctor.visitor documents that pruning exceptions may be raised "from within
visit_... or depart_... methods"): the AFTER and OUTTER extensions that entered
the node never leave it.
"""
import os, sys, tempfile
tmp = tempfile.mkdtemp(prefix='c19-demo2-')
os.chdir(tmp)

from pydoctor.visitor import Visitor, VisitorExt, ExtList, When

class Node:
    def __init__(self, name, *children):
        self.name, self.children = name, list(children)
    def __repr__(self):
        return self.name

LOG = []

class Main(Visitor):
    @classmethod
    def get_children(cls, ob):
        return ob.children
    def unknown_visit(self, ob):
        LOG.append(('enter', 'MAIN', ob))
    def unknown_departure(self, ob):
        LOG.append(('leave', 'MAIN', ob))
        if ob.name == 'a':
            # "Do not visit any more siblings (to the right) of the current node."
            raise self.SkipSiblings()

def mk(when):
    class Ext(VisitorExt):
        def unknown_visit(self, ob):
            LOG.append(('enter', when.name, ob))
        def unknown_departure(self, ob):
            LOG.append(('leave', when.name, ob))
    Ext.when = when
    return Ext

# root -> (a, b): three nodes; the main visitor prunes the siblings of 'a' when it departs 'a'.
tree = Node('root', Node('a'), Node('b'))
escaped = None
try:
    Main(ExtList(*[mk(w) for w in When])).walkabout(tree)
except BaseException as e:
    escaped = e

problems = []
for timing in [w.name for w in When]:
    stack = []
    for ev, t, ob in LOG:
        if t != timing:
            continue
        if ev == 'enter':
            stack.append(ob)
        elif stack and stack[-1] is ob:
            stack.pop()
        else:
            problems.append('%s leaves %r while %r is still open' % (timing, ob, stack[-1] if stack else None))
            if ob in stack:
                stack.remove(ob)
    for ob in stack:
        problems.append('%s entered %r and never left it' % (timing, ob))

trace = ' '.join('%s:%s:%s' % (t, ev, ob) for ev, t, ob in LOG)
if problems or escaped is not None:
    print("PROPERTY C19 VIOLATED for the tree root->(a, b), the main visitor raising SkipSiblings from the departure of 'a', "
          "one extension per timing. The siblings are skipped as requested (b is never entered), but the extensions that "
          "depart after the main visitor are cut off: %s. Escaped exception: %r. Full trace: %s"
          % ('; '.join(problems), escaped, trace))
    sys.exit(1)
print('property holds:', trace)
