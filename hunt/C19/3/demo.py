"""
C19 demo 3: walking a module aborts in ASTBuilder.push() (scope stack assertion) and
leaves the builder's scope stack non-empty.

pkg/a.py defines class C with an overloaded method and, between two of the method's
definitions, imports a name from pkg/z.py in the class body (under "if TYPE_CHECKING:", so
that the files import fine in CPython).  pkg/z.py re-exports C
(__all__), so while the builder of pkg.a is still INSIDE class C the class is moved to
pkg.z and the parentMod of everything in it becomes pkg.z.  The next definition of the
overloaded method re-pushes the existing Function object and push() asserts that
its parentMod is the module being walked.
"""
import os, sys, tempfile, io, contextlib, traceback
tmp = tempfile.mkdtemp(prefix='c19-demo3-')
os.chdir(tmp)
os.mkdir('pkg')
FILES = {
 'pkg/__init__.py': '',
 'pkg/a.py': (
    'from typing import overload, TYPE_CHECKING\n'
    'class C:\n'
    '    @overload\n'
    '    def f(self, x: int) -> int: ...\n'
    '    if TYPE_CHECKING:\n'
    '        from pkg.z import Q\n'
    '    @overload\n'
    '    def f(self, x: str) -> str: ...\n'
    '    def f(self, x): return x\n'),
 'pkg/z.py': (
    'from pkg.a import C\n'
    '__all__ = ["C"]\n'
    'Q = int\n'),
}
for name, text in FILES.items():
    with open(name, 'w') as f:
        f.write(text)

# the three files are valid Python: the interpreter imports them without complaint
import subprocess
chk = subprocess.run([sys.executable, '-c', 'import pkg.a, pkg.z; assert pkg.z.C is pkg.a.C'],
                     cwd=tmp, capture_output=True, text=True)
assert chk.returncode == 0, chk.stderr

from pydoctor import driver, astbuilder

# observe the state of every builder when its walk ends (normally or not)
states = []
orig = astbuilder.ASTBuilder.processModuleAST
def processModuleAST(self, mod_ast, mod):
    try:
        return orig(self, mod_ast, mod)
    finally:
        states.append((mod.fullName(), list(self._stack), self.current))
astbuilder.ASTBuilder.processModuleAST = processModuleAST

out = io.StringIO()
err = None
rc = None
try:
    with contextlib.redirect_stdout(out), contextlib.redirect_stderr(out):
        rc = driver.main(['--html-output=' + os.path.join(tmp, 'html'), '--quiet', '--quiet', os.path.join(tmp, 'pkg')])
except BaseException as e:
    err = e
    tb = traceback.format_exc().strip().splitlines()

bad = [(n, s, c) for (n, s, c) in states if s or c is not None]
if err is not None or bad or rc:
    print('PROPERTY C19 VIOLATED: after walking a module the scope stack of its builder must be empty again, but '
          'driver.main on the package pkg (a.py: class C with an overloaded method f and "if TYPE_CHECKING: from pkg.z import Q" between '
          'two definitions of f; z.py: "from pkg.a import C; __all__ = [\'C\']") ended with %r (exit code %r) raised at: %s | '
          'builder states at the end of the walk (module, _stack, current): %r'
          % (err, rc, ' / '.join(l.strip() for l in tb[-5:]) if err is not None else None, bad))
    sys.exit(1)
print('property holds', states)
