"""
C19 demo 1: on the real AST builder, visitor extensions enter the expression of
every expression statement (ast.Call, ast.Constant, ...) but never leave it.

ModuleVistor.visit_Expr() calls NodeVisitor.generic_visit(), which calls
Visitor.visit() on the child - that runs visit() of every extension - but
nothing ever calls depart() for that child.
"""
import os, sys, tempfile, textwrap, io, contextlib

tmp = tempfile.mkdtemp(prefix='c19-demo1-')
os.chdir(tmp)
sys.path.insert(0, tmp)

# A documented-style extension module (docs/source/customize.rst): a System subclass
# with custom_extensions, selected with --system-class.
with open('c19_trace_ext.py', 'w') as f:
    f.write(textwrap.dedent('''
        import ast
        from pydoctor import extensions, model, visitor

        LOG = []          # (event, timing, node) for module "m" only
        FINAL = []        # builder state after the walk

        def _mk(when):
            class Ext(extensions.ModuleVisitorExt):
                def unknown_visit(self, ob):
                    LOG.append(('enter', when.name, ob))
                def unknown_departure(self, ob):
                    LOG.append(('leave', when.name, ob))
                    if isinstance(ob, ast.Module):
                        b = self.visitor.builder
                        FINAL.append((when.name, list(b._stack), b.current))
            Ext.when = when
            Ext.__name__ = 'Trace' + when.name
            return Ext

        EXTS = [_mk(w) for w in visitor.When]

        def setup_pydoctor_extension(r):
            r.register_astbuilder_visitor(*EXTS)

        class TraceSystem(model.System):
            custom_extensions = ['c19_trace_ext']
    '''))

with open('m.py', 'w') as f:
    f.write('"""Module docstring."""\nfoo()\n')

from pydoctor import driver
out = io.StringIO()
with contextlib.redirect_stdout(out), contextlib.redirect_stderr(out):
    rc = driver.main(['--system-class=c19_trace_ext.TraceSystem', '--html-output=' + os.path.join(tmp, 'html'),
                      '--quiet', '--quiet', os.path.join(tmp, 'm.py')])

import ast
import c19_trace_ext as T

problems = []
for timing in ('BEFORE', 'AFTER', 'INNER', 'OUTTER'):
    open_nodes = []
    for ev, t, ob in T.LOG:
        if t != timing:
            continue
        if ev == 'enter':
            open_nodes.append(ob)
        else:
            if open_nodes and open_nodes[-1] is ob:
                open_nodes.pop()
            else:
                top = open_nodes[-1] if open_nodes else None
                problems.append('%s extension leaves %s (line %s) while the node it entered last, %s (line %s), is still open'
                                % (timing, type(ob).__name__, getattr(ob, 'lineno', 0),
                                   type(top).__name__, getattr(top, 'lineno', 0)))
                if ob in open_nodes:
                    open_nodes.remove(ob)
    for ob in open_nodes:
        problems.append('%s extension entered %s (line %s) and never left it'
                        % (timing, type(ob).__name__, getattr(ob, 'lineno', 0)))

trace = ' '.join('%s:%s' % (ev, type(ob).__name__) for ev, t, ob in T.LOG if t == 'AFTER')
if problems:
    print('PROPERTY C19 VIOLATED on module m.py = \'"""Module docstring."""\\nfoo()\\n\' (driver.main exit code %r). '
          'Trace seen by the AFTER extension: [%s]. Every extension that enters a node must also leave it and '
          'enter/leave calls must nest like the tree, but the AFTER extension even enters the child (Constant, Call) BEFORE '
          'its parent Expr, and (%d problems, first 5): %s.' % (rc, trace, len(problems), '; '.join(problems[:5])))
    sys.exit(1)
print('property holds: trace', trace)
sys.exit(0)
