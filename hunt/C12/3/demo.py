"""
C12 demo 3: with several root modules, index.html lists the roots ("Or start at one of the root
modules: ...").  The entry of a PRIVATE root carries no private marker (and the page has no
toggle): the private module is always shown there, while moduleIndex.html marks the same
module class="private".
"""
import contextlib, io, os, re, sys, tempfile
from pathlib import Path

from pydoctor import driver

def main() -> int:
    tmp = Path(tempfile.mkdtemp(prefix='c12-demo3-'))
    os.chdir(tmp)
    (tmp / 'public.py').write_text('"""A public root module."""\n')
    (tmp / '_internal.py').write_text('"""A private root module (leading underscore)."""\n')
    (tmp / 'tools.py').write_text('"""A root module made private by a rule."""\n')
    out = tmp / 'out'
    buf = io.StringIO()
    with contextlib.redirect_stdout(buf), contextlib.redirect_stderr(buf):
        driver.main(['--html-output', str(out), '--project-name', 'demo', '-q', '-q',
                     '--privacy', 'PRIVATE:tools',
                     str(tmp / 'public.py'), str(tmp / '_internal.py'), str(tmp / 'tools.py')])

    index = (out / 'index.html').read_text()
    modindex = (out / 'moduleIndex.html').read_text()
    alldocs = (out / 'all-documents.html').read_text()

    bad = []
    for name in ('_internal', 'tools'):
        # control: the module is PRIVATE and the module index says so
        if not re.search(r'<li class="private"><code><a href="%s\.html"' % name, modindex):
            print(f'unexpected: moduleIndex.html does not mark {name} private'); return 0
        if not re.search(r'<li id="%s">.*?<div class="privacy">PRIVATE</div>' % name, alldocs, re.S):
            print(f'unexpected: {name} is not PRIVATE'); return 0
        m = re.search(r'<li([^>]*)>\s*<code><a href="%s\.html"[^>]*>%s</a></code>\s*</li>' % (name, name), index)
        if m is None:
            print(f'unexpected: index.html does not list {name}'); return 0
        if 'private' not in m.group(1):
            entry = re.sub(r'\s+', ' ', m.group(0)).replace('> <', '><')
            bad.append(f'index.html lists the PRIVATE root module {name} as "{entry}" '
                       '(no class="private")')
    toggle = 'id="showPrivate"' in index or 'pydoctor.js' in index
    if bad:
        print('C12 VIOLATED: every listing entry of a PRIVATE object must carry the private marker so that the '
              'public/private toggle hides it, but ' + '; '.join(bad) +
              f'; moduleIndex.html marks the same modules <li class="private">. index.html '
              f'{"has" if toggle else "has neither the marker nor"} the toggle, so the private roots are shown to every viewer.')
        return 1
    print('property holds: private roots are marked private on index.html')
    return 0

if __name__ == '__main__':
    sys.exit(main())
