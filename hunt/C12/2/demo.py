"""
C12 demo 2: the entry of a PRIVATE class in classIndex.html carries no private marker
as soon as the class has a subclass that summary.isClassNodePrivate() does not consider private -
a public subclass, or even a subclass that is not listed at all (an older definition superseded
by a later one of the same name).
"""
import contextlib, io, os, re, sys, tempfile
from pathlib import Path

from pydoctor import driver

SRC = '''\
"""A module."""

class _Base:
    """Private base with a public subclass."""

class Public(_Base):
    """Public subclass."""

class _Lonely:
    """Private base whose only subclass is a superseded definition."""

class Twice(_Lonely):
    """First definition of Twice: superseded, never rendered."""

class Twice:
    """Second definition of Twice: does not derive from _Lonely."""
'''

def li_of(html: str, fullname: str):
    """class attribute of the <li> that holds the class index entry of fullname"""
    m = re.search(r'<li(?: class="([^"]*)")?><a name="%s"></a>' % re.escape(fullname), html)
    if m is None:
        return None
    return m.group(1) or ''

def main() -> int:
    tmp = Path(tempfile.mkdtemp(prefix='c12-demo2-'))
    os.chdir(tmp)
    (tmp / 'pkg').mkdir()
    (tmp / 'pkg' / '__init__.py').write_text('"""A package."""\n')
    (tmp / 'pkg' / 'm.py').write_text(SRC)
    out = tmp / 'out'
    buf = io.StringIO()
    with contextlib.redirect_stdout(buf), contextlib.redirect_stderr(buf):
        driver.main(['--html-output', str(out), '--project-name', 'demo', '-q', '-q', str(tmp / 'pkg')])

    index = (out / 'classIndex.html').read_text()
    if 'id="showPrivate"' not in index:
        print('unexpected: classIndex.html has no private toggle'); return 0

    # control: the same classes are marked private in the other listings
    names = (out / 'nameIndex.html').read_text()
    modpage = (out / 'pkg.m.html').read_text()
    control = []
    for n in ('_Base', '_Lonely'):
        control.append(f'<li class="private">{n} - ' in names)
        control.append(re.search(r'<tr class="class private">\s*<td>Class</td>\s*<td><code><a href="pkg\.m\.%s\.html"' % n, modpage) is not None)
    if not all(control):
        print('unexpected: control listings are not marked private', control); return 0

    bad = []
    for n, why in (('pkg.m._Base', 'it has the public subclass pkg.m.Public'),
                   ('pkg.m._Lonely', 'its only subclass is the superseded first definition of pkg.m.Twice, which is not listed anywhere')):
        cls = li_of(index, n)
        if cls is None:
            print(f'unexpected: no class index entry for {n}'); return 0
        if 'private' not in cls.split():
            bad.append(f'{n} is PRIVATE (name index and module table mark it class="private") but its class index '
                       f'entry is <li class="{cls}"> because {why}')
    if bad:
        print('C12 VIOLATED: classIndex.html has the "Show/Hide Private API" toggle, but listing entries of PRIVATE '
              'classes carry no private marker, so the toggle never hides them: ' + '; '.join(bad) + '.')
        return 1
    print('property holds: the class index entries of private classes are marked private')
    return 0

if __name__ == '__main__':
    sys.exit(main())
