"""
C12 demo 1: a property that is HIDDEN (or PRIVATE) keeps its setter / deleter in the output.

The setter of property ``secret`` is stored by pydoctor as a separate Function named
``secret.setter`` (full name ``pkg.m.C.secret.setter``) whose parent is the class, not the
property.  A --privacy rule for ``pkg.m.C.secret`` therefore does not reach it.
"""
import contextlib, io, os, re, sys, tempfile, zlib
from pathlib import Path

from pydoctor import driver

SRC = '''\
"""A module."""
class C:
    """A class."""
    @property
    def secret(self):
        """Getter of the hidden property."""
    @secret.setter
    def secret(self, value):
        """Setter of the hidden property."""
    @secret.deleter
    def secret(self):
        """Deleter of the hidden property."""
    def visible(self):
        """A visible method."""
'''

def build(tmp: Path, name: str, rules):
    out = tmp / name
    argv = ['--html-output', str(out), '--project-name', 'demo', '--make-html', '--make-intersphinx', '-q', '-q']
    for r in rules:
        argv += ['--privacy', r]
    argv.append(str(tmp / 'pkg'))
    buf = io.StringIO()
    with contextlib.redirect_stdout(buf), contextlib.redirect_stderr(buf):
        driver.main(argv)
    return out

def inventory(out: Path) -> str:
    data = (out / 'objects.inv').read_bytes()
    pos = 0
    for _ in range(4):
        pos = data.index(b'\n', pos) + 1
    return zlib.decompress(data[pos:]).decode()

def main() -> int:
    tmp = Path(tempfile.mkdtemp(prefix='c12-demo1-'))
    os.chdir(tmp)
    (tmp / 'pkg').mkdir()
    (tmp / 'pkg' / '__init__.py').write_text('"""A package."""\n')
    (tmp / 'pkg' / 'm.py').write_text(SRC)

    traces = []

    # --- run 1: the property is HIDDEN (exact name), run 2: all the members of C are hidden by a pattern
    for label, rules in (('HIDDEN:pkg.m.C.secret', ['HIDDEN:pkg.m.C.secret']),
                         ('HIDDEN:pkg.m.C.*', ['HIDDEN:pkg.m.C.*'])):
        out = build(tmp, 'out-' + re.sub(r'\W', '_', label), rules)
        page = (out / 'pkg.m.C.html').read_text()
        if 'Getter of the hidden property' in page or 'name="pkg.m.C.secret"' in page:
            print('unexpected: the property itself is rendered'); return 0
        for what, found in (
            ('anchor <a name="pkg.m.C.secret.setter"> on pkg.m.C.html', 'name="pkg.m.C.secret.setter"' in page),
            ('anchor <a name="secret.deleter"> on pkg.m.C.html', 'name="secret.deleter"' in page),
            ('row of the member table of C (href="#secret.setter")',
                re.search(r'<tr class="[^"]*method[^"]*">\s*<td>Method</td>\s*<td><code><a href="#secret\.setter"', page) is not None),
            ('sidebar entry of C (href="#secret.setter")',
                re.search(r'<li class="[^"]*">\s*<div class="itemName"><code><a href="#secret\.setter"', page) is not None),
            ('docstring "Setter of the hidden property." in the member details', 'Setter of the hidden property' in page),
            ('row of nameIndex.html', 'pkg.m.C.html#secret.setter' in (out / 'nameIndex.html').read_text()),
            ('search document <li id="pkg.m.C.secret.setter"> in all-documents.html',
                '<li id="pkg.m.C.secret.setter">' in (out / 'all-documents.html').read_text()),
            ('search index entry in searchindex.json', '"pkg.m.C.secret.setter"' in (out / 'searchindex.json').read_text()),
            ('objects.inv line "pkg.m.C.secret.setter py:method"',
                'pkg.m.C.secret.setter py:method' in inventory(out)),
        ):
            if found:
                traces.append(f'[--privacy {label}] {what}')

    # --- run 3: the property is PRIVATE by rule: the entries of its setter carry no private marker
    out = build(tmp, 'out-private', ['PRIVATE:pkg.m.C.secret'])
    page = (out / 'pkg.m.C.html').read_text()
    getter_row = re.search(r'<tr class="([^"]*)">\s*<td>Property</td>\s*<td><code><a href="#secret"', page)
    setter_row = re.search(r'<tr class="([^"]*)">\s*<td>Method</td>\s*<td><code><a href="#secret\.setter"', page)
    unmarked = []
    if getter_row and 'private' in getter_row.group(1).split() and setter_row and 'private' not in setter_row.group(1).split():
        unmarked.append(f'[--privacy PRIVATE:pkg.m.C.secret] table row of secret has class "{getter_row.group(1)}" '
                        f'but the row of secret.setter has class "{setter_row.group(1)}" (no private marker)')

    if traces or unmarked:
        print('C12 VIOLATED: the property pkg.m.C.secret is HIDDEN, yet its setter and deleter - part of the '
              'property object in Python (C.secret.fset / C.secret.fdel; C.__dict__ only has "secret"), and '
              'named pkg.m.C.secret.setter / pkg.m.C.secret.deleter by pydoctor itself, i.e. inside the hidden '
              'object - are still rendered: ' + '; '.join(traces) +
              ('. Likewise for PRIVATE: ' + '; '.join(unmarked) if unmarked else '') + '.')
        return 1
    print('property holds: nothing of the hidden property is left in the output')
    return 0

if __name__ == '__main__':
    sys.exit(main())
