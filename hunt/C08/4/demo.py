"""
C08: the markup error of a class docstring is not reported when an earlier class of the same
name (a definition that this class replaces) also had a markup error: the "report once" key of
reportErrors() is the full name the object had at that moment, and the replaced class is renamed afterwards.
"""
import contextlib, io, os, re, sys, tempfile
from pathlib import Path

tmp = tempfile.mkdtemp(prefix='c08-4-')
os.chdir(tmp)

SRC = '''
class Transport:
    """
    Provisional definition, replaced below; see L{open_transport.
    """

class Transport:
    """
    The transport everybody uses. Call B{close when done.
    """
'''
FIRST_DOC_LINE, SECOND_DOC_LINE = 4, 9

from pydoctor import driver

def run(name, src):
    os.mkdir(name)
    Path(name, 'net.py').write_text(src)
    out = io.StringIO()
    with contextlib.redirect_stdout(out), contextlib.redirect_stderr(out):
        rc = driver.main(['--docformat=epytext', f'--html-output={name}/out', '--project-name=demo', f'{name}/net.py'])
    log = out.getvalue()
    lines = sorted(int(m.group(1)) for m in re.finditer(r'net\.py:(\d+): bad docstring', log))
    html = Path(name, 'out', 'net.Transport.html').read_text()
    return rc, lines, html, log

# control: only the second (final) class has a broken docstring -> it is reported
rc0, lines0, html0, _ = run('control', SRC.replace('see L{open_transport.', 'see L{open_transport}.'))
rc1, lines1, html1, log1 = run('both', SRC)

plain0 = 'class="pre">The transport everybody uses' in html0
plain1 = 'class="pre">The transport everybody uses' in html1
print(f'control run: exit {rc0}, net.Transport shown as plain text: {plain0}, "bad docstring" reported at lines {lines0}')
print(f'both broken: exit {rc1}, net.Transport shown as plain text: {plain1}, "bad docstring" reported at lines {lines1}')
m = re.search(r"these \d+ objects' docstrings contain syntax errors:.*", log1, re.S)
print(m.group(0) if m else '')

if plain1 and SECOND_DOC_LINE in lines0 and SECOND_DOC_LINE not in lines1:
    sys.exit(
        "C08 VIOLATED: the epytext parser gives up on the docstring of the documented class net.Transport "
        f"(unbalanced '{{' at net.py:{SECOND_DOC_LINE}) and the page shows it as plain text, but the problem is "
        f"NOT reported against that object: the only message is about line {FIRST_DOC_LINE}, the docstring of the "
        "replaced class (now named 'net.Transport 0'). In the control run, where only the final class is broken, the "
        f"same error IS reported at line {SECOND_DOC_LINE}. reportErrors() had already recorded ('docstring', "
        "'net.Transport', 'parsing') for the first class before it was renamed, and silently drops the second report.")
print('property holds')
