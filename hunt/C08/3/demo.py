"""
C08: a docstring on which the reStructuredText parser fails changes how the NEXT docstring
is parsed: the default interpreted-text role set by the failing docstring leaks.
"""
import contextlib, io, os, sys, tempfile
from pathlib import Path

tmp = tempfile.mkdtemp(prefix='c08-3-')
os.chdir(tmp)

TEMPLATE = '''
class Diagram:
    """
    A diagram.
{extra}    """

class Renderer:
    """Draws a `Diagram` on the screen."""
'''

# The figure directive of docutils raises UnboundLocalError when its content yields no node
# (internal failure of the parser); the content happens to be a default-role directive.
BROKEN = '''
    .. figure:: diagram.png

       .. default-role:: literal
'''

# Same leak with a failure that does not depend on a docutils bug: block quotes nested 300 levels
# deep make the recursive-descent parser of docutils hit the recursion limit (RecursionError).
DEEP = '\n    .. default-role:: literal\n\n' + ''.join('    ' + ' ' * i + 'level %d\n\n' % i for i in range(300))

from pydoctor import driver

def build(name, extra):
    os.mkdir(name)
    Path(name, 'shapes.py').write_text(TEMPLATE.format(extra=extra))
    out = io.StringIO()
    with contextlib.redirect_stdout(out), contextlib.redirect_stderr(out):
        rc = driver.main(['--docformat=restructuredtext', f'--html-output={name}/out',
                          '--project-name=demo', f'{name}/shapes.py'])
    html = Path(name, 'out', 'shapes.Renderer.html').read_text()
    start = html.index('Draws a')
    return rc, out.getvalue(), html[start - 10: html.index('on the screen', start) + 14]

rc1, log1, renderer_ok = build('good', '')
rc2, log2, renderer_after_broken = build('broken', BROKEN)
rc3, log3, renderer_after_deep = build('deep', DEEP)

print('--- Renderer docstring when Diagram docstring is fine (exit code %s):' % rc1)
print(renderer_ok)
print('--- Renderer docstring when Diagram docstring makes the parser fail (exit code %s):' % rc2)
print(renderer_after_broken)
print('--- problems reported in the second run:')
print('\n'.join(l for l in log2.splitlines() if 'shapes.py' in l and ':' in l))

print('--- Renderer docstring when Diagram docstring is nested too deeply (exit code %s):' % rc3)
print(renderer_after_deep)
print('\n'.join(l for l in log3.splitlines() if 'bad docstring' in l))

linked_before = 'shapes.Diagram.html' in renderer_ok
linked_after = 'shapes.Diagram.html' in renderer_after_broken and 'shapes.Diagram.html' in renderer_after_deep
if linked_before and not linked_after:
    sys.exit(
        "C08 VIOLATED: the parser fails on the docstring of class Diagram (UnboundLocalError inside docutils' figure directive, or RecursionError for the deeply nested variant; "
        "reported against shapes.Diagram, shown as plain text - fine), but the docstring of the OTHER class "
        "Renderer, which did not change and is reported to have no problem, is now rendered differently: "
        "`Diagram` is no longer a cross-reference link to shapes.Diagram.html but a <tt> literal, because the "
        "'default-role' set by the failing docstring is still in force when the next docstring is parsed. "
        "The property demands that no other object is affected.")
print('property holds')
