"""
C08: docutils gives up on a reStructuredText (or google / numpy) docstring that has a line longer
than its line-length-limit (10000 characters): nothing of the docstring is shown.
"""
import contextlib, io, os, sys, tempfile
from pathlib import Path

tmp = tempfile.mkdtemp(prefix='c08-2-')
os.chdir(tmp)

blob = 'QUJD' * 2501   # 10004 characters on a single line, e.g. an embedded key or test vector
SRC = f'''
def decode(data):
    """
    Decode a payload. UNIQUE-SUMMARY-MARKER.

    A reference payload is::

        {blob}

    Returns the decoded bytes. UNIQUE-TAIL-MARKER.
    """
'''
Path('codec.py').write_text(SRC)

from pydoctor import driver
failures = []
for fmt in ('restructuredtext', 'google', 'numpy'):
    out = io.StringIO()
    with contextlib.redirect_stdout(out), contextlib.redirect_stderr(out):
        rc = driver.main([f'--docformat={fmt}', f'--html-output=out-{fmt}', '--project-name=demo', 'codec.py'])
    log = out.getvalue()
    html = Path(f'out-{fmt}/codec.html').read_text()
    reported = [l for l in log.splitlines() if 'bad docstring' in l]
    shown = 'UNIQUE-SUMMARY-MARKER' in html and 'UNIQUE-TAIL-MARKER' in html and blob in html
    print(f'[{fmt}] exit code {rc}; reported: {reported}; '
          f'summary marker in page: {"UNIQUE-SUMMARY-MARKER" in html}; tail marker in page: {"UNIQUE-TAIL-MARKER" in html}')
    if reported and not shown:
        failures.append(fmt)

if failures:
    sys.exit(
        f"C08 VIOLATED for docformat {', '.join(failures)}: docutils gave up on the docstring of codec.decode "
        "('Line 5 exceeds the line-length-limit.', nothing was parsed). pydoctor reports the problem but keeps the "
        "empty document: the page shows an empty <div></div> for the function and 'No summary' in the listings; "
        "neither the summary, nor the payload, nor the last paragraph of the original text appear anywhere, "
        "whereas the property demands that the complete original text is still shown as plain text.")
print('property holds')
