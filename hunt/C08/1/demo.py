"""
C08: a docstring FIELD whose body cannot be rendered is replaced by "Broken description";
the original text is not shown as plain text anywhere on the page.
"""
import contextlib, io, os, sys, tempfile
from pathlib import Path

tmp = tempfile.mkdtemp(prefix='c08-1-')
os.chdir(tmp)

# A non-raw docstring that mentions '\f': the docstring really contains a form feed
# character (U+000C), legal in a Python string, not allowed in XML.
SRC = '''
def split_pages(text, sep='\\f'):
    """
    Split a text into pages.

    @param text: The text to split.
    @param sep: The page separator, a form feed ('\\f') by default.
    @return: The list of pages.
    """
'''
Path('pagesplit.py').write_text(SRC)

from pydoctor import driver
out = io.StringIO()
with contextlib.redirect_stdout(out), contextlib.redirect_stderr(out):
    rc = driver.main(['--docformat=epytext', '--html-output=out', '--project-name=demo', 'pagesplit.py'])
log = out.getvalue()
html = Path('out/pagesplit.html').read_text()

reported = 'bad docstring' in log
broken = 'Broken description' in html
text_shown = 'The page separator, a form feed' in html

print('pydoctor exit code:', rc)
print('problem reported   :', reported, '->', [l for l in log.splitlines() if 'bad docstring' in l])
print('"Broken description" in page :', broken)
print('original field text in page  :', text_shown)

if broken and not text_shown:
    sys.exit(
        "C08 VIOLATED: the renderer failed on the body of the '@param sep' field (form feed character, "
        "SAXParseException). The problem is reported, but the page of pagesplit.split_pages shows "
        "'Broken description' in the parameter table and the text of the field ('The page separator, a form "
        "feed ...') appears nowhere: the complete original text of the docstring is NOT shown as plain text, "
        "although the property demands that any internal failure of a renderer degrades to plain text.")
print('property holds')
