"""
C09 - a variable field (@ivar / @cvar / @var, :ivar x:, "Attributes:") of a class or module docstring
whose name is later defined by a property, a method or a nested class is silently discarded:
extract_fields() stores the text on a placeholder Attribute which the later definition replaces
(System.handleDuplicate), and nothing tells the user.
"""
import contextlib, html, io, os, re, sys, tempfile
from pathlib import Path

SRC = '''\
class Tank:
    """
    A water tank.

    @ivar volume: Platypusvolume in litres of the tank.
    @type volume: echidnatype
    @ivar level: Koalalevel of the water, a plain attribute.
    @ivar drain: Possumdrain callable that empties the tank.
    """

    level = 0

    @property
    def volume(self):
        return 1000

    def drain(self):
        pass
'''

def visible_text(page: str) -> str:
    page = re.sub(r'(?s)<(script|style)\b.*?</\1>', '', page)
    return html.unescape(re.sub(r'<[^>]+>', ' ', page))

def main() -> int:
    tmp = tempfile.mkdtemp(prefix='c09-ivar-')
    os.chdir(tmp)
    Path('tankmod.py').write_text(SRC)

    from pydoctor import driver
    out = io.StringIO()
    with contextlib.redirect_stdout(out), contextlib.redirect_stderr(out):
        try:
            driver.main(['--docformat=epytext', '--html-output=' + os.path.join(tmp, 'html'),
                         '--project-name=demo', os.path.join(tmp, 'tankmod.py')])
        except SystemExit:
            pass
    log = out.getvalue()
    alltext = ' '.join(visible_text(p.read_text()) for p in Path(tmp, 'html').glob('*.html'))
    classpage = visible_text(Path(tmp, 'html', 'tankmod.Tank.html').read_text())

    lost = [w for w in ('Platypusvolume', 'echidnatype', 'Possumdrain') if w not in alltext and w not in log]
    control = 'Koalalevel' in classpage
    if lost:
        undocumented = re.findall(r'(volume|drain)[^A-Za-z]+Undocumented', classpage)
        print('PROPERTY C09 VIOLATED: in\n\n' + SRC + '\nthe class docstring is well formed epytext and documents three '
              'variables with @ivar fields. The field for the plain attribute is shown under "level" ('
              + ('yes' if control else 'NO') + '), but the text of the fields whose name is defined by a property '
              '(volume, with its @type) and by a method (drain) is shown on no page and mentioned in no message: lost words '
              + ', '.join(lost) + '; the entries ' + ', '.join(sorted(set(undocumented))) + ' are listed as "Undocumented". '
              'pydoctor messages about the module: ' + (' | '.join(l for l in log.splitlines() if 'tankmod.py:' in l) or '(none)'))
        return 1
    print('the @ivar texts are rendered or reported; property holds on this input')
    return 0

if __name__ == '__main__':
    sys.exit(main())
