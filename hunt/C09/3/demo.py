"""
C09 - numpy docformat: a free-form "Returns" (or "Yields") text that contains a colon is
re-assembled from the two halves without the colon and without the blank: two words are merged.
"""
import contextlib, html, io, os, re, sys, tempfile
from pathlib import Path

DOC = '''\
Compute something.

Returns
-------
The computed wallabyvalue: dingonumber that was computed.
'''
DOC_Y = '''\
Generate something.

Yields
------
Successive emuitems : kiwichunks of the input.
'''

def visible_text(page: str) -> str:
    page = re.sub(r'(?s)<(script|style)\b.*?</\1>', '', page)
    return html.unescape(re.sub(r'<[^>]+>', ' ', page))

def indent(doc: str) -> str:
    return ''.join('    ' + l if l.strip() else l for l in doc.splitlines(True))

def main() -> int:
    tmp = tempfile.mkdtemp(prefix='c09-returns-')
    os.chdir(tmp)
    Path('retmod.py').write_text(
        'def compute():\n    """\n' + indent(DOC) + '    """\n\n'
        'def generate():\n    """\n' + indent(DOC_Y) + '    """\n')

    from pydoctor import driver
    out = io.StringIO()
    with contextlib.redirect_stdout(out), contextlib.redirect_stderr(out):
        try:
            driver.main(['--docformat=numpy', '--html-output=' + os.path.join(tmp, 'html'),
                         '--project-name=demo', os.path.join(tmp, 'retmod.py')])
        except SystemExit:
            pass
    log = out.getvalue()
    page = Path(tmp, 'html', 'retmod.html').read_text()
    # keep the text of each table cell in one piece: tags inside a word would otherwise hide a merge
    text = html.unescape(re.sub(r'<[^>]+>', '', page))

    problems = []
    for left, right in (('wallabyvalue', 'dingonumber'), ('emuitems', 'kiwichunks')):
        if left + right in text:
            m = re.search(r'>([^<>]*' + left + right + r'[^<>]*)<', page)
            shown = html.unescape(m.group(1)).strip() if m else left + right
            problems.append(f'"{left}: {right}" is rendered as "{shown}"')
        elif not re.search(left + r'\s*:?\s+' + right, text):
            problems.append(f'"{left}" and "{right}" are not rendered as two consecutive words')
    if problems:
        print('PROPERTY C09 VIOLATED (numpy): the docstrings\n\n' + DOC + '\nand\n\n' + DOC_Y +
              '\nare well formed free-form Returns / Yields sections, but their text is altered: ' + '; '.join(problems) +
              '. The colon and the white space around it are removed and the two neighbouring words become one word. '
              'pydoctor messages about the module: ' + (' | '.join(l for l in log.splitlines() if 'retmod.py:' in l) or '(none)'))
        return 1
    print('the Returns / Yields text is rendered unchanged; property holds on this input')
    return 0

if __name__ == '__main__':
    sys.exit(main())
