"""
C09 - a reStructuredText docstring whose body is one section (a title followed by text)
loses its title: docutils' DocTitle transform promotes the lone top-level section title to
the *document* title (and a lone sub-section title to the document subtitle), and the HTML
translator moves document titles out of the ``body`` part that pydoctor keeps.
"""
import contextlib, html, io, os, re, sys, tempfile
from pathlib import Path

DOC_LONE = '''\
Zebratitle overview
===================

Bodyword one two three.
'''
DOC_SUB = '''\
Quaggatitle main
================

Okapisubtitle part
------------------

Bodyword four five six.
'''
DOC_CONTROL = '''\
Intro paragraph first.

Gnutitle overview
=================

Bodyword seven eight.
'''

def visible_text(page: str) -> str:
    page = re.sub(r'(?s)<(script|style)\b.*?</\1>', '', page)
    return html.unescape(re.sub(r'<[^>]+>', ' ', page))

def main() -> int:
    tmp = tempfile.mkdtemp(prefix='c09-title-')
    os.chdir(tmp)
    src = 'def lone():\n    """\n' + ''.join('    ' + l if l.strip() else l for l in DOC_LONE.splitlines(True)) + '    """\n\n'
    src += 'def sub():\n    """\n' + ''.join('    ' + l if l.strip() else l for l in DOC_SUB.splitlines(True)) + '    """\n\n'
    src += 'def control():\n    """\n' + ''.join('    ' + l if l.strip() else l for l in DOC_CONTROL.splitlines(True)) + '    """\n'
    Path('titlemod.py').write_text(src)

    from pydoctor import driver
    out = io.StringIO()
    with contextlib.redirect_stdout(out), contextlib.redirect_stderr(out):
        try:
            driver.main(['--docformat=restructuredtext', '--html-output=' + os.path.join(tmp, 'html'),
                         '--project-name=demo', os.path.join(tmp, 'titlemod.py')])
        except SystemExit:
            pass
    log = out.getvalue()
    text = visible_text(Path(tmp, 'html', 'titlemod.html').read_text())
    alltext = ' '.join(visible_text(p.read_text()) for p in Path(tmp, 'html').glob('*.html'))

    problems = []
    for word in ('Zebratitle', 'Quaggatitle', 'Okapisubtitle'):
        if word not in alltext:
            warned = word in log
            problems.append(f'{word!r} (a section title) appears in no generated page'
                            + ('' if warned else ' and in no warning'))
    ok_control = 'Gnutitle' in text and all(w in text for w in ('Bodyword one', 'Bodyword four', 'Bodyword seven'))
    if problems:
        print('PROPERTY C09 VIOLATED: the restructuredtext docstrings\n\n' + DOC_LONE + '\nand\n\n' + DOC_SUB +
              '\nare well formed (a section, and a section with a sub-section), but their titles are not rendered: '
              + '; '.join(problems) + '. The bodies are rendered (' + ('yes' if ok_control else 'NO') +
              ') and the same title preceded by a paragraph ("Gnutitle") is rendered, so the text of a title is lost only '
              'when the section is the sole top-level element of the docstring. pydoctor output was:\n' + (log.strip() or '(no message)'))
        return 1
    print('titles are rendered; property holds on this input')
    return 0

if __name__ == '__main__':
    sys.exit(main())
