"""
C09 - numpy docformat: the text of a "See Also" section is parsed as a list of object names;
prose is cut down to its first word, and a description indented under a comma separated list of
names is dropped. Nothing is reported.
"""
import contextlib, html, io, os, re, sys, tempfile
from pathlib import Path

DOC_PROSE = '''\
Summary of prose.

See Also
--------
Consult the wombatmanual chapter seven for quokkadetails.
'''
DOC_LIST = '''\
Summary of list.

See Also
--------
func_a, func_b
    Numbatdescription shared by both functions.
func_c : bilbydescription of c
'''

def visible_text(page: str) -> str:
    page = re.sub(r'(?s)<(script|style)\b.*?</\1>', '', page)
    return html.unescape(re.sub(r'<[^>]+>', ' ', page))

def indent(doc: str) -> str:
    return ''.join('    ' + l if l.strip() else l for l in doc.splitlines(True))

def main() -> int:
    tmp = tempfile.mkdtemp(prefix='c09-seealso-')
    os.chdir(tmp)
    Path('seemod.py').write_text(
        'def prose():\n    """\n' + indent(DOC_PROSE) + '    """\n\n'
        'def listed():\n    """\n' + indent(DOC_LIST) + '    """\n\n'
        'def func_a(): "a"\n\ndef func_b(): "b"\n\ndef func_c(): "c"\n')

    from pydoctor import driver
    out = io.StringIO()
    with contextlib.redirect_stdout(out), contextlib.redirect_stderr(out):
        try:
            driver.main(['--docformat=numpy', '--html-output=' + os.path.join(tmp, 'html'),
                         '--project-name=demo', os.path.join(tmp, 'seemod.py')])
        except SystemExit:
            pass
    log = out.getvalue()
    alltext = ' '.join(visible_text(p.read_text()) for p in Path(tmp, 'html').glob('*.html'))

    lost = [w for w in ('wombatmanual', 'quokkadetails', 'Numbatdescription') if w not in alltext and w not in log]
    kept = [w for w in ('Consult', 'bilbydescription', 'Summary of prose', 'Summary of list') if w in alltext]
    if lost:
        seealso = re.findall(r'See Also\s+(.*?)\s{3,}', alltext)
        print('PROPERTY C09 VIOLATED (numpy): the docstrings\n\n' + DOC_PROSE + '\nand\n\n' + DOC_LIST +
              '\nare well formed, but words of their "See Also" sections are rendered nowhere and mentioned in no warning: '
              + ', '.join(lost) + '. Rendered instead (kept words: ' + ', '.join(kept) + '); the prose sentence is reduced to its '
              'first word "Consult", shown as a cross reference, and the description indented under "func_a, func_b" is gone. '
              'Warnings mentioning the lost text: none. pydoctor messages about seemod: '
              + (' | '.join(l for l in log.splitlines() if 'seemod.py:' in l or 'seemod:' in l) or '(none)'))
        return 1
    print('all words of the See Also sections are rendered; property holds on this input')
    return 0

if __name__ == '__main__':
    sys.exit(main())
