"""
C05 - class-private names (``__name``, mangled by Python to ``_Class__name``) are treated as ordinary members:
Sub.__setup is said to override Base.__setup, inherits its docstring, and hides it from Sub's inherited members,
although at run time the two are unrelated attributes and Base's one is still what Sub inherits.
"""
import contextlib, importlib, inspect, io, os, re, sys, tempfile, textwrap
from pathlib import Path

SRC = '''
class Base:
    def __setup(self):
        "Base.__setup doc"
        return 'base'
    def start(self):
        return self.__setup()

class Sub(Base):
    def __setup(self):
        return 'sub'
'''

def main() -> int:
    tmp = Path(tempfile.mkdtemp(prefix='c05_3_'))
    os.chdir(tmp)
    (tmp / 'mangle.py').write_text(textwrap.dedent(SRC))

    sys.path.insert(0, str(tmp))
    py = importlib.import_module('mangle')
    sub_dict = sorted(k for k in py.Sub.__dict__ if 'setup' in k)
    base_dict = sorted(k for k in py.Base.__dict__ if 'setup' in k)
    # attribute lookup along the MRO of Sub
    definer_of_base_one = next(c.__name__ for c in py.Sub.__mro__ if '_Base__setup' in c.__dict__)
    overridden = [c.__name__ for c in py.Sub.__mro__[1:] if '_Sub__setup' in c.__dict__]
    py_doc = inspect.getdoc(py.Sub.__dict__['_Sub__setup'])
    still_bases = py.Sub().start()   # 'base': Sub did not override anything

    from pydoctor import driver, model
    from pydoctor.options import Options
    out = io.StringIO()
    with contextlib.redirect_stdout(out):
        system = driver.get_system(Options.from_args(['--project-name=x', str(tmp / 'mangle.py')]))
        driver.main(['--project-name=x', '--html-output', str(tmp / 'html'), str(tmp / 'mangle.py')])
    sub_setup = system.allobjects['mangle.Sub.__setup']
    pd_doc, pd_src = model.get_docstring(sub_setup)
    sub_page = (tmp / 'html' / 'mangle.Sub.html').read_text()
    base_page = (tmp / 'html' / 'mangle.Base.html').read_text()
    overrides = re.findall(r'overrides <code><a [^>]*>([^<]+)<', sub_page)
    overridden_in = re.findall(r'overridden in <code><a [^>]*>([^<]+)<', base_page)
    rows = re.findall(r'<td><code><a href="[^"]*" class="internal-link" title="(mangle\.\w+\.\w+)">', sub_page)

    problems = []
    if pd_doc != py_doc:
        problems.append(f"Sub.__setup has no docstring and Python finds none to inherit (inspect.getdoc -> {py_doc!r}; "
                        f"no class of the MRO has '_Sub__setup' but Sub), pydoctor gives it {pd_doc!r} taken from {pd_src!r}")
    if overrides or overridden_in:
        problems.append(f"at run time Sub._Sub__setup overrides nothing (classes after Sub in the MRO that define it: {overridden}; "
                        f"Sub().start() still returns {still_bases!r}), the page of Sub says 'overrides {overrides}' and the "
                        f"page of Base says 'overridden in {overridden_in}'")
    if 'mangle.Base.__setup' not in rows:
        problems.append(f"Sub still inherits Base's method (Sub()._Base__setup is found in {definer_of_base_one}.__dict__), but the "
                        f"member tables of the page of Sub list only {rows}: Base.__setup is considered masked by Sub.__setup")
    if problems:
        print(f"C05 VIOLATED: Python mangles class-private names (Base.__dict__ has {base_dict}, Sub.__dict__ has {sub_dict}), so "
              "Sub.__setup and Base.__setup are different attributes and attribute lookup along the MRO never relates them; "
              "pydoctor matches them by their unmangled name: " + "; ".join(problems))
        return 1
    print("property holds on this input")
    return 0

if __name__ == '__main__':
    sys.exit(main())
