"""
C05 - a generic base that is subscripted twice (``Base[T][int]``) is not recognised as the class Base:
the linearisation of the subclass does not contain Base at all.
"""
import contextlib, importlib, inspect, io, os, re, sys, tempfile, textwrap
from pathlib import Path

SRC = '''
from typing import Generic, TypeVar
T = TypeVar('T')

class Base(Generic[T]):
    def run(self):
        "Base.run doc"
    def helper(self):
        "Base.helper doc"

class Child(Base[T][int]):
    "Child doc"
    def run(self):
        pass
'''

def main() -> int:
    tmp = Path(tempfile.mkdtemp(prefix='c05_1_'))
    os.chdir(tmp)
    (tmp / 'dsub.py').write_text(textwrap.dedent(SRC))

    # what Python does
    sys.path.insert(0, str(tmp))
    py = importlib.import_module('dsub')
    py_mro = [c.__name__ for c in py.Child.__mro__ if c.__module__ == 'dsub']
    py_helper = next(c.__name__ for c in py.Child.__mro__ if 'helper' in c.__dict__)
    py_doc = inspect.getdoc(py.Child.run)

    # what pydoctor does
    from pydoctor import driver, model
    from pydoctor.options import Options
    out = io.StringIO()
    with contextlib.redirect_stdout(out):
        system = driver.get_system(Options.from_args(['--project-name=x', str(tmp / 'dsub.py')]))
        rc = driver.main(['--project-name=x', '--html-output', str(tmp / 'html'), str(tmp / 'dsub.py')])
    child = system.allobjects['dsub.Child']
    assert isinstance(child, model.Class)
    pd_mro_full = [o if isinstance(o, str) else o.fullName() for o in child.mro(include_external=True)]
    pd_mro = [c.name for c in child.mro()]
    helper = child.find('helper')
    pd_helper = helper.parent.name if helper is not None else None
    pd_doc = model.get_docstring(child.contents['run'])[0]
    page = (tmp / 'html' / 'dsub.Child.html').read_text()
    inherited = re.findall(r'Inherited from <code><a [^>]*title="([^"]+)"', page)
    overrides = re.findall(r'overrides <code><a [^>]*>([^<]+)<', page)
    base_page = (tmp / 'html' / 'dsub.Base.html').read_text()
    known_sub = 'Known subclasses' in base_page

    problems = []
    if pd_mro != py_mro:
        problems.append(f"linearisation of Child: Python {py_mro}, pydoctor {pd_mro} (with externals: {pd_mro_full})")
    if pd_helper != py_helper:
        problems.append(f"Child().helper is defined by: Python {py_helper}, pydoctor find() -> {pd_helper}; "
                        f"'Inherited from' sections on the page of Child: {inherited}")
    if pd_doc != py_doc:
        problems.append(f"docstring of Child.run (it has none of its own): Python inherits {py_doc!r}, pydoctor {pd_doc!r}")
    if overrides != ['dsub.Base.run']:
        problems.append(f"Child.run overrides Base.run at run time, page of Child says overrides {overrides}")
    if not known_sub:
        problems.append("page of Base does not list Child as a known subclass")
    if problems:
        print("C05 VIOLATED: 'class Child(Base[T][int])' is legal (Base[T][int] is Base[int], CPython builds Child with "
              "bases (Base,)), Base is a documented class, pydoctor reports no problem (exit code %r, messages: %r) "
              "but treats the base as the unknown external name 'Base[T][int]': " % (rc, [l for l in out.getvalue().splitlines() if 'dsub.py:' in l])
              + "; ".join(problems))
        return 1
    print("property holds on this input")
    return 0

if __name__ == '__main__':
    sys.exit(main())
