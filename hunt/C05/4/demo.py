"""
C05 - a subclass that overrides an inherited *method* (or nested class) by an assignment whose value is not a
literal (``run = make_runner()``) loses that definition: the assignment is dropped because the name is found,
through the bases, to be "something else than an attribute".
"""
import contextlib, importlib, inspect, io, os, re, sys, tempfile, textwrap
from pathlib import Path

SRC = '''
def make_runner():
    def runner(self):
        "generated runner doc"
    return runner

class Base:
    def run(self):
        "Base.run doc"
    def stop(self):
        "Base.stop doc"

class Sub(Base):
    run = make_runner()
    stop = None          # a literal: this one pydoctor does record

class Leaf(Sub):
    pass
'''

def main() -> int:
    tmp = Path(tempfile.mkdtemp(prefix='c05_4_'))
    os.chdir(tmp)
    (tmp / 'wrapped.py').write_text(textwrap.dedent(SRC))

    sys.path.insert(0, str(tmp))
    py = importlib.import_module('wrapped')

    from pydoctor import driver, model
    from pydoctor.options import Options
    out = io.StringIO()
    with contextlib.redirect_stdout(out):
        system = driver.get_system(Options.from_args(['--project-name=x', str(tmp / 'wrapped.py')]))
        driver.main(['--project-name=x', '--html-output', str(tmp / 'html'), str(tmp / 'wrapped.py')])

    problems = []
    for clsname in ('Sub', 'Leaf'):
        pcls = system.allobjects[f'wrapped.{clsname}']
        assert isinstance(pcls, model.Class)
        page = (tmp / 'html' / f'wrapped.{clsname}.html').read_text()
        rows = dict((name, owner) for owner, name in
                    re.findall(r'<td><code><a href="[^"]*" class="internal-link" title="wrapped\.(\w+)\.\w+">(\w+)</a>', page))
        for member in ('run', 'stop'):
            expected = next(c.__name__ for c in getattr(py, clsname).__mro__ if member in c.__dict__)
            found = pcls.find(member)
            got = found.parent.name if found is not None else None
            if got != expected or rows.get(member) != expected:
                problems.append(f"{clsname}.{member}: Python finds it in {expected}.__dict__, pydoctor's {clsname}.find({member!r}) "
                                f"gives {found!r} and the page of {clsname} lists it as a member of {rows.get(member)}")
    py_doc = inspect.getdoc(py.Leaf.run)
    pd_run = system.allobjects['wrapped.Leaf'].find('run')
    pd_doc = model.get_docstring(pd_run)[0] if pd_run is not None else None
    if pd_doc != py_doc:
        problems.append(f"docstring of Leaf.run: Python {py_doc!r}, pydoctor {pd_doc!r}")
    base_page = (tmp / 'html' / 'wrapped.Base.html').read_text()
    run_block = base_page[base_page.find('<a name="wrapped.Base.run">'):base_page.find('<a name="wrapped.Base.stop">')]
    if 'overridden in' not in run_block:
        problems.append("the page of Base does not say that run is overridden in Sub (it does say so for stop)")

    if problems:
        sub = system.allobjects['wrapped.Sub']
        print("C05 VIOLATED: Sub overrides the inherited method 'run' by an assignment (Sub.__dict__['run'] is "
              f"{py.Sub.__dict__['run'].__qualname__}), pydoctor silently drops that assignment because Sub.find('run') reaches "
              f"Base.run, which is not an Attribute (Sub.contents = {sorted(sub.contents)}; the literal assignment to 'stop' is kept), "
              "so 'run' stays attributed to Base in Sub and below: " + "; ".join(problems))
        return 1
    print("property holds on this input")
    return 0

if __name__ == '__main__':
    sys.exit(main())
