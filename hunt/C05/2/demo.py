"""
C05 - a subclass that overrides an inherited member by assigning a *name* to it (``limit = DEFAULT_LIMIT``,
``run = show``) is not seen as defining that member: pydoctor keeps attributing it to the base class.
"""
import contextlib, importlib, inspect, io, os, re, sys, tempfile, textwrap
from pathlib import Path

SRC = '''
DEFAULT_LIMIT = 10

class Base:
    limit = 1
    def run(self):
        "Base.run doc"

class Sub(Base):
    limit = DEFAULT_LIMIT
    def show(self):
        "Sub.show doc"
    run = show

class Leaf(Sub):
    pass
'''

def main() -> int:
    tmp = Path(tempfile.mkdtemp(prefix='c05_2_'))
    os.chdir(tmp)
    (tmp / 'namebind.py').write_text(textwrap.dedent(SRC))

    sys.path.insert(0, str(tmp))
    py = importlib.import_module('namebind')
    def py_definer(cls, name):
        return next(c.__name__ for c in cls.__mro__ if name in c.__dict__)

    from pydoctor import driver, model
    from pydoctor.options import Options
    out = io.StringIO()
    with contextlib.redirect_stdout(out):
        system = driver.get_system(Options.from_args(['--project-name=x', str(tmp / 'namebind.py')]))
        driver.main(['--project-name=x', '--html-output', str(tmp / 'html'), str(tmp / 'namebind.py')])

    problems = []
    for clsname in ('Sub', 'Leaf'):
        pcls = system.allobjects[f'namebind.{clsname}']
        assert isinstance(pcls, model.Class)
        page = (tmp / 'html' / f'namebind.{clsname}.html').read_text()
        # every row of the member tables links to the object it documents: title="<module>.<Class>.<member>"
        rows = dict((name, owner) for owner, name in
                    re.findall(r'<td><code><a href="[^"]*" class="internal-link" title="namebind\.(\w+)\.\w+">(\w+)</a>', page))
        for member in ('limit', 'run'):
            expected = py_definer(getattr(py, clsname), member)
            found = pcls.find(member)
            got = found.parent.name if found is not None else None
            if got != expected or rows.get(member) != expected:
                problems.append(f"{clsname}.{member}: Python finds it in {expected}.__dict__, pydoctor's {clsname}.find({member!r}) "
                                f"gives {found!r} and the page of {clsname} lists it as a member of {rows.get(member)}")
    sub = system.allobjects['namebind.Sub']
    py_doc = inspect.getdoc(py.Leaf.run)
    pd_run = system.allobjects['namebind.Leaf'].find('run')
    pd_doc = model.get_docstring(pd_run)[0] if pd_run is not None else None
    if pd_doc != py_doc:
        problems.append(f"docstring of Leaf.run: Python {py_doc!r}, pydoctor {pd_doc!r}")
    base_page = (tmp / 'html' / 'namebind.Base.html').read_text()
    if 'overridden in' not in base_page:
        problems.append("the page of Base does not say that limit/run are overridden in Sub")

    if problems:
        print("C05 VIOLATED: Sub rebinds the inherited members 'limit' and 'run' in its own body (Sub.__dict__ has both, "
              f"sorted(Sub.__dict__) = {sorted(k for k in py.Sub.__dict__ if not k.startswith('__'))}), but pydoctor records an "
              f"assignment whose value is a name only as an alias, so Sub.contents = {sorted(sub.contents)} and the members stay "
              "attributed to Base for Sub and for everything below it: " + "; ".join(problems))
        return 1
    print("property holds on this input")
    return 0

if __name__ == '__main__':
    sys.exit(main())
