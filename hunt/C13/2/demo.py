"""
C13 finding 2: matching a --privacy pattern with several '*' against a longer name that does not match
takes time exponential in the number of stars: the privacy of the object is never determined.

Run: cd /tmp && PYTHONPATH=/tmp/hunt-C13 /venv/bin/python /tmp/hunt-C13/found/2/demo.py
"""
import fnmatch
import os
import subprocess
import sys
import tempfile
import time
from pathlib import Path

NAME = 'a' * 40                      # a legal (if dull) function name
STARS = 14
PATTERN = 'mod.' + '*a' * STARS + '*b'   # 34 characters; cannot match: the name has no 'b'
TIMEOUT = 40


def child() -> None:
    """Build the system with driver-level API and ask for the privacy of mod.aaaa...a"""
    tmp = sys.argv[2]
    os.chdir(tmp)
    from pydoctor.options import Options
    from pydoctor.driver import get_system
    system = get_system(Options.from_args([
        '--quiet', '--quiet', '--html-output', os.path.join(tmp, 'out'),
        '--privacy=HIDDEN:' + sys.argv[3],
        os.path.join(tmp, 'mod.py')]))
    ob = system.allobjects['mod.' + NAME]
    t = time.time()
    print(ob.privacyClass.name, '%.3f' % (time.time() - t))


def main() -> None:
    tmp = tempfile.mkdtemp(prefix='c13-2-')
    os.chdir(tmp)
    Path(tmp, 'mod.py').write_text(f'def {NAME}():\n    "doc"\n')

    # What the answer is: the pattern does not match (CPython's own fnmatch, the ancestor of qnmatch, agrees:
    # there is no dot in the tail so '*' means the same for both) => default privacy, PUBLIC.
    t = time.time()
    assert not fnmatch.fnmatchcase('mod.' + NAME, PATTERN)
    t_fnmatch = time.time() - t

    # growth of the time pydoctor needs, on smaller instances of the same pattern family
    growth = []
    for stars in (4, 6, 8):     # (10 stars already take about a minute, 12 stars more than 6 minutes)
        pat = 'mod.' + '*a' * stars + '*b'
        out = subprocess.run([sys.executable, __file__, '--child', tmp, pat],
                             capture_output=True, text=True, timeout=600).stdout.split()
        growth.append(f"{stars} stars: {out[0]} after {out[1]}s")

    t = time.time()
    try:
        res = subprocess.run([sys.executable, __file__, '--child', tmp, PATTERN],
                             capture_output=True, text=True, timeout=TIMEOUT)
    except subprocess.TimeoutExpired:
        print(f"PROPERTY C13 VIOLATED: with --privacy={'HIDDEN:' + PATTERN!r} the privacy of the function "
              f"'mod.{NAME}' is not determined at all: obj.privacyClass did not return within {TIMEOUT}s "
              f"(pydoctor hangs the same way when it renders the object). The documented answer is PUBLIC "
              f"(the pattern needs a 'b', the name has none; fnmatch.fnmatchcase says 'no match' in "
              f"{t_fnmatch:.4f}s). The time grows exponentially with the number of '*' in the pattern "
              f"({'; '.join(growth)}), because qnmatch.translate() turns every '*' into an independent lazy "
              f"'[^\\.]*?' and re backtracks over all the ways to split the name between them.")
        sys.exit(1)
    out = res.stdout.split()
    if out and out[0] == 'PUBLIC':
        print(f"property holds: {out} in {time.time() - t:.1f}s")
        sys.exit(0)
    print("unexpected result:", res.stdout, res.stderr)
    sys.exit(2)


if __name__ == '__main__':
    if len(sys.argv) > 1 and sys.argv[1] == '--child':
        child()
    else:
        main()
