"""
C13 finding 3: names made of underscores only ('__', '___', '____', ...) are PUBLIC by default although
they start with an underscore and are not dunders; '_' itself is PRIVATE.

Run: cd /tmp && PYTHONPATH=/tmp/hunt-C13 /venv/bin/python /tmp/hunt-C13/found/3/demo.py
"""
import os
import sys
import tempfile
from pathlib import Path

tmp = tempfile.mkdtemp(prefix='c13-3-')
os.chdir(tmp)

Path(tmp, 'mod.py').write_text('''\
_ = 1
"""throwaway"""
__ = 2
"""double throwaway, a common idiom next to '_'"""
___ = 3
"""triple"""
__x = 4
"""control: private"""
__x__ = 5
"""control: a real dunder, public"""
''')
Path(tmp, 'mod2.py').write_text('''\
class C:
    def _(self): "private"
    def __(self): "should be private too"
''')

from pydoctor.options import Options
from pydoctor.driver import get_system

system = get_system(Options.from_args([
    '--quiet', '--quiet', '--html-output', os.path.join(tmp, 'out'),
    os.path.join(tmp, 'mod.py'), os.path.join(tmp, 'mod2.py')]))


def is_dunder(name: str) -> bool:
    # '__something__': a double underscore on each side of a name -- the same definition CPython uses in
    # enum._is_dunder (len(name) > 4, name[:2] == name[-2:] == '__', name[2] != '_', name[-3] != '_').
    return len(name) > 4 and name[:2] == name[-2:] == '__' and name[2] != '_' and name[-3] != '_'


def documented(name: str) -> str:
    return 'PRIVATE' if name.startswith('_') and not is_dunder(name) else 'PUBLIC'


rows = []
bad = []
for fn in ('mod._', 'mod.__', 'mod.___', 'mod.__x', 'mod.__x__', 'mod2.C._', 'mod2.C.__'):
    ob = system.allobjects[fn]
    got, exp = ob.privacyClass.name, documented(ob.name)
    rows.append(f"{fn} -> {got}")
    if got != exp:
        bad.append(f"{fn} is {got}, expected {exp}")

if bad:
    print("PROPERTY C13 VIOLATED: with no --privacy rule, names that start with an underscore and are not "
          "dunders must be PRIVATE, but names that consist of two or more underscores only are PUBLIC: "
          + "; ".join(bad) + f". (All results: {', '.join(rows)}.) '__' is not a dunder name -- there is "
          "nothing between a leading and a trailing double underscore; System.privacyClass() only tests "
          "name.startswith('__') and name.endswith('__'), which the same two characters satisfy at once.")
    sys.exit(1)
print("property holds:", rows)
