"""
C13 finding 1: an object whose 'kind' is None is HIDDEN whatever its name and whatever the --privacy rules say.
This happens to an ordinary, assigned and documented module variable as soon as the module docstring
gives its type with a "@type" field (and to attributes that are declared by a "@type" field only).

Run: cd /tmp && PYTHONPATH=/tmp/hunt-C13 /venv/bin/python /tmp/hunt-C13/found/1/demo.py
"""
import os
import sys
import tempfile
from pathlib import Path

tmp = tempfile.mkdtemp(prefix='c13-1-')
os.chdir(tmp)

Path(tmp, 'mod.py').write_text('''\
"""
Module doc.

@type x: int
"""

x = len('abc')
"""The x."""

y = len('abc')
"""The y (control: no @type field)."""

class C:
    """
    A class.

    @type t: int
    """
''')

from pydoctor.options import Options
from pydoctor.driver import get_system


def privacy_of(fullname, rules):
    args = ['--quiet', '--quiet', '--html-output', os.path.join(tmp, 'out')]
    for r in rules:
        args.append('--privacy=' + r)
    args.append(os.path.join(tmp, 'mod.py'))
    system = get_system(Options.from_args(args))
    ob = system.allobjects[fullname]
    return ob.privacyClass.name, ob.kind


problems = []

# control: the same variable without a @type field behaves as documented
assert privacy_of('mod.y', [])[0] == 'PUBLIC'
assert privacy_of('mod.y', ['PUBLIC:**', 'PRIVATE:mod.?'])[0] == 'PRIVATE'
assert privacy_of('mod.y', ['HIDDEN:mod.y', 'PRIVATE:mod.?'])[0] == 'HIDDEN'

for fn, pat in (('mod.x', 'mod.?'), ('mod.C.t', 'mod.C.?')):
    # 1. no rule at all: the name has no leading underscore => the documented default is PUBLIC
    #    (the manual even says "HIDDEN: Nothing is hidden by default").
    got, kind = privacy_of(fn, [])
    if got != 'PUBLIC':
        problems.append(f"no rules: {fn} (kind={kind}) is {got}, expected PUBLIC (no leading underscore)")
    # 2. an exact rule must override everything.
    got, kind = privacy_of(fn, ['PUBLIC:' + fn])
    if got != 'PUBLIC':
        problems.append(f"--privacy=PUBLIC:{fn} (exact rule): {fn} is {got}, expected PUBLIC")
    # 3. the manual's 'PUBLIC:**' ("Makes everything public"), then a PRIVATE pattern rule given last.
    got, kind = privacy_of(fn, ['PUBLIC:**'])
    if got != 'PUBLIC':
        problems.append(f"--privacy=PUBLIC:**: {fn} is {got}, expected PUBLIC")
    got, kind = privacy_of(fn, ['PUBLIC:**', 'PRIVATE:' + pat])
    if got != 'PRIVATE':
        problems.append(f"--privacy=PUBLIC:** --privacy=PRIVATE:{pat}: {fn} is {got}, expected PRIVATE "
                        f"(last matching pattern rule)")

if problems:
    print("PROPERTY C13 VIOLATED: the module variable mod.x (assigned with 'x = len(\"abc\")', has its own "
          "docstring, and its type is given by '@type x: int' in the module docstring) and the attribute "
          "mod.C.t (declared by '@type t: int' in the docstring of class C) do not get the privacy that the "
          "documented rules give to their qualified names, while the control variable mod.y does: "
          + "; ".join(problems) + ". System.privacyClass() returns HIDDEN for every object whose kind is "
          "None before it looks at the name or at the --privacy rules, and extract_fields() creates the "
          "Attribute for a '@type' field with kind=None; ModuleVistor._handleModuleVar() never gives it a "
          "kind when the assignment is visited (unlike _handleClassVar / _handleInstanceVar).")
    sys.exit(1)
print("property holds")
