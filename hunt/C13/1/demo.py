"""
C13 finding 1: an attribute that is only declared by a "@type" field is HIDDEN by default and
no --privacy rule (exact or pattern) can change that.

Run: cd /tmp && PYTHONPATH=/tmp/hunt-C13 /venv/bin/python /tmp/hunt-C13/found/1/demo.py
"""
import os
import sys
import tempfile
from pathlib import Path

tmp = tempfile.mkdtemp(prefix='c13-1-')
os.chdir(tmp)

Path(tmp, 'mod.py').write_text('''\
class C:
    """
    A class.

    @type x: int
    """
''')

from pydoctor.options import Options
from pydoctor.driver import get_system


def privacy_of(fullname, rules):
    args = ['--quiet', '--quiet', '--html-output', os.path.join(tmp, 'out')]
    for r in rules:
        args.append('--privacy=' + r)
    args.append(os.path.join(tmp, 'mod.py'))
    system = get_system(Options.from_args(args))
    ob = system.allobjects[fullname]
    return ob.privacyClass.name, ob.kind


problems = []

# 1. no rule at all: 'x' has no leading underscore => the documented default is PUBLIC
#    (the manual even says "HIDDEN: Nothing is hidden by default").
got, kind = privacy_of('mod.C.x', [])
if got != 'PUBLIC':
    problems.append(f"no rules: mod.C.x (kind={kind}) is {got}, expected PUBLIC (name has no leading underscore)")

# 2. an exact rule must override everything.
got, kind = privacy_of('mod.C.x', ['PUBLIC:mod.C.x'])
if got != 'PUBLIC':
    problems.append(f"--privacy=PUBLIC:mod.C.x (exact rule): mod.C.x is {got}, expected PUBLIC")

# 3. the manual's 'PUBLIC:**' ("Makes everything public"), and a PRIVATE rule given last.
got, kind = privacy_of('mod.C.x', ['PUBLIC:**'])
if got != 'PUBLIC':
    problems.append(f"--privacy=PUBLIC:**: mod.C.x is {got}, expected PUBLIC")
got, kind = privacy_of('mod.C.x', ['PUBLIC:**', 'PRIVATE:mod.C.?'])
if got != 'PRIVATE':
    problems.append(f"--privacy=PUBLIC:** --privacy=PRIVATE:mod.C.?: mod.C.x is {got}, expected PRIVATE (last matching pattern rule)")

if problems:
    print("PROPERTY C13 VIOLATED: the object mod.C.x (registered in system.allobjects, declared by the "
          "'@type x: int' field of the docstring of class C) does not get the privacy that the documented "
          "rules give to its qualified name: " + "; ".join(problems) + ". System.privacyClass() returns "
          "HIDDEN for every object whose kind is None before looking at the name or at the --privacy rules.")
    sys.exit(1)
print("property holds")
