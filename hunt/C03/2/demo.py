"""
C03: a module or class variable whose value is a plain (dotted) name -- NEW = OLD, SEP = os.sep,
run = helper -- is turned into an invisible alias and is not documented at all, although
executing the code binds it like any other variable.
"""
import contextlib, importlib, io, os, sys, tempfile, textwrap, types
from pathlib import Path

tmp = tempfile.mkdtemp(prefix='c03_alias_')
os.chdir(tmp)
pkg = Path(tmp) / 'aliaspkg'
pkg.mkdir()
(pkg / '__init__.py').write_text('')
(pkg / 'mod.py').write_text(textwrap.dedent('''
    import os

    LIMIT = 10
    DEFAULT_LIMIT = LIMIT
    SEP = os.sep

    def helper():
        "helper doc"
    run = helper

    class C:
        size = 1
        length = size
        def method(self):
            "method doc"
        call = method
    '''))

from pydoctor import model
system = model.System()
with contextlib.redirect_stdout(io.StringIO()):
    system.addPackage(pkg)
    system.process()

sys.path.insert(0, tmp)
mod = importlib.import_module('aliaspkg.mod')

def bound(ns):
    return sorted(n for n, v in vars(ns).items()
                  if not (n.startswith('__') and n.endswith('__'))
                  and not isinstance(v, types.ModuleType))

def documented(fullname):
    return sorted(system.allobjects[fullname].contents)

problems = []
for full, ns in (('aliaspkg.mod', mod), ('aliaspkg.mod.C', mod.C)):
    py, pd = bound(ns), documented(full)
    missing = [n for n in py if n not in pd]
    invented = [n for n in pd if n not in py]
    if missing or invented:
        problems.append(f'{full}: CPython binds {py}, pydoctor documents {pd} '
                        f'(missing: {missing}, invented: {invented})')

if problems:
    print('C03 VIOLATED: variables assigned a name are not documented (DEFAULT_LIMIT is the int 10, '
          'SEP a str, run a function, C.length an int, C.call a method for the interpreter). '
          + ' ; '.join(problems))
    sys.exit(1)
print('property holds')
