"""
C03: definitions in the *taken* else / except / finally clause of an if / try / for
statement are not documented at all (only the 'body' list of a compound statement is visited).
"""
import contextlib, importlib, io, os, sys, tempfile, textwrap, types
from pathlib import Path

tmp = tempfile.mkdtemp(prefix='c03_else_')
os.chdir(tmp)
pkg = Path(tmp) / 'elsepkg'
pkg.mkdir()
(pkg / '__init__.py').write_text('')
(pkg / 'mod.py').write_text(textwrap.dedent('''
    import sys

    if sys.version_info < (3,):
        pass
    else:
        # the branch the interpreter takes
        def only_py3():
            "defined in the taken else branch"
        PY3 = True

    try:
        import _no_such_accelerator_module_
    except ImportError:
        # the handler the interpreter takes
        accelerator = None
        def fallback():
            "defined in the taken except handler"
    
    try:
        pass
    except ValueError:
        pass
    else:
        def after_try():
            "defined in the taken else clause of try"
    finally:
        def cleanup():
            "defined in the finally clause, always executed"
        DONE = 1

    for _i in ():
        pass
    else:
        LOOP_ENDED = 1

    class K:
        if sys.version_info < (3,):
            pass
        else:
            def meth(self):
                "method defined in the taken else branch"
    '''))

from pydoctor import model
system = model.System()
with contextlib.redirect_stdout(io.StringIO()):
    system.addPackage(pkg)
    system.process()

sys.path.insert(0, tmp)
mod = importlib.import_module('elsepkg.mod')

def bound(ns):
    return sorted(n for n, v in vars(ns).items()
                  if not (n.startswith('__') and n.endswith('__'))
                  and not isinstance(v, types.ModuleType) and n != '_i')

def documented(fullname):
    return sorted(system.allobjects[fullname].contents)

problems = []
for full, ns in (('elsepkg.mod', mod), ('elsepkg.mod.K', mod.K)):
    py, pd = bound(ns), documented(full)
    missing = [n for n in py if n not in pd]
    invented = [n for n in pd if n not in py]
    if missing or invented:
        problems.append(f'{full}: CPython binds {py}, pydoctor documents {pd} '
                        f'(missing: {missing}, invented: {invented})')

if problems:
    print('C03 VIOLATED: definitions in taken else/except/finally clauses are not documented. '
          + ' ; '.join(problems))
    sys.exit(1)
print('property holds')
