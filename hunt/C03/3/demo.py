"""
C03: a package that re-exports a function named like the submodule that defines it
(from .glob import glob; __all__ = ['glob'] -- the tqdm/glob/pprint idiom) makes the whole
submodule disappear from the documentation: every other function and class it defines is
documented nowhere.
"""
import contextlib, importlib, io, os, sys, tempfile, textwrap, types
from pathlib import Path

tmp = tempfile.mkdtemp(prefix='c03_samename_')
os.chdir(tmp)
pkg = Path(tmp) / 'snpkg'
pkg.mkdir()
(pkg / '__init__.py').write_text(textwrap.dedent('''
    from .glob import glob
    __all__ = ['glob']
    '''))
(pkg / 'glob.py').write_text(textwrap.dedent('''
    def glob():
        "the main entry point"
    def escape():
        "another public function of snpkg.glob"
    class Matcher:
        "a class of snpkg.glob"
        def match(self):
            "a method"
    '''))

from pydoctor import model, driver
system = model.System()
with contextlib.redirect_stdout(io.StringIO()):
    system.addPackage(pkg)
    system.process()

# What is reachable from the roots through .contents, i.e. what gets a page or an anchor.
def walk(o):
    yield o.fullName()
    for c in o.contents.values():
        yield from walk(c)
documented = sorted(n for r in system.rootobjects for n in walk(r))

# The same through the command line: no page mentions the lost objects.
out = Path(tmp) / 'html'
with contextlib.redirect_stdout(io.StringIO()), contextlib.redirect_stderr(io.StringIO()):
    driver.main(['--html-output', str(out), '--project-name', 'snpkg', str(pkg)])
html = '\n'.join(p.read_text(errors='replace') for p in out.glob('*.html'))

sys.path.insert(0, tmp)
importlib.import_module('snpkg')
sub = importlib.import_module('snpkg.glob')      # the module object, sys.modules['snpkg.glob']
assert isinstance(sub, types.ModuleType)
py = sorted(n for n in vars(sub) if not (n.startswith('__') and n.endswith('__')))

lost = [n for n in py if n != 'glob'
        and not any(d.endswith('.' + n) for d in documented)]
if lost:
    print(f'C03 VIOLATED: CPython binds {py} in module snpkg.glob (and glob in snpkg); '
          f'pydoctor documents only {documented}: {lost} are documented in no namespace at all '
          f'(escape in the HTML output: {"escape" in html}, Matcher in the HTML output: {"Matcher" in html}); '
          f'the module object was renamed {sorted(n for n in system.allobjects if " " in n)} '
          'and dropped from the contents of the package when the function glob was moved over it.')
    sys.exit(1)
print('property holds')
