"""
C03: a property (or static/class method) created by calling the builtin in the class body --
x = property(_get_x, _set_x), create = staticmethod(_create) -- is documented as a plain
"class variable" without docstring; for the interpreter it is a property carrying the getter's
docstring (resp. a static method).
"""
import contextlib, importlib, inspect, io, os, sys, tempfile, textwrap
from pathlib import Path

tmp = tempfile.mkdtemp(prefix='c03_propcall_')
os.chdir(tmp)
pkg = Path(tmp) / 'proppkg'
pkg.mkdir()
(pkg / '__init__.py').write_text('')
(pkg / 'mod.py').write_text(textwrap.dedent('''
    class Temperature:
        def _get_celsius(self):
            """
            The temperature in degrees Celsius.
            """
            return self._c
        def _set_celsius(self, value):
            self._c = value
        celsius = property(_get_celsius, _set_celsius)
        kelvin = property(lambda self: self._c + 273.15, doc="The temperature in Kelvin.")

        def _make(value):
            "Build a Temperature."
        make = staticmethod(_make)
    '''))

from pydoctor import model
system = model.System()
with contextlib.redirect_stdout(io.StringIO()):
    system.addPackage(pkg)
    system.process()

sys.path.insert(0, tmp)
mod = importlib.import_module('proppkg.mod')

def py_kind(raw):
    if isinstance(raw, property): return 'PROPERTY'
    if isinstance(raw, staticmethod): return 'STATIC_METHOD'
    if isinstance(raw, classmethod): return 'CLASS_METHOD'
    if inspect.isfunction(raw): return 'METHOD'
    return 'CLASS_VARIABLE'

problems = []
for name in ('celsius', 'kelvin', 'make'):
    raw = vars(mod.Temperature)[name]
    ob = system.allobjects['proppkg.mod.Temperature.' + name]
    want_kind, want_doc = py_kind(raw), inspect.getdoc(raw)
    got_kind, got_doc = ob.kind.name, ob.docstring
    if (want_kind, want_doc) != (got_kind, got_doc):
        problems.append(f'Temperature.{name}: the interpreter says {want_kind} with docstring {want_doc!r}, '
                        f'pydoctor documents a {got_kind} with docstring {got_doc!r}')

if problems:
    print('C03 VIOLATED: members built with property()/staticmethod() calls get the wrong kind and lose '
          'the docstring the interpreter reports. ' + ' ; '.join(problems))
    sys.exit(1)
print('property holds')
