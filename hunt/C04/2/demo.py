"""
C04 finding 2: a nested class sees the names of the class that encloses it.

    m/a.py:  class A ; class B
    m/c.py:  from .a import A as X
             class Outer:
                 from .a import B as X        # Outer.X is B
                 class Inner:
                     Y = X                    # Python: the module's X, i.e. A
                     def f(self): return X    # Python: A as well

Python never looks a name up in an enclosing *class* scope: in the body of Inner (and in its
methods) `X` is the global X = A, so Inner.Y is A.  pydoctor's Class._localNameToFullName falls
back to `self.parent`, which for a nested class is the enclosing class: X and Y resolve to B.
"""
import json
import os
import subprocess
import sys
import tempfile
from pathlib import Path

FILES = {
    'm/__init__.py': '"MOD:m"\n',
    'm/a.py': '"MOD:m.a"\nclass A:\n    "ID:A"\nclass B:\n    "ID:B"\n',
    'm/c.py': (
        '"MOD:m.c"\n'
        'from .a import A as X\n'
        'class Outer:\n'
        '    "ID:Outer"\n'
        '    from .a import B as X\n'
        '    class Inner:\n'
        '        "ID:Inner"\n'
        '        Y = X\n'
        '        def f(self):\n'
        '            "ID:f"\n'
        '            return X\n'
    ),
}

PROBE = r'''
import sys, json
sys.path.insert(0, sys.argv[1])
import m.c
Inner = m.c.Outer.Inner
print(json.dumps({
    "Y": Inner.Y.__doc__,                 # name bound in the namespace of Inner
    "X": Inner().f().__doc__,             # what the name X denotes inside Inner
    "Outer.X": m.c.Outer.X.__doc__,
}))
'''


def main() -> int:
    tmp = tempfile.mkdtemp(prefix='c04-2-')
    os.chdir(tmp)
    for rel, text in FILES.items():
        path = Path(tmp, rel)
        path.parent.mkdir(parents=True, exist_ok=True)
        path.write_text(text)

    python_says = json.loads(subprocess.run(
        [sys.executable, '-c', PROBE, tmp], check=True, capture_output=True, text=True).stdout)

    from pydoctor import model
    system = model.System()
    system.options.verbosity = -5
    system.addPackage(Path(tmp, 'm'))
    system.process()

    inner = system.allobjects['m.c.Outer.Inner']
    assert isinstance(inner, model.Class)
    failures = []
    for name in ('Y', 'X'):
        got = inner.resolveName(name)
        got_doc = None if got is None else got.docstring
        print(f'in class m.c.Outer.Inner: {name!r}: Python -> {python_says[name]}, '
              f'pydoctor -> {got_doc} ({got!r})')
        if got is not None and got_doc != python_says[name]:
            failures.append(f'{name}: Python binds it to {python_says[name]}, pydoctor resolves it to {got_doc}')
    # same lookups spelled as dotted names from the module
    mod = system.allobjects['m.c']
    got = mod.resolveName('Outer.Inner.Y')
    print(f"in module m.c: 'Outer.Inner.Y': Python -> {python_says['Y']}, pydoctor -> {got!r}")
    if got is not None and got.docstring != python_says['Y']:
        failures.append(f'm.c: Outer.Inner.Y: Python {python_says["Y"]}, pydoctor {got.docstring}')

    if failures:
        print('\nPROPERTY C04 VIOLATED: in class m.c.Outer.Inner the names resolve to a DIFFERENT object '
              'than the one Python binds them to: ' + '; '.join(failures) +
              '. Python skips enclosing class scopes (Inner sees its own namespace, then the module '
              'globals, where X is class A); pydoctor looks X up in the enclosing class Outer, where '
              'X is class B.', file=sys.stderr)
        return 1
    print('property holds on this input')
    return 0


if __name__ == '__main__':
    sys.exit(main())
