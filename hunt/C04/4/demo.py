"""
C04 finding 4: names expanded while a module is visited use a provisional MRO that silently leaves
out the bases that a plain allobjects lookup cannot find yet (a base that was re-imported); the
wrong answer is stored for good.

    pkg/defs.py: class P ; class Q
    pkg/b.py   : class B1:  from .defs import P as X
                 class B2:  from .defs import Q as X
    pkg/c.py   : from .b import B1
    pkg/d.py   : from .c import B1 as BB1          # B1, re-imported through pkg.c
                 from .b import B2
                 class D(BB1, B2): pass            # MRO: D, B1, B2   ->  D.X is B1.X = P
                 Y = D.X                           # Python: P
                 class E(D.X): pass                # Python: E.__bases__ == (P,)

At the time `Y = D.X` and `class E(D.X)` are visited, visit_ClassDef has recorded the base BB1 of D
as unresolved ('pkg.c.B1' is not a key of allobjects), so Class.mro() answers [D, B2] and D.X is
taken from B2: Y is stored as an alias of pkg.defs.Q and E gets Q as its base.  Post-processing
later resolves BB1 and computes the right MRO for D (D.X -> P), but Y and E keep the wrong object.
"""
import json
import os
import subprocess
import sys
import tempfile
from pathlib import Path

FILES = {
    'pkg/__init__.py': '"MOD:pkg"\n',
    'pkg/defs.py': '"MOD:pkg.defs"\nclass P:\n    "ID:P"\nclass Q:\n    "ID:Q"\n',
    'pkg/b.py': ('"MOD:pkg.b"\n'
                 'class B1:\n    "ID:B1"\n    from .defs import P as X\n'
                 'class B2:\n    "ID:B2"\n    from .defs import Q as X\n'),
    'pkg/c.py': '"MOD:pkg.c"\nfrom .b import B1\n',
    'pkg/d.py': ('"MOD:pkg.d"\n'
                 'from .c import B1 as BB1\n'
                 'from .b import B2\n'
                 'class D(BB1, B2):\n    "ID:D"\n'
                 'Y = D.X\n'
                 'class E(D.X):\n    "ID:E"\n'),
}

PROBE = r'''
import sys, json
sys.path.insert(0, sys.argv[1])
import pkg.d as d
print(json.dumps({"Y": d.Y.__doc__, "D.X": d.D.X.__doc__, "E.base": d.E.__bases__[0].__doc__}))
'''


def main() -> int:
    tmp = tempfile.mkdtemp(prefix='c04-4-')
    os.chdir(tmp)
    for rel, text in FILES.items():
        path = Path(tmp, rel)
        path.parent.mkdir(parents=True, exist_ok=True)
        path.write_text(text)

    python_says = json.loads(subprocess.run(
        [sys.executable, '-c', PROBE, tmp], check=True, capture_output=True, text=True).stdout)

    from pydoctor import model
    system = model.System()
    system.options.verbosity = -5
    system.addPackage(Path(tmp, 'pkg'))
    system.process()

    d = system.allobjects['pkg.d']
    failures = []
    for name in ('D.X', 'Y'):
        got = d.resolveName(name)
        got_doc = None if got is None else got.docstring
        print(f'in module pkg.d: {name!r}: Python -> {python_says[name]}, pydoctor -> {got_doc} ({got!r})')
        if got is not None and got_doc != python_says[name]:
            failures.append(f'the name {name!r} bound in module pkg.d is {python_says[name]} for Python '
                            f'but resolves to {got_doc} ({got.fullName()})')
    e = system.allobjects['pkg.d.E']
    assert isinstance(e, model.Class)
    base = e.baseobjects[0]
    print(f'base of pkg.d.E: Python -> {python_says["E.base"]}, pydoctor -> {base!r}; mro {e.mro()}')
    if base is not None and base.docstring != python_says['E.base']:
        failures.append(f'the base `D.X` of class E is {python_says["E.base"]} for Python but {base.fullName()} for pydoctor')

    if failures:
        print('\nPROPERTY C04 VIOLATED: ' + '; '.join(failures) +
              '. D.X itself resolves correctly once post-processing has run, but the alias Y (and the '
              'base of E) were expanded while pkg.d was visited, with an MRO of D from which the '
              're-imported base BB1 was missing, and picked the X of the second base B2.',
              file=sys.stderr)
        return 1
    print('property holds on this input')
    return 0


if __name__ == '__main__':
    sys.exit(main())
