"""
C04 finding 1: an outdated full name is only followed through ONE alias
(System.find_object), so a name stops resolving as soon as two hops are needed:

 (a) a module alias that was re-imported twice (no __all__ involved):
        p/__init__.py : from . import a as aa
        q/__init__.py : from p import aa as bb
        r/__init__.py : from q import bb as cc        ->  r: 'cc', 'cc.A' do not resolve
 (b) a class imported DIRECTLY from the module that defines it, once the class has been
     re-exported twice (__all__ of two packages):
        p2/__init__.py: from .a import A2 ; __all__ = ['A2']
        p2/b.py       : from .a import A2              ->  p2.b: 'A2' does not resolve
        q2/__init__.py: from p2.b import A2 ; __all__ = ['A2']

The property demands that a name imported directly from the defining module, or reached
through a module alias, ALWAYS resolves.
"""
import json
import os
import subprocess
import sys
import tempfile
from pathlib import Path

FILES = {
    # (a)
    'p/__init__.py': '"MOD:p"\nfrom . import a as aa\n',
    'p/a.py': '"MOD:p.a"\nclass A:\n    "ID:A"\n',
    'q/__init__.py': '"MOD:q"\nfrom p import aa as bb\n',
    'r/__init__.py': '"MOD:r"\nfrom q import bb as cc\n',
    # (b)
    'p2/__init__.py': '"MOD:p2"\nfrom .a import A2\n__all__ = ["A2"]\n',
    'p2/a.py': '"MOD:p2.a"\nclass A2:\n    "ID:A2"\n',
    'p2/b.py': '"MOD:p2.b"\nfrom .a import A2\n',
    'q2/__init__.py': '"MOD:q2"\nfrom p2.b import A2\n__all__ = ["A2"]\n',
}
# (scope module, name looked up in it)
QUERIES = [('r', 'cc'), ('r', 'cc.A'), ('p2.b', 'A2')]

PROBE = r'''
import sys, json, importlib, functools
sys.path.insert(0, sys.argv[1])
out = []
for scope, name in json.loads(sys.argv[2]):
    obj = functools.reduce(getattr, name.split('.'), importlib.import_module(scope))
    out.append(obj.__doc__)
print(json.dumps(out))
'''


def main() -> int:
    tmp = tempfile.mkdtemp(prefix='c04-1-')
    os.chdir(tmp)
    for rel, text in FILES.items():
        path = Path(tmp, rel)
        path.parent.mkdir(parents=True, exist_ok=True)
        path.write_text(text)

    # What CPython binds the names to.
    python_says = json.loads(subprocess.run(
        [sys.executable, '-c', PROBE, tmp, json.dumps(QUERIES)],
        check=True, capture_output=True, text=True).stdout)

    # What pydoctor resolves them to.
    from pydoctor import model
    system = model.System()
    system.options.verbosity = -5
    for root in ('p', 'q', 'r', 'p2', 'q2'):
        system.addPackage(Path(tmp, root))
    system.process()

    by_doc = {o.docstring: o for o in system.allobjects.values() if o.docstring}
    failures = []
    for (scope, name), expected in zip(QUERIES, python_says):
        ctx = by_doc['MOD:' + scope]
        got = ctx.resolveName(name)
        got_doc = None if got is None else got.docstring
        print(f'in module {scope}: {name!r}: Python -> {expected}, pydoctor -> '
              f'{got_doc} (expandName={ctx.expandName(name)!r})')
        if got_doc != expected:
            failures.append(f'{scope}:{name} (Python: {expected}, pydoctor: {got_doc})')

    if failures:
        print('\nPROPERTY C04 VIOLATED: a name reached through a module alias (r: cc = q.bb = p.aa = '
              'module p.a) and a name imported directly from the module that defines the object '
              '(p2.b: "from .a import A2", A2 having been re-exported by p2 and by q2) must always '
              'resolve, but pydoctor does not resolve them at all: ' + '; '.join(failures) +
              '. System.find_object() follows a single alias, the result of the first hop is another '
              'outdated name that is looked up with objForFullName() only.', file=sys.stderr)
        return 1
    print('property holds on this input')
    return 0


if __name__ == '__main__':
    sys.exit(main())
