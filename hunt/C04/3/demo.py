"""
C04 finding 3: relative imports of the submodules of a re-exported package are computed from
the place the package was MOVED to, not from the package the source file is written in.

    a/__init__.py   : from b import sub          # re-exports the sub-package b.sub ...
                      from .z import Z as y
                      __all__ = ['sub']          # ... so pydoctor moves b.sub -> a.sub
    a/z.py          : class Z
    b/__init__.py   : (empty)
    b/y.py          : class Y
    b/sub/__init__.py: (empty)
    b/sub/m.py      : from .. import y           # Python: the module b.y
                      from ..y import Y          # Python: the class b.y.Y

When `a` is processed before `b.sub.m` (packages given in the order a, b), only b/sub/__init__.py is
processed before the move; b/sub/m.py is visited afterwards as 'a.sub.m' and `..` is then taken to
be package `a`: `y` becomes 'a.y' = class Z (a different object) and `Y` becomes 'a.y.Y' (nothing).
"""
import json
import os
import subprocess
import sys
import tempfile
from pathlib import Path

FILES = {
    'a/__init__.py': '"MOD:a"\nfrom b import sub\nfrom .z import Z as y\n__all__ = ["sub"]\n',
    'a/z.py': '"MOD:a.z"\nclass Z:\n    "ID:Z"\n',
    'b/__init__.py': '"MOD:b"\n',
    'b/y.py': '"MOD:b.y"\nclass Y:\n    "ID:Y"\n',
    'b/sub/__init__.py': '"MOD:b.sub"\n',
    'b/sub/m.py': '"MOD:b.sub.m"\nfrom .. import y\nfrom ..y import Y\n',
}

PROBE = r'''
import sys, json
sys.path.insert(0, sys.argv[1])
import a, b.sub.m
assert a.sub is b.sub
print(json.dumps({"y": b.sub.m.y.__doc__, "Y": b.sub.m.Y.__doc__, "y.Y": b.sub.m.y.Y.__doc__}))
'''


def main() -> int:
    tmp = tempfile.mkdtemp(prefix='c04-3-')
    os.chdir(tmp)
    for rel, text in FILES.items():
        path = Path(tmp, rel)
        path.parent.mkdir(parents=True, exist_ok=True)
        path.write_text(text)

    python_says = json.loads(subprocess.run(
        [sys.executable, '-c', PROBE, tmp], check=True, capture_output=True, text=True).stdout)

    from pydoctor import model
    system = model.System()
    system.options.verbosity = -5
    system.addPackage(Path(tmp, 'a'))
    system.addPackage(Path(tmp, 'b'))
    system.process()

    by_doc = {o.docstring: o for o in system.allobjects.values() if o.docstring}
    m = by_doc['MOD:b.sub.m']
    print(f'source file b/sub/m.py is documented as {m.fullName()!r}; its imports: {m._localNameToFullName_map}')
    wrong, missing = [], []
    for name in ('y', 'Y', 'y.Y'):
        got = m.resolveName(name)
        got_doc = None if got is None else got.docstring
        print(f'in module b.sub.m: {name!r}: Python -> {python_says[name]}, pydoctor -> {got_doc} ({got!r})')
        if got is None:
            missing.append(name)
        elif got_doc != python_says[name]:
            wrong.append(f'{name!r} is {python_says[name]} for Python but resolves to {got_doc} ({got.fullName()})')

    if wrong or missing:
        print('\nPROPERTY C04 VIOLATED: in the module written in b/sub/m.py, '
              + '; '.join(wrong) +
              f'; and {missing} - `Y` being imported directly from the module that defines it '
              '(`from ..y import Y`) - do not resolve at all. The relative imports were expanded '
              'against package `a`, where the sub-package b.sub was moved by the re-export '
              "(__all__ = ['sub']) before its submodule m was processed.", file=sys.stderr)
        return 1
    print('property holds on this input')
    return 0


if __name__ == '__main__':
    sys.exit(main())
