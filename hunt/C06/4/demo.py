"""
C06 violation: when a package re-exports a SUB-PACKAGE through ``__all__`` the sub-package is
moved (reparented) together with its sub-modules.  The builder takes care to analyse a moved
*module* before moving it ("a module is analysed where Python imports it"), but the sub-modules
of a moved *package* that have not been analysed yet are analysed afterwards, under their new
name: their relative imports (``from ..helpers import H``) are then resolved against the package
they were moved to, not the one they are written in.  Whether they have been analysed already
depends on which sibling package comes first.
"""
import contextlib, io, os, sys, tempfile
from pathlib import Path

from pydoctor import driver, model
from pydoctor.options import Options

FILES = {
    'api/__init__.py': (
        '"""Public face: publishes the impl.sub package as api.sub."""\n'
        'from impl import sub\n'
        '__all__ = ["sub"]\n'
    ),
    'impl/__init__.py': '',
    'impl/helpers.py': (
        'class H:\n'
        '    "a helper base class"\n'
    ),
    'impl/sub/__init__.py': '',
    'impl/sub/leaf.py': (
        'from ..helpers import H\n'
        'class L(H):\n'
        '    "derives from impl.helpers.H"\n'
    ),
}

def document(files, paths):
    """Run pydoctor (options parsing + system building, as driver.main does) on the given paths."""
    options = Options.from_args(['--quiet', '--quiet', '--quiet'] + [str(p) for p in paths])
    out = io.StringIO()
    with contextlib.redirect_stdout(out), contextlib.redirect_stderr(out):
        system = driver.get_system(options)
    result = {}
    for name, o in system.allobjects.items():
        entry = {'kind': o.kind.name if o.kind else None, 'docstring': o.docstring}
        if isinstance(o, model.Class):
            entry['bases'] = list(o.bases)
            entry['mro'] = [b if isinstance(b, str) else b.fullName() for b in o.mro(True)]
        result[name] = entry
    return result

def main():
    tmp = Path(tempfile.mkdtemp(prefix='c06_demo4_'))
    os.chdir(tmp)
    for rel, src in FILES.items():
        (tmp / rel).parent.mkdir(parents=True, exist_ok=True)
        (tmp / rel).write_text(src)

    order1 = ['impl', 'api']
    order2 = ['api', 'impl']
    first = document(FILES, [tmp / n for n in order1])
    second = document(FILES, [tmp / n for n in order2])

    diffs = [(k, first.get(k), second.get(k)) for k in sorted(set(first) | set(second))
             if first.get(k) != second.get(k)]
    if not diffs:
        print('OK: same documentation for both orders of the paths')
        return 0
    print('C06 VIOLATED: "pydoctor impl api" and "pydoctor api impl" give a different class hierarchy for the same files '
          '(no import cycle). api/__init__.py is the only re-exporter: "from impl import sub; __all__ = [\'sub\']" moves the '
          'package impl.sub to api.sub; impl/sub/leaf.py does "from ..helpers import H; class L(H)". With api first, leaf.py '
          'has not been analysed when its package is moved, so it is analysed as api.sub.leaf and "..helpers" is taken to be '
          'api.helpers: the base of L is unresolved. With impl first the base is impl.helpers.H.')
    for name, a, b in diffs:
        print(f'  {name}:\n     {" ".join(order1)} -> {a}\n     {" ".join(order2)} -> {b}')

    # Same thing with one root: sibling sub-packages, only the name of the re-exporting package changes.
    def single_root(api):
        import json
        files = {'top/__init__.py': ''}
        for rel, src in FILES.items():
            rel = rel.replace('api/', f'{api}/')
            files['top/' + rel] = src.replace('from impl import sub', 'from ..impl import sub')
        d = Path(tempfile.mkdtemp(prefix='c06_demo4_', dir=tmp))
        for rel, src in files.items():
            (d / rel).parent.mkdir(parents=True, exist_ok=True)
            (d / rel).write_text(src)
        return json.loads(json.dumps(document(files, [d / 'top'])).replace(f'top.{api}', 'top.API'))
    early, late = single_root('api'), single_root('xapi')
    print('Single root "top" with sub-packages top/impl and top/api (analysed before impl) or top/xapi (after impl):')
    for k in sorted(set(early) | set(late)):
        if early.get(k) != late.get(k):
            print(f'  {k}:\n     re-exporter = api  -> {early.get(k)}\n     re-exporter = xapi -> {late.get(k)}')
    return 1

if __name__ == '__main__':
    sys.exit(main())
