"""
C06 violation: a module reached through a plain ``import mod`` statement is not analysed
on demand (only ``from mod import ...`` does that), so everything the builder looks up
*while visiting* the importing module depends on whether ``mod`` happened to be analysed
earlier: the order of the paths on the command line / the alphabetical position of the module.
"""
import contextlib, io, os, sys, tempfile
from pathlib import Path

from pydoctor import driver, model
from pydoctor.options import Options

FILES = {
    'base.py': (
        'class B:\n'
        '    def meth(self):\n'
        '        "a method"\n'
        'def helper():\n'
        '    pass\n'
    ),
    'user.py': (
        'import base\n'
        'def deco(f):\n'
        '    return f\n'
        'class Y(base.B):\n'
        '    "wraps an inherited method"\n'
        '    meth = deco(base.B.meth)\n'
        'base.helper.__doc__ = "documented by user"\n'
    ),
}

def document(files, paths):
    """Run pydoctor (options parsing + system building, as driver.main does) on the given paths."""
    options = Options.from_args(['--quiet', '--quiet', '--quiet'] + [str(p) for p in paths])
    out = io.StringIO()
    with contextlib.redirect_stdout(out), contextlib.redirect_stderr(out):
        system = driver.get_system(options)
    result = {}
    for name, o in system.allobjects.items():
        entry = {'kind': o.kind.name if o.kind else None, 'docstring': o.docstring}
        if isinstance(o, model.Class):
            entry['bases'] = list(o.bases)
            entry['mro'] = [b if isinstance(b, str) else b.fullName() for b in o.mro(True)]
        result[name] = entry
    return result

def main():
    tmp = Path(tempfile.mkdtemp(prefix='c06_demo1_'))
    os.chdir(tmp)
    for rel, src in FILES.items():
        (tmp / rel).parent.mkdir(parents=True, exist_ok=True)
        (tmp / rel).write_text(src)

    first = document(FILES, [tmp / 'base.py', tmp / 'user.py'])
    second = document(FILES, [tmp / 'user.py', tmp / 'base.py'])

    diffs = [(k, first.get(k), second.get(k)) for k in sorted(set(first) | set(second))
             if first.get(k) != second.get(k)]
    if not diffs:
        print('OK: same documentation for both orders of the paths')
        return 0
    print('C06 VIOLATED: the same two files (base.py, user.py; user.py does "import base", '
          '"class Y(base.B): meth = deco(base.B.meth)" and "base.helper.__doc__ = ...") are documented '
          'differently by "pydoctor base.py user.py" and "pydoctor user.py base.py": a plain "import base" '
          'does not make pydoctor analyse base first, so with user.py first the base class of Y and base.helper '
          'are unknown while user.py is visited.')
    for name, a, b in diffs:
        print(f'  {name}:\n     base.py user.py -> {a}\n     user.py base.py -> {b}')

    # Same thing with one root: only the alphabetical position of the importing module changes.
    def single_root(user):
        import json
        files = {'top/__init__.py': '',
                 'top/base.py': FILES['base.py'],
                 f'top/{user}.py': FILES['user.py'].replace('import base', 'import top.base')
                                                   .replace('base.B', 'top.base.B').replace('base.helper', 'top.base.helper')}
        d = Path(tempfile.mkdtemp(prefix='c06_demo1_', dir=tmp))
        for rel, src in files.items():
            (d / rel).parent.mkdir(parents=True, exist_ok=True)
            (d / rel).write_text(src)
        return json.loads(json.dumps(document(files, [d / 'top'])).replace(f'top.{user}', 'top.USER'))
    late, early = single_root('user'), single_root('a_user')
    print('Single root "top" with base.py and the importing module ("import top.base") named user.py (analysed after '
          'base.py) or a_user.py (analysed before it):')
    for k in sorted(set(early) | set(late)):
        if early.get(k) != late.get(k):
            print(f'  {k}:\n     importer = user   -> {late.get(k)}\n     importer = a_user -> {early.get(k)}')
    return 1

if __name__ == '__main__':
    sys.exit(main())
