"""
C06 violation: ``from impl import *`` stores, for every imported name, the place where the
object lives *at that moment*.  When the (single) module that re-exports the class through
``__all__`` is analysed later, the class moves and the recorded name becomes stale; a stale
name is only followed for ONE hop (System.find_object), so a class that derives from the
name imported through the star-importing module loses its base.  When the re-exporting
module is analysed first the star import records the new location and the base resolves.
"""
import contextlib, io, os, sys, tempfile
from pathlib import Path

from pydoctor import driver, model
from pydoctor.options import Options

FILES = {
    'impl.py': (
        'class C:\n'
        '    "the implementation"\n'
    ),
    'public.py': (          # the only module that re-exports C
        'from impl import C\n'
        '__all__ = ["C"]\n'
    ),
    'compat.py': (
        'from impl import *\n'
    ),
    'client.py': (
        'from compat import C\n'
        'class Sub(C):\n'
        '    "derives from the class through the compat module"\n'
    ),
}

def document(files, paths):
    """Run pydoctor (options parsing + system building, as driver.main does) on the given paths."""
    options = Options.from_args(['--quiet', '--quiet', '--quiet'] + [str(p) for p in paths])
    out = io.StringIO()
    with contextlib.redirect_stdout(out), contextlib.redirect_stderr(out):
        system = driver.get_system(options)
    result = {}
    for name, o in system.allobjects.items():
        entry = {'kind': o.kind.name if o.kind else None, 'docstring': o.docstring}
        if isinstance(o, model.Class):
            entry['bases'] = list(o.bases)
            entry['mro'] = [b if isinstance(b, str) else b.fullName() for b in o.mro(True)]
        result[name] = entry
    return result

def main():
    tmp = Path(tempfile.mkdtemp(prefix='c06_demo2_'))
    os.chdir(tmp)
    for rel, src in FILES.items():
        (tmp / rel).parent.mkdir(parents=True, exist_ok=True)
        (tmp / rel).write_text(src)

    names = ['impl.py', 'public.py', 'compat.py', 'client.py']
    order1 = ['public.py', 'compat.py', 'impl.py', 'client.py']
    order2 = ['compat.py', 'public.py', 'impl.py', 'client.py']
    first = document(FILES, [tmp / n for n in order1])
    second = document(FILES, [tmp / n for n in order2])

    diffs = [(k, first.get(k), second.get(k)) for k in sorted(set(first) | set(second))
             if first.get(k) != second.get(k)]
    if not diffs:
        print('OK: same documentation for both orders of the paths')
        return 0
    print('C06 VIOLATED: four modules without any import cycle (impl.py defines C; public.py is the only '
          're-exporter: "from impl import C; __all__ = [\'C\']"; compat.py does "from impl import *"; client.py does '
          '"from compat import C; class Sub(C)") give a different class hierarchy depending on whether compat.py or '
          'public.py comes first on the command line: with compat.py first its star import remembers "impl.C", '
          'which is stale once public.py has moved the class, and client.Sub is left with an unresolved base.')
    for name, a, b in diffs:
        print(f'  {name}:\n     {" ".join(order1)} -> {a}\n     {" ".join(order2)} -> {b}')

    # Same thing with one root: only the alphabetical position of the re-exporting module changes.
    def single_root(reexporter):
        import json
        files = {'top/__init__.py': ''}
        for rel, src in FILES.items():
            rel = rel.replace('public', reexporter)
            files['top/' + rel] = src.replace('from impl ', 'from .impl ').replace('from compat ', 'from .compat ')
        d = Path(tempfile.mkdtemp(prefix='c06_demo2_', dir=tmp))
        for rel, src in files.items():
            (d / rel).parent.mkdir(parents=True, exist_ok=True)
            (d / rel).write_text(src)
        return json.loads(json.dumps(document(files, [d / 'top'])).replace(f'top.{reexporter}', 'top.REEXPORTER'))
    early, late = single_root('api'), single_root('public')
    print('Single root "top" (client.py, compat.py, impl.py) with the re-exporting module named api.py (analysed before '
          'compat.py) or public.py (analysed after it):')
    for k in sorted(set(early) | set(late)):
        if early.get(k) != late.get(k):
            print(f'  {k}:\n     re-exporter = api    -> {early.get(k)}\n     re-exporter = public -> {late.get(k)}')
    return 1

if __name__ == '__main__':
    sys.exit(main())
