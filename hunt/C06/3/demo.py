"""
C06 violation: System.getProcessedModule("pkg.core") analyses a sub-module on demand without
analysing the package it lives in first (Python always runs pkg/__init__.py before pkg/core.py).
When a module outside the package is analysed first and imports from the sub-module, the
sub-module is visited first; its own ``from . import util`` then pulls pkg/__init__.py in while
the sub-module is still half visited, so the package's ``from .core import Base`` finds nothing
to re-export.  With the package first on the command line the re-export works.
"""
import contextlib, io, os, sys, tempfile
from pathlib import Path

from pydoctor import driver, model
from pydoctor.options import Options

FILES = {
    'pkg/__init__.py': (
        '"""The package publishes Base under its own name."""\n'
        'from .core import Base\n'
        '__all__ = ["Base", "Derived"]\n'
        'class Derived(Base):\n'
        '    "a subclass"\n'
    ),
    'pkg/core.py': (
        'from . import util\n'
        'class Base:\n'
        '    "the base class"\n'
    ),
    'pkg/util.py': (
        'def helper():\n'
        '    "a helper"\n'
    ),
    'app.py': (
        'from pkg.core import Base\n'
        'class App(Base):\n'
        '    "an application"\n'
    ),
}

def document(files, paths):
    """Run pydoctor (options parsing + system building, as driver.main does) on the given paths."""
    options = Options.from_args(['--quiet', '--quiet', '--quiet'] + [str(p) for p in paths])
    out = io.StringIO()
    with contextlib.redirect_stdout(out), contextlib.redirect_stderr(out):
        system = driver.get_system(options)
    result = {}
    for name, o in system.allobjects.items():
        entry = {'kind': o.kind.name if o.kind else None, 'docstring': o.docstring}
        if isinstance(o, model.Class):
            entry['bases'] = list(o.bases)
            entry['mro'] = [b if isinstance(b, str) else b.fullName() for b in o.mro(True)]
        result[name] = entry
    return result

def main():
    tmp = Path(tempfile.mkdtemp(prefix='c06_demo3_'))
    os.chdir(tmp)
    for rel, src in FILES.items():
        (tmp / rel).parent.mkdir(parents=True, exist_ok=True)
        (tmp / rel).write_text(src)

    order1 = ['pkg', 'app.py']
    order2 = ['app.py', 'pkg']
    first = document(FILES, [tmp / n for n in order1])
    second = document(FILES, [tmp / n for n in order2])

    diffs = [(k, first.get(k), second.get(k)) for k in sorted(set(first) | set(second))
             if first.get(k) != second.get(k)]
    if not diffs:
        print('OK: same documentation for both orders of the paths')
        return 0
    print('C06 VIOLATED: "pydoctor pkg app.py" and "pydoctor app.py pkg" document the same files differently. '
          'pkg/__init__.py re-exports Base ("from .core import Base; __all__ = [\'Base\', \'Derived\']"), pkg/core.py '
          'does "from . import util" and defines Base, app.py does "from pkg.core import Base". With app.py first, '
          'pkg.core is analysed before pkg/__init__.py, which is then pulled in by "from . import util" while Base '
          'does not exist yet: the class is documented as pkg.core.Base instead of pkg.Base, and the bases of '
          'pkg.Derived and app.App are named differently.')
    for name, a, b in diffs:
        print(f'  {name}:\n     {" ".join(order1)} -> {a}\n     {" ".join(order2)} -> {b}')

    # Same root cause, one single root: only the alphabetical position of a sibling module changes
    # (top/app.py is analysed before the sub-package top/core, top/zapp.py after it).
    def single_root(client):
        files = {
            'top/__init__.py': '',
            'top/core/__init__.py': 'from .base import *\nclass Derived(Base):\n    "a subclass"\n',
            'top/core/base.py': 'from . import util\nclass Base:\n    "the base class"\n',
            'top/core/util.py': 'def helper():\n    "a helper"\n',
            f'top/{client}.py': 'from .core.base import Base\nclass App(Base):\n    "an application"\n',
        }
        d = Path(tempfile.mkdtemp(prefix='c06_demo3_', dir=tmp))
        for rel, src in files.items():
            (d / rel).parent.mkdir(parents=True, exist_ok=True)
            (d / rel).write_text(src)
        import json
        return json.loads(json.dumps(document(files, [d / 'top'])).replace(f'top.{client}', 'top.CLIENT'))
    early, late = single_root('app'), single_root('zapp')
    print('Single root "top", the client module named top/app.py (before top/core) or top/zapp.py (after it); '
          'top/core/__init__.py does "from .base import *; class Derived(Base)":')
    for k in sorted(set(early) | set(late)):
        if early.get(k) != late.get(k):
            print(f'  {k}:\n     client = app  -> {early.get(k)}\n     client = zapp -> {late.get(k)}')
    return 1

if __name__ == '__main__':
    sys.exit(main())
