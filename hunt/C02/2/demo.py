"""
C02 finding 2: a @var field in the docstring of a package that names one of its sub-modules 
turns the kind of that Module object into VARIABLE.
"""
import os, sys, tempfile, io, contextlib

INIT = '''\
"""
The package.

@var util: Helpers, see the sub-module.
"""
'''
UTIL = '''\
"""Helper functions."""
def helper():
    """help"""
'''

def main() -> int:
    tmp = tempfile.mkdtemp(prefix='c02-2-')
    os.chdir(tmp)
    os.mkdir('pkg')
    with open('pkg/__init__.py', 'w') as f:
        f.write(INIT)
    with open('pkg/util.py', 'w') as f:
        f.write(UTIL)

    from pydoctor import driver, model
    from pydoctor.options import Options
    options = Options.from_args(['--quiet', '--quiet', '--html-output', os.path.join(tmp, 'out'),
                                 os.path.join(tmp, 'pkg')])
    out = io.StringIO()
    with contextlib.redirect_stdout(out):
        system = driver.get_system(options)
        driver.make(system)

    problems = []
    for name, ob in system.allobjects.items():
        if isinstance(ob, model.Package):
            ok = ob.kind is model.DocumentableKind.PACKAGE
        elif isinstance(ob, model.Module):
            ok = ob.kind is model.DocumentableKind.MODULE
        elif isinstance(ob, model.Function):
            ok = ob.kind is model.DocumentableKind.FUNCTION or isinstance(ob.parent, model.Class)
        else:
            ok = True
        if not ok:
            problems.append(f'{ob!r} (a {type(ob).__name__} with {len(ob.contents)} children, '
                            f'in {ob.parent!r}) has kind {ob.kind}')
    html = open(os.path.join(tmp, 'out', 'index.html'), encoding='utf-8').read()
    import re
    rows = re.findall(r'<tr[^>]*>\s*<td[^>]*>\s*([^<]*?)\s*</td>\s*<td[^>]*>\s*<code[^>]*>\s*<a[^>]*href="pkg\.util\.html"', html)
    if problems:
        print('C02 VIOLATED (every object has a kind that fits its place; variables have no children).\n'
              'Input: pkg/__init__.py = ' + repr(INIT) + ', pkg/util.py = ' + repr(UTIL) + '\n'
              'Expected: pkg.util is a Module of kind MODULE.\nObserved: ' + '; '.join(problems) +
              f'\nThe page of pkg lists the sub-module in its table of children as: {rows}', file=sys.stderr)
        return 1
    print('property holds')
    return 0

if __name__ == '__main__':
    sys.exit(main())
