"""
C02 finding 4: in a class body, 'name = zope.interface.Attribute(...)' (or a zope.schema field) 
that follows a method or nested class of the same name gives that Function / Class the kind of an 
attribute: a function directly in a class is not a method anymore.
"""
import os, sys, tempfile, io, contextlib

SRC = '''\
from zope.interface import Interface, Attribute
from zope import schema

class IDocument(Interface):
    """A document."""

    def title():
        """Old spelling: the title, as a method."""
    title = Attribute("New spelling: the title, as an attribute.")

    def size():
        """The size, as a method."""
    size = schema.Int(description="The size, as a field.")

    class Meta:
        """A nested class."""
    Meta = Attribute("replaced")
'''

def main() -> int:
    tmp = tempfile.mkdtemp(prefix='c02-4-')
    os.chdir(tmp)
    with open('docs.py', 'w') as f:
        f.write(SRC)

    from pydoctor import driver, model
    from pydoctor.options import Options
    options = Options.from_args(['--quiet', '--quiet', os.path.join(tmp, 'docs.py')])
    out = io.StringIO()
    with contextlib.redirect_stdout(out):
        system = driver.get_system(options)

    K = model.DocumentableKind
    problems = []
    for ob in system.allobjects.values():
        if isinstance(ob, model.Function) and isinstance(ob.parent, model.Class):
            if ob.kind not in (K.METHOD, K.CLASS_METHOD, K.STATIC_METHOD):
                problems.append(f'{ob!r} is a Function directly in {ob.parent!r} but its kind is {ob.kind}')
        if isinstance(ob, model.Class) and ob.kind not in (K.CLASS, K.INTERFACE, K.EXCEPTION):
            problems.append(f'{ob!r} is a Class (with children {list(ob.contents)}) but its kind is {ob.kind}')
    if problems:
        print('C02 VIOLATED (every object has a kind that fits its place: functions directly in classes are methods).\n'
              'Input docs.py:\n' + SRC + 'Observed:\n  ' + '\n  '.join(problems), file=sys.stderr)
        return 1
    print('property holds')
    return 0

if __name__ == '__main__':
    sys.exit(main())
