"""
C02 finding 1: the linearisation of a class lists a resolved base twice (and the base lists the
class twice as a subclass) when two bases are spelled with names that pydoctor resolves to the 
same class, although they are two different classes for the interpreter.
"""
import os, sys, tempfile, io, contextlib, types

SRC = '''\
class A:
    """first definition"""

Old = A

class A:
    """second definition, supersedes the first one"""

class C(Old, A):
    """legal: Old and A are two different classes"""
'''

def main() -> int:
    tmp = tempfile.mkdtemp(prefix='c02-1-')
    os.chdir(tmp)
    with open('mod.py', 'w') as f:
        f.write(SRC)

    # What the interpreter does with this module.
    py = types.ModuleType('mod')
    exec(compile(SRC, 'mod.py', 'exec'), py.__dict__)
    py_mro = [k.__name__ + ('(1st)' if k is py.Old else '') for k in py.C.__mro__]
    assert py.Old is not py.A and len(set(py.C.__mro__)) == len(py.C.__mro__)

    from pydoctor import driver, model
    from pydoctor.options import Options
    options = Options.from_args(['--quiet', '--quiet', os.path.join(tmp, 'mod.py')])
    out = io.StringIO()
    with contextlib.redirect_stdout(out):
        system = driver.get_system(options)

    C = system.allobjects['mod.C']
    assert isinstance(C, model.Class)
    mro = list(C.mro(include_external=True))
    problems = []
    if mro[0] is not C:
        problems.append(f'the linearisation does not start with the class: {mro}')
    for base in C.baseobjects:
        if base is None:
            continue
        n = sum(1 for k in mro if k is base)
        if n != 1:
            problems.append(f'resolved base {base!r} occurs {n} times in C.mro() = {mro}')
        n = sum(1 for k in base.subclasses if k is C)
        if n != 1:
            problems.append(f'{base!r}.subclasses lists {C!r} {n} times: {base.subclasses}')
    if problems:
        print('C02 VIOLATED (linearisation contains each resolved base once; subclass-of is the inverse of base-of).\n'
              'Input mod.py:\n' + SRC +
              f'CPython accepts it, C.__mro__ = {py_mro} (four different classes).\n'
              f'pydoctor: C.bases = {C.bases}, C.baseobjects = {C.baseobjects}\n  '
              + '\n  '.join(dict.fromkeys(problems)), file=sys.stderr)
        return 1
    print('property holds')
    return 0

if __name__ == '__main__':
    sys.exit(main())
