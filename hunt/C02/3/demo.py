"""
C02 finding 3: with several root modules, the page of a root module named like a summary page 
(classIndex, moduleIndex, nameIndex, undoccedSummary, index) and that summary page share one file name:
the module page silently replaces the summary page.
"""
import os, sys, tempfile, io, contextlib
from urllib.parse import unquote

def main() -> int:
    tmp = tempfile.mkdtemp(prefix='c02-3-')
    os.chdir(tmp)
    with open('classIndex.py', 'w') as f:
        f.write('"""Index of the school classes."""\nclass Pupil:\n    """A pupil."""\n')
    with open('other.py', 'w') as f:
        f.write('"""Another top-level module."""\nclass Base:\n    """base"""\nclass Derived(Base):\n    """derived"""\n')

    from pydoctor import driver, model
    from pydoctor.options import Options
    from pydoctor.templatewriter import summary, search
    outdir = os.path.join(tmp, 'out')
    options = Options.from_args(['--quiet', '--quiet', '--html-output', outdir,
                                 os.path.join(tmp, 'classIndex.py'), os.path.join(tmp, 'other.py')])
    out = io.StringIO()
    with contextlib.redirect_stdout(out):
        system = driver.get_system(options)
        driver.make(system)

    # Every page pydoctor writes, with the file it is written to.
    pages = {}
    for pclass in list(summary.summaryPages(system)) + list(search.searchpages):
        pages.setdefault(pclass.filename, []).append(f'summary page {pclass.__name__}')
    for ob in system.allobjects.values():
        if ob.documentation_location is model.DocLocation.OWN_PAGE and ob.isVisible:
            pages.setdefault(unquote(ob.url), []).append(f'page of {ob!r}')
    shared = {fn: who for fn, who in pages.items() if len(who) > 1}
    if shared:
        html = open(os.path.join(outdir, 'classIndex.html'), encoding='utf-8').read()
        print('C02 VIOLATED (two different pages never share a file name).\n'
              'Input: pydoctor classIndex.py other.py (two root modules, one is named classIndex).\n'
              f'Observed: {shared}.\n'
              f"out/classIndex.html is the module page ({'Index of the school classes' in html}); "
              f"the class hierarchy that moduleIndex.html, nameIndex.html and every page header link to as "
              f"'classIndex.html' is gone (mentions other.Derived: {'other.Derived' in html}).", file=sys.stderr)
        return 1
    print('property holds')
    return 0

if __name__ == '__main__':
    sys.exit(main())
