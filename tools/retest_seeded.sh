#!/bin/sh
# re-run every seeded change under /verif/seeded against its property's check (and extra checks given in extra.txt)
here="$(cd "$(dirname "$0")/.." && pwd)"; cd "$here"
for d in seeded/*/; do
  id=$(basename "$d")
  [ -n "$1" ] && case "$id" in $1*) ;; *) continue;; esac
  p=$(python3 -c "import json;print(json.load(open('$d/meta.json'))['property'])")
  extra=$(cat "$d/extra.txt" 2>/dev/null)
  echo "=== $id"
  old=$(grep -o 'tests: [0-9].*' "$d/result.txt" 2>/dev/null | head -1)
  SKIP_TESTS=1 tools/try_mutant.sh "$here/$d" $p $extra > "$d/result.txt" 2>&1
  [ -n "$old" ] && sed -i "s|tests: skipped|$old|" "$d/result.txt"
  grep "^DEMO\|^CHECK" "$d/result.txt" | cut -c1-200
done
