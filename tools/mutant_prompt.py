#!/usr/bin/env python3
"""print the prompt for a seeded-change sub-agent: only the property text and a scratch worktree"""
import json, sys
pid = sys.argv[1]
wt = sys.argv[2]
n = sys.argv[3] if len(sys.argv) > 3 else "2"
props = {json.loads(l)["id"]: json.loads(l) for l in open("/verif/properties.jsonl") if l.strip()}
p = props[pid]
print(f"""You are given a scratch git worktree of the open-source project twisted/pydoctor (a Python API documentation generator) at {wt} and ONE semantic property that pydoctor is supposed to satisfy. Work ONLY inside {wt} (and in temporary files under /tmp); do NOT read, list or touch /verif, /repo or /root/.vp — they are out of bounds for this task. Run Python with /venv/bin/python and PYTHONPATH={wt} (the pydoctor dependencies are installed there); the test suite is `cd {wt} && /venv/bin/python -m pytest -q -p no:cacheprovider pydoctor/test` (11 tests already fail on the pristine tree — ignore exactly those; 1322 pass).

The property (id {pid}): "{p['title']}"
Statement: {p['statement']}
It is meant to hold: {p['quantifier']['text']}

Your job: produce {n} DIFFERENT realistic changes to pydoctor's source (each a small patch a careless or well-meaning developer could plausibly make: a refactor gone subtly wrong, an off-by-one, a dropped guard, a reordered step, a changed default, an 'optimisation', two sites that each look fine alone) such that each change
  (a) BREAKS the property above,
  (b) still lets pydoctor import and run, and still passes the existing test suite (same 1322 passing tests, same 11 pre-existing failures),
  (c) needs something SPECIFIC to manifest — a particular input shape, an unusual but legal input, a multi-step sequence, a particular order, a particular combination of options — not something every ordinary run would expose at once.
For each change write, under {wt}/seeded/<k>/ (k = 1, 2, …): `patch.diff` (output of `git diff` for that change alone, against the pristine worktree HEAD; touching only files under pydoctor/ and NOT under pydoctor/test/), `demo.py` (a self-contained script, run as `PYTHONPATH={wt} /venv/bin/python demo.py`, that exits 0 on the pristine tree and exits non-zero with a clear message when the patch is applied — it must demonstrate the PROPERTY failing, through pydoctor's public behaviour), and `meta.json` ({{"property": "{pid}", "summary": one sentence, "needs": what specific input/sequence/order is needed for it to manifest, "files": [...]}}). Verify each yourself: apply the patch (`git -C {wt} apply seeded/<k>/patch.diff`), run demo.py (must fail), run the test suite (must be unchanged: 1322 passed / 11 failed), then restore (`git -C {wt} checkout -- pydoctor`) and run demo.py again (must pass). Leave the worktree pristine at the end (only the seeded/ directory added). Your final message: for each change, the summary, the 'needs', and the verification results (demo with/without patch, test-suite counts).""")
