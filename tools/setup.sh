#!/bin/sh
# MANIFEST.setup_cmd: regenerate the data tables from the live /repo modules, then build all Lean
# targets (models, proofs, compiled driver). Offline; files on disk only.
set -e
here="$(cd "$(dirname "$0")/.." && pwd)"
cd "$here"
export PYDOCTOR_REPO="${PYDOCTOR_REPO:-/repo}"
export PYTHONPATH="$PYDOCTOR_REPO:$here"
export PYTHONDONTWRITEBYTECODE=1
if [ -f harness/tables.py ]; then
  /venv/bin/python -c "from harness import tables; tables.generate()"
fi
cd lean
lake build
