#!/bin/sh
# MANIFEST.setup_cmd: regenerate the data tables from the live /repo modules, then build all Lean
# targets (models, compiled driver, proofs). Offline; files on disk only.
# The driver (all models) must build; the proof modules are built one by one: a proof file that does
# not build is reported here and fails ITS property's check (which rebuilds it), not the others.
here="$(cd "$(dirname "$0")/.." && pwd)"
cd "$here"
export PYDOCTOR_REPO="${PYDOCTOR_REPO:-/repo}"
export PYTHONPATH="$PYDOCTOR_REPO:$here"
export PYTHONDONTWRITEBYTECODE=1
if [ -f harness/tables.py ]; then
  /venv/bin/python -c "from harness import tables; tables.generate()" || echo "setup: table generation failed (the checks that use the tables will report it)"
fi
cd lean
lake build driver || { echo "setup: the model driver does not build"; exit 1; }
bad=""
for f in PdProps/C[0-9][0-9].lean; do
  m="PdProps.$(basename "$f" .lean)"
  lake build "$m" >/dev/null 2>&1 || bad="$bad $m"
done
[ -n "$bad" ] && echo "setup: proof modules that do not build (their checks will report a broken obligation):$bad"
exit 0
