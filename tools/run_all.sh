#!/bin/sh
# usage: tools/run_all.sh <tier> <seed> [seed...]  — run every claimed check, print one line each
tier="$1"; shift
here="$(cd "$(dirname "$0")/.." && pwd)"; cd "$here"
props=$(python3 -c "import json;print(' '.join(c['property_id'] for c in json.load(open('MANIFEST.json'))['checks']))")
for s in "$@"; do for p in $props; do
  out=$(VERIF_SEED=$s ./check $p $tier 2>&1); rc=$?
  echo "seed=$s $p rc=$rc $(echo "$out" | grep -c '^VIOLATION')V $(echo "$out" | grep -c '^KNOWN')K | $(echo "$out" | tail -1 | cut -c1-200)"
done; done
