#!/usr/bin/env python3
"""Consistency checks of the deliverable itself (run with python3-vt: needs jsonschema)."""
import json, subprocess, sys, re
from pathlib import Path
import jsonschema
V = Path(__file__).resolve().parent.parent
bad = []
man = json.loads((V / "MANIFEST.json").read_text())
jsonschema.validate(man, json.loads(Path("/root/.vp/MANIFEST.schema.json").read_text()))
props = [json.loads(l)["id"] for l in (V / "properties.jsonl").read_text().splitlines() if l.strip()]
claimed = [c["property_id"] for c in man["checks"]]
na = [x["property_id"] if isinstance(x, dict) else x for x in man.get("not_applicable", [])]
for p in props:
    if p not in claimed and p not in na:
        bad.append(f"{p}: neither claimed nor not_applicable")
esch = json.loads(Path("/root/.vp/EVIDENCE.schema.json").read_text())
for p in claimed:
    f = V / "evidence" / f"{p}.json"
    if not f.exists():
        bad.append(f"{p}: no evidence file")
        continue
    try:
        jsonschema.validate(json.loads(f.read_text()), esch)
    except Exception as e:
        bad.append(f"{p}: evidence does not validate: {str(e)[:120]}")
log = subprocess.run(["git", "-C", "/repo", "log", "--format=%h %s"], capture_output=True, text=True).stdout
commits = {l.split(" ", 1)[0][:7]: l.split(" ", 1)[1] for l in log.splitlines()}
kf = json.loads((V / "known_findings.json").read_text())["findings"]
for f in kf:
    if f.get("status") == "fixed":
        c = (f.get("commit") or "")[:7]
        if c not in commits:
            bad.append(f"known_findings: fixed entry {f['property']} {f['signature']} names commit {c!r} not in /repo log")
        elif not commits[c].startswith("fix:"):
            bad.append(f"known_findings: commit {c} of {f['property']} {f['signature']} is not a fix: commit")
    elif f.get("status") != "open":
        bad.append(f"known_findings: bad status in {f}")
fixes = [h for h, s in commits.items() if s.startswith("fix:")]
named = {(f.get("commit") or "")[:7] for f in kf if f.get("status") == "fixed"}
for h in fixes:
    if h not in named:
        bad.append(f"/repo fix commit {h} ({commits[h][:70]}) has no fixed entry in known_findings.json")
for d in sorted((V / "seeded").glob("*/")):
    for n in ("patch.diff", "meta.json", "result.txt"):
        if not (d / n).exists():
            bad.append(f"seeded/{d.name}: {n} missing")
    if not ((d / "demo.py").exists() or list(d.glob("demo*"))):
        bad.append(f"seeded/{d.name}: demonstration missing")
for src in list((V / "lean").rglob("*.lean")):
    if ".lake" in src.parts:
        continue
    t = re.sub(r"/-.*?-/", "", src.read_text(), flags=re.S)
    t = "\n".join(l.split("--")[0] for l in t.splitlines())
    for tok in ("sorry", "admit", "native_decide", "bv_decide", "implemented_by", "maxHeartbeats 0"):
        if re.search(r"\b" + re.escape(tok) + r"\b", t):
            bad.append(f"{src.relative_to(V)}: forbidden token {tok}")
    if re.search(r"^\s*axiom\s", t, re.M) or re.search(r"^\s*unsafe\s", t, re.M):
        bad.append(f"{src.relative_to(V)}: axiom/unsafe declaration")
hooks = man.get("hooks", {})
print("claimed:", len(claimed), "not applicable:", len(na), "fix commits:", len(fixes), "findings open:", sum(1 for f in kf if f.get("status") == "open"),
      "fixed:", sum(1 for f in kf if f.get("status") == "fixed"), "seeded:", len(list((V / "seeded").glob("*/"))))
for b in bad:
    print("PROBLEM:", b)
sys.exit(1 if bad else 0)
