#!/usr/bin/env python3
"""write fixes/README.md: which diffs are applied in /repo (reverse-apply cleanly), which are open proposals (apply
cleanly), which no longer match (superseded / applied in another form)"""
import subprocess, pathlib, json
root = pathlib.Path("/verif/fixes")
rows = {"proposal": [], "applied": [], "superseded": []}
for f in sorted(root.glob("*.diff")):
    fw = subprocess.run(["git", "-C", "/repo", "apply", "--check", str(f)], capture_output=True).returncode == 0
    rv = subprocess.run(["git", "-C", "/repo", "apply", "-R", "--check", str(f)], capture_output=True).returncode == 0
    rows["proposal" if fw and not rv else "applied" if rv else "superseded"].append(f.name)
head = subprocess.run(["git", "-C", "/repo", "log", "--oneline", "-1"], capture_output=True, text=True).stdout.strip()
out = ["# fixes/ — repair diffs written by the builders", "",
       f"Classified against /repo HEAD `{head}` by `tools/fixes_readme.py`.", "",
       "## Proposals (not applied: the finding stays `open` in known_findings.json, its `what` says why)", ""]
out += [f"- `{n}`" for n in rows["proposal"]] or ["- (none)"]
out += ["", "## Applied (the diff reverse-applies: it is a `fix:` commit in /repo; kept as a record)", ""]
out += [f"- `{n}`" for n in rows["applied"]] or ["- (none)"]
out += ["", "## No longer matching the tree (applied in another form, rebased by a later commit, or withdrawn)", ""]
out += [f"- `{n}`" for n in rows["superseded"]] or ["- (none)"]
(root / "README.md").write_text("\n".join(out) + "\n")
print({k: len(v) for k, v in rows.items()})
