#!/usr/bin/env python3
"""Regenerate MANIFEST.json from the table below (keeps it schema-valid at all times)."""
import json, sys
from pathlib import Path
VERIF = Path(__file__).resolve().parent.parent

# id -> (claimed?, partial?, technique, text, note, design_ref)
CLAIMS = {}
def claim(pid, technique, text, note, ref):
    CLAIMS[pid] = dict(technique=technique, text=text, note=note, ref=ref)

exec((VERIF / "tools" / "claims.py").read_text())
# per-property overrides maintained next to the notes (later wording of what is proved / assumed)
for f in sorted((VERIF / "notes" / "claims").glob("C*.json")):
    o = json.loads(f.read_text())
    CLAIMS.setdefault(f.stem, {}).update({k: o[k] for k in ("technique", "text", "note", "ref") if k in o})

ALL = [json.loads(l)["id"] for l in (VERIF / "properties.jsonl").read_text().splitlines() if l.strip()]
NA = json.loads((VERIF / "tools" / "not_applicable.json").read_text())
checks = []
for pid in ALL:
    if pid not in CLAIMS:
        continue
    c = CLAIMS[pid]
    checks.append({
        "property_id": pid,
        "quick_cmd": f"./check {pid} quick",
        "thorough_cmd": f"./check {pid} thorough",
        "evidence_file": f"evidence/{pid}.json",
        "replay_cmd_template": f"./check {pid} --replay {{path}}",
        "engine": "lean-model+correspondence",
        "level_claimed": {"category": "proof", "text": c["text"], "design_ref": c["ref"]},
        "level_note": c["note"],
        "technique": c["technique"],
    })
man = {
    "version": 1,
    "setup_cmd": "./tools/setup.sh",
    "hooks": {
        "guard": "PYDOCTOR_VERIF",
        "enable": "no source hooks: the harness imports pydoctor from /repo's working tree in-process (PYTHONPATH=/repo) and wraps methods from outside",
        "baseline_off_cmd": "cd /repo && /venv/bin/python -m pytest -ra -q -p no:cacheprovider --timeout=900 --continue-on-collection-errors",
        "source_commits": [],
        "add_only": True,
    },
    "engines": [{
        "name": "lean-model+correspondence",
        "path": "lean/ (Lean 4 models PdModel, theorems PdProps, compiled driver) + harness/ (Python correspondence and direct oracles)",
        "serves_properties": [c["property_id"] for c in checks],
        "kind_free_text": "machine-checked proof in Lean 4 over a hand-written executable model; model tied to /repo by a differential correspondence check run on every invocation",
    }],
    "checks": checks,
    "notes": "See DESIGN.md. Exit 0 held / 1 VIOLATION / 2 infrastructure. known_findings.json lists recorded and fixed defects.",
    "not_applicable": [{"property_id": p, "reason": NA.get(p, "not claimed yet: check under construction (DESIGN.md section 11 gives the build order)")}
                       for p in ALL if p not in CLAIMS],
}
(VERIF / "MANIFEST.json").write_text(json.dumps(man, indent=1) + "\n")
try:
    import jsonschema
    jsonschema.validate(man, json.loads(Path("/root/.vp/MANIFEST.schema.json").read_text()))
    print("MANIFEST.json valid;", len(checks), "claimed,", len(man["not_applicable"]), "not claimed")
except ImportError:
    print("written (jsonschema not available to validate)")
