#!/usr/bin/env python3
"""Replace section 12 of DESIGN.md by tools/section12.md (with the seeded-change table filled in)."""
import json, re
from pathlib import Path
V = Path(__file__).resolve().parent.parent
rows = ["| id | property | change (needs) | detected by | how |", "|---|---|---|---|---|"]
for d in sorted((V / "seeded").glob("*/")):
    try:
        meta = json.loads((d / "meta.json").read_text())
    except Exception:
        continue
    res = (d / "result.txt").read_text() if (d / "result.txt").exists() else ""
    det = []
    for m in re.finditer(r"CHECK (C\d+) exit=(\d+) (\d+) violation-lines \| .*?disagree=(\d+) oracle_fail=(\d+) known=(\d+)", res):
        p, rc, nv, dis, of, kn = m.groups()
        if rc == "1":
            how = []
            if int(of) > int(kn):
                how.append("direct oracle (failing input as replay)")
            if int(dis) > 0:
                how.append("correspondence")
            det.append((p, " + ".join(how) or "violation"))
    note = (d / "note.txt").read_text().strip() if (d / "note.txt").exists() else ""
    neutral = bool(re.search(r"DEMO pristine=0 patched=0", res))
    summary = meta.get("summary", "").replace("|", "/")[:230]
    needs = meta.get("needs", "")
    needs = (needs if isinstance(needs, str) else json.dumps(needs)).replace("|", "/")[:160]
    rows.append("| %s | %s | %s — *needs:* %s | %s | %s |" % (
        d.name, meta.get("property", "?"), summary, needs,
        ", ".join(p for p, _ in det) or ("no longer a violation (demo passes with the patch)" if neutral else "**missed**"), "; ".join(sorted({h for _, h in det})) + ((" — " + note) if note else "")))
import subprocess
kf = json.loads((V / "known_findings.json").read_text())["findings"]
bycommit = {}
for f in kf:
    if f.get("status") == "fixed" and f.get("commit"):
        bycommit.setdefault(f["commit"][:7], set()).add(f["property"])
fix_rows = ["| commit | property | defect repaired (commit subject) |", "|---|---|---|"]
log = subprocess.run(["git", "-C", "/repo", "log", "--reverse", "--format=%h %s"], capture_output=True, text=True).stdout
for line in log.splitlines():
    h, _, subj = line.partition(" ")
    if subj.startswith("fix:"):
        props = ", ".join(sorted(bycommit.get(h[:7], []))) or "see notes"
        fix_rows.append("| %s | %s | %s |" % (h, props, subj[4:].strip().replace("|", "/")))
open_rows = ["| property | signature | what fails |", "|---|---|---|"]
for f in kf:
    if f.get("status", "open") == "open":
        open_rows.append("| %s | `%s` | %s |" % (f["property"], f["signature"], f["what"].replace("|", "/")[:260]))
import ast
thm_rows = ["| id | theorems audited | required theorem names (harness/props/cXX.py THEOREMS; each must exist in PdProps.Cxx and depend on no axiom beyond propext, Classical.choice, Quot.sound) | last quick run: evaluations / non-trivial / correspondence lines |", "|---|---|---|---|"]
for i in range(1, 21):
    pid = "C%02d" % i
    src = (V / "harness" / "props" / (pid.lower() + ".py")).read_text()
    m = re.search(r"^THEOREMS\s*=\s*(\[.*?^\s*\]|\[.*?\])\s*$", src, re.S | re.M)
    names = []
    if m:
        try:
            names = ast.literal_eval(m.group(1))
        except Exception:
            names = re.findall(r'"([A-Za-z_][\w.]*)"', m.group(1))
    ev = {}
    try:
        ev = json.loads((V / "evidence" / (pid + ".json")).read_text()).get("coverage", {})
    except Exception:
        pass
    thm_rows.append("| %s | %s | %s | %s / %s / %s |" % (
        pid, len(ev.get("theorems", []) or []) or ev.get("discharged", "?"),
        ", ".join("`%s`" % n.split(".", 1)[-1] for n in names[:40]) + (" … (+%d)" % (len(names) - 40) if len(names) > 40 else ""),
        ev.get("evaluations", "?"), ev.get("distinct_nontrivial", "?"), ev.get("traces_validated_against_impl", "?")))
cov = []
for i in range(1, 21):
    pid = "C%02d" % i
    f = V / "notes" / (pid + ".md")
    if not f.exists():
        continue
    txt = f.read_text()
    m = re.search(r"^## Coverage table \(round 3\)\s*\n(.*?)(?=^## |\Z)", txt, re.S | re.M)
    if m:
        body = m.group(1).strip()
        cov.append("#### %s\n\n%s\n" % (pid, body))
sec = (V / "tools" / "section12.md").read_text().replace("THEOREM_TABLE", "\n".join(thm_rows)).replace("COVERAGE_TABLES", "\n".join(cov)).replace("SEEDED_TABLE", "\n".join(rows)).replace("FIX_TABLE", "\n".join(fix_rows)).replace("OPEN_TABLE", "\n".join(open_rows))
design = (V / "DESIGN.md").read_text()
i = design.find("\n## 12. As built")
if i >= 0:
    j = design.find("\n## Appendix A", i)
    design = design[:i] + "\n" + sec.rstrip() + "\n" + (design[j:] if j >= 0 else "")
else:
    j = design.find("\n## Appendix A")
    design = design[:j] + "\n" + sec.rstrip() + "\n" + design[j:]
(V / "DESIGN.md").write_text(design)
print("spliced; seeded rows:", len(rows) - 2)
