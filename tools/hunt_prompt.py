#!/usr/bin/env python3
"""print the task for a 'hunter' sub-agent: find violations of ONE property in the UNCHANGED tree"""
import json, sys
pid, wt = sys.argv[1], sys.argv[2]
props = {json.loads(l)["id"]: json.loads(l) for l in open("/verif/properties.jsonl") if l.strip()}
p = props[pid]
kf = json.load(open("/verif/known_findings.json"))
fs = kf["findings"] if isinstance(kf, dict) else kf
known = [f for f in fs if f["property"] == pid and f.get("status") != "fixed"]
print(f"""You are given a scratch git worktree of the open-source project twisted/pydoctor (a Python API documentation generator) at {wt} and ONE semantic property that pydoctor is supposed to satisfy. Work ONLY inside {wt} (and in temporary files under /tmp); do NOT read, list or touch /verif, /repo or /root/.vp — they are out of bounds. Run Python with /venv/bin/python and PYTHONPATH={wt}. Do NOT modify anything under {wt}/pydoctor: the tree must stay exactly as it is.

The property (id {pid}): "{p['title']}"
Statement: {p['statement']}
It is meant to hold: {p['quantifier']['text']}

Your job: find inputs on which the UNMODIFIED pydoctor VIOLATES this property — genuine defects, judged strictly by the wording above (only inputs inside the stated quantifier count; behaviour the statement does not promise is not a violation; when the statement refers to what Python / CPython does, the interpreter is the judge). Read the code the property is about, think about unusual but legal inputs, option combinations, orders, multi-step interactions, and try them. Quality over quantity: at most 4 findings, each a DIFFERENT root cause, none a trivial variation of another.

Already known (do not report these again, nor trivial variants):
""" + ("\n".join("- " + f["what"][:400] for f in known) or "- (none)") + f"""

For each finding write, under {wt}/found/<k>/ (k = 1, 2, …): `demo.py` (self-contained, run as `cd /tmp && PYTHONPATH={wt} /venv/bin/python {wt}/found/<k>/demo.py`; it builds its input in a temporary directory, drives pydoctor through its public behaviour (driver.main / System / the documented API), and EXITS NON-ZERO with a clear one-paragraph message that shows the property failing; it must chdir into its temporary directory first so that no setup.cfg is picked up) and `meta.json` ({{"property": "{pid}", "summary": one sentence, "input": the smallest input that shows it, "expected": what the property demands, "observed": what pydoctor does, "cause": file/function responsible, "fix_idea": a minimal repair if you see one (do not apply it)}}). Run each demo to confirm. If, after a serious search (at least a dozen substantially different attempts), you find nothing, say so and list what you tried. Your final message: one paragraph per finding (summary, input, expected vs observed, cause, fix idea), then the list of things you tried that held.""")
