#!/bin/sh
# usage: tools/collect_queue.sh <dirprefix> <idprefix> Cxx Cyy ...   (sequential collection of delivered seeded changes)
here="$(cd "$(dirname "$0")/.." && pwd)"; cd "$here"
dp="$1"; ip="$2"; shift 2
for p in "$@"; do
  MUTDIR="$dp-$p" IDPREFIX="$ip" tools/collect_mutants.sh "$p" > "out/collect2-$p.log" 2>&1
done
