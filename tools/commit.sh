#!/bin/sh
# usage: tools/commit.sh "message"  — commit /verif only when every Lean target builds (another builder may be mid-edit)
here="$(cd "$(dirname "$0")/.." && pwd)"; cd "$here/lean"
if lake build >/tmp/commit-build.log 2>&1; then
  cd "$here"; git add -A; git commit -qm "$1"; echo "committed: $1"
else
  echo "NOT committed: lake build fails:"; grep "^error" /tmp/commit-build.log | head -5
  exit 1
fi
