#!/bin/sh
# usage: tools/commit.sh "message" — commit /verif; when a Lean target does not build (a builder is mid-edit),
# the files of THAT property's owner are left out of the commit (their last committed versions build together).
here="$(cd "$(dirname "$0")/.." && pwd)"; cd "$here"
owner_files() {
  case "$1" in
    C03) echo "lean/PdProps/C03.lean lean/PdModel/Builder.lean lean/PdModel/BuilderIO.lean lean/PdModel/PySem.lean lean/PdModel/Subset.lean harness/props/c03.py notes/C03.md notes/claims/C03.json";;
    C04) echo "lean/PdProps/C04.lean lean/PdProps/C04Base.lean lean/PdProps/C04Clean.lean lean/PdProps/C04Inh.lean lean/PdModel/Imports.lean lean/PdModel/ImportsIO.lean lean/PdModel/PyImp.lean harness/props/c04.py harness/gen/bindings.py notes/C04.md notes/claims/C04.json";;
    C05) echo "lean/PdProps/C05.lean lean/PdModel/Mro.lean lean/PdModel/MroIO.lean lean/PdModel/PyMro.lean harness/props/c05.py notes/C05.md notes/claims/C05.json corpus/C05";;
    C08) echo "lean/PdProps/C08.lean lean/PdModel/Docstring.lean lean/PdModel/DocstringIO.lean harness/props/c08.py notes/C08.md notes/claims/C08.json";;
    C09) echo "lean/PdProps/C09.lean lean/PdModel/Epytext.lean lean/PdModel/EpytextIO.lean lean/PdModel/Doctest.lean lean/PdModel/Fields.lean harness/props/c09.py notes/C09.md notes/claims/C09.json";;
    C10) echo "lean/PdProps/C10.lean lean/PdModel/Escape.lean lean/PdModel/EscapeIO.lean harness/props/c10.py notes/C10.md notes/claims/C10.json";;
    C11|C12) echo "lean/PdProps/C11.lean lean/PdProps/C12.lean lean/PdModel/Output.lean lean/PdModel/OutputIO.lean harness/props/c11.py harness/props/c12.py harness/outputcrawl.py notes/C11.md notes/C12.md notes/claims/C11.json notes/claims/C12.json";;
    C13) echo "lean/PdProps/C13.lean lean/PdModel/Glob.lean lean/PdModel/GlobIO.lean lean/PdModel/Regex.lean lean/PdModel/Privacy.lean harness/props/c13.py notes/C13.md notes/claims/C13.json";;
    C14) echo "lean/PdProps/C14.lean lean/PdModel/Signature.lean lean/PdModel/SignatureIO.lean harness/props/c14.py notes/C14.md notes/claims/C14.json";;
    C15) echo "lean/PdProps/C15.lean lean/PdModel/Pyval.lean lean/PdModel/PyvalIO.lean harness/props/c15.py notes/C15.md notes/claims/C15.json";;
    C16) echo "lean/PdProps/C16.lean lean/PdModel/Lineno.lean lean/PdModel/LinenoIO.lean harness/props/c16.py notes/C16.md notes/claims/C16.json";;
    C17) echo "lean/PdProps/C17.lean lean/PdModel/Inventory.lean lean/PdModel/InventoryIO.lean harness/props/c17.py notes/C17.md notes/claims/C17.json";;
    C18) echo "lean/PdProps/C18.lean lean/PdModel/Determinism.lean lean/PdModel/DeterminismIO.lean harness/props/c18.py harness/sitescan.py harness/c18_sites.json harness/impl/launch_shuffled.py notes/C18.md notes/claims/C18.json";;
    C20) echo "lean/PdProps/C20.lean lean/PdModel/Config.lean lean/PdModel/ConfigIO.lean harness/props/c20.py notes/C20.md notes/claims/C20.json";;
  esac
}
owner_of() {
  case "$1" in
    *C03*|*Builder*|*PySem*|*Subset*) echo C03;; *C04*|*Imports*|*PyImp*) echo C04;; *C05*|*Mro*) echo C05;;
    *C08*|*Docstring*) echo C08;; *C09*|*Epytext*|*Doctest*|*Fields*) echo C09;; *C10*|*Escape*) echo C10;;
    *C11*|*C12*|*Output*) echo C11;; *C13*|*Glob*|*Regex*|*Privacy*) echo C13;; *C14*|*Signature*) echo C14;;
    *C15*|*Pyval*) echo C15;; *C16*|*Lineno*) echo C16;; *C17*|*Inventory*) echo C17;; *C18*|*Determinism*) echo C18;;
    *C20*|*Config*) echo C20;;
  esac
}
(cd lean && lake build >/tmp/commit-build.log 2>&1)
git add -A
if grep -q "^error" /tmp/commit-build.log; then
  owners=""
  for f in $(grep -o "error: \(PdModel\|PdProps\)/[A-Za-z0-9]*\.lean" /tmp/commit-build.log | sed 's/error: //' | sort -u); do
    o=$(owner_of "$f"); [ -z "$o" ] && { echo "NOT committed: $f does not build and has no separate owner"; git reset -q; exit 1; }
    owners="$owners $o"
  done
  for o in $(echo $owners | tr ' ' '\n' | sort -u); do
    echo "leaving out the files of $o (in progress: do not build)"
    git reset -q -- $(owner_files $o) 2>/dev/null
  done
fi
git commit -qm "$1" && echo "committed: $1"
