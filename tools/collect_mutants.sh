#!/bin/sh
# usage: tools/collect_mutants.sh Cxx [extra checks...]: copy /tmp/mut-Cxx/seeded/* to /verif/seeded/Cxx-k and run the checks
p="$1"; shift
here="$(cd "$(dirname "$0")/.." && pwd)"
src="${MUTDIR:-/tmp/mut-$p}"
for d in "$src"/seeded/*/; do
  k=$(basename "$d")
  dst="$here/seeded/$p-${IDPREFIX:-}$k"
  mkdir -p "$dst"
  cp "$d"/patch.diff "$d"/demo.py "$d"/meta.json "$dst"/ 2>/dev/null
  echo "=== $p-${IDPREFIX:-}$k: $(python3 -c "import json;print(json.load(open('$dst/meta.json')).get('summary','')[:150])")"
  "$here/tools/try_mutant.sh" "$dst" "$p" "$@" | tee "$dst/result.txt"
done
