claim("C19",
      "Lean 4 theorems (mutual structural induction over rose trees) on a model of visitor.py + exhaustive trace correspondence",
      "For every tree, pruning assignment and list of extension timings the model's walkabout trace equals the documented walk over the pruned tree (prune_meaning), each extension's restriction is the tree's bracket word (nested, balanced, enter_once), the block order is the documented one, and the builder's scope stack returns to empty. The model is tied to pydoctor/visitor.py by comparing complete event traces on the exhaustive space the property names (all trees <=4 nodes x 5^n actions x 16 timing sets) plus random larger trees and the real ASTBuilder on generated modules.",
      "Trusted: Lean kernel, the hand transcription of visitor.py (validated by the trace correspondence, not derived), the Python harness. Pruning raised by extensions or by depart_* methods is outside the model.",
      "DESIGN.md 7/C19")
