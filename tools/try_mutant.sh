#!/bin/sh
# usage: tools/try_mutant.sh <dir with patch.diff demo.py> <Cxx> [Cyy ...]
# Confirms a seeded change (demo passes without / fails with the patch, test suite unchanged) in a
# fresh scratch worktree of /repo HEAD and runs the named checks against it. Never touches /repo.
d="$1"; shift
here="$(cd "$(dirname "$0")/.." && pwd)"
wt=$(mktemp -d /tmp/trymut.XXXXXX)
git -C /repo worktree add --detach "$wt" HEAD >/dev/null 2>&1 || { echo "worktree failed"; exit 2; }
cleanup() { git -C /repo worktree remove --force "$wt" >/dev/null 2>&1; rm -rf "$wt"; }
trap cleanup EXIT
cd "$wt"
# the demo runs from its own directory: from the worktree root pydoctor would pick up the repo's setup.cfg
(cd "$d" && PYTHONPATH="$wt" /venv/bin/python "$d/demo.py" >/dev/null 2>&1); r0=$?
if ! git apply "$d/patch.diff" 2>/dev/null; then echo "RESULT $d patch-does-not-apply"; exit 3; fi
(cd "$d" && PYTHONPATH="$wt" /venv/bin/python "$d/demo.py" >/dev/null 2>&1); r1=$?
if [ -z "$SKIP_TESTS" ]; then
  tests=$(/venv/bin/python -m pytest -q -p no:cacheprovider --timeout=900 pydoctor/test 2>&1 | tail -1)
else tests="skipped"; fi
echo "DEMO pristine=$r0 patched=$r1 | tests: $tests"
cd "$here"
for p in "$@"; do
  out=$(PYDOCTOR_REPO="$wt" ./check "$p" quick 2>&1)
  rc=$?
  printf "%s\n" "CHECK $p exit=$rc $(printf "%s\n" "$out" | grep -c "^VIOLATION") violation-lines | $(printf "%s\n" "$out" | tail -1)"
  printf "%s\n" "$out" | grep "^VIOLATION" | head -3
done
