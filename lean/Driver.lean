import PdModel

def dispatch (line : String) : String :=
  match Proto.tokens line with
  | "visitor" :: args => Visitor.handle args
  | _ => "bad-op"

partial def loop (h : IO.FS.Stream) (out : IO.FS.Stream) : IO Unit := do
  let line ← h.getLine
  if line.isEmpty then return ()
  out.putStrLn (dispatch (line.trimAsciiEnd.toString))
  loop h out

def main : IO Unit := do
  let out ← IO.getStdout
  loop (← IO.getStdin) out
  out.flush
