import PdModel

def dispatch (line : String) : String :=
  match Proto.tokens line with
  | "visitor" :: args => Visitor.handle args
  | "mro" :: args => Mro.handle args
  | "registry" :: args => Registry.handle args
  | "modtable" :: args => ModTable.handle args
  | "inventory" :: args => Inventory.handle args
  | "signature" :: args => Signature.handle args
  | "glob" :: args => Glob.handle args
  | "privacy" :: args => Privacy.handle args
  | "lineno" :: args => Lineno.handle args
  | "pyval" :: args => Pyval.handle args
  | "names" :: args => Names.handle args
  | "schedule" :: args => Schedule.handle args
  | "postprocess" :: args => PostProcess.handle args
  | "escape" :: args => Escape.handle args
  | "docstring" :: args => Docstring.handle args
  | "config" :: args => Config.handle args
  | "epytext" :: args => Epytext.handle args
  | "determinism" :: args => Determinism.handle args
  | "builder" :: args => Builder.handle args
  | "output" :: args => Output.handle args
  | "imports" :: args => Imports.handle args
  | "pyimp" :: args => PyImp.handle args
  | _ => "bad-op"

partial def loop (h : IO.FS.Stream) (out : IO.FS.Stream) : IO Unit := do
  let line ← h.getLine
  if line.isEmpty then return ()
  out.putStrLn (dispatch (line.trimAsciiEnd.toString))
  loop h out

def main : IO Unit := do
  let out ← IO.getStdout
  loop (← IO.getStdin) out
  out.flush
