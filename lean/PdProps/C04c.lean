/-
C04, the Python machine (`PyImp.run`): every namespace entry of every reachable state is justified by
the static relation `Jpy`; hence what `pyDenotes` answers is a `Jpy` derivation.
-/
import PdProps.C04a
import PdProps.C04b

namespace Imports
open Registry
open PyImp

/-- the static value a runtime value stands for -/
def svalV (s : PyImp.St) : Val → Option SVal
  | .mod m => some (.mod m)
  | .cls h => (s.heap[h]?).map (fun co => .dfn co.mod co.cp)
  | .obj m cp => some (.dfn m cp)

/-- every entry of the namespace is a possible binding of scope `S` -/
def NsOk (proj : Project) (s : PyImp.St) (S : Site) (ns : Ns) : Prop :=
  ∀ x v, dget ns x = some v → ∃ sv, svalV s v = some sv ∧ Jpy proj S [x] sv

structure PyInv (proj : Project) (s : PyImp.St) : Prop where
  mods : ∀ m, NsOk proj s (m, []) (nsOf s m)
  heap : ∀ (h : Nat) (co : ClassObj), s.heap[h]? = some co → NsOk proj s (co.mod, co.cp) co.ns ∧ co.bases = []
  alls : ∀ m l, allOf s m = some l → ∀ x ∈ l, x ∈ allNames (bodyOf proj m)

/-- class objects persist -/
def HeapExt (s s' : PyImp.St) : Prop := ∀ (h : Nat) (co : ClassObj), s.heap[h]? = some co → s'.heap[h]? = some co

theorem HeapExt.refl (s : PyImp.St) : HeapExt s s := fun _ _ h => h
theorem HeapExt.trans {a b c : PyImp.St} (h1 : HeapExt a b) (h2 : HeapExt b c) : HeapExt a c :=
  fun h co hh => h2 h co (h1 h co hh)

theorem svalV_ext {s s' : PyImp.St} (he : HeapExt s s') {v : Val} {sv : SVal} (h : svalV s v = some sv) :
    svalV s' v = some sv := by
  cases v with
  | mod m => exact h
  | obj m cp => exact h
  | cls hh =>
    simp only [svalV] at h ⊢
    cases hc : s.heap[hh]? with
    | none => simp [hc] at h
    | some co => rw [he hh co hc]; rw [hc] at h; exact h

theorem NsOk.ext {proj : Project} {s s' : PyImp.St} (he : HeapExt s s') {S : Site} {ns : Ns} (h : NsOk proj s S ns) :
    NsOk proj s' S ns := fun x v hx => by
  obtain ⟨sv, h1, h2⟩ := h x v hx
  exact ⟨sv, svalV_ext he h1, h2⟩

theorem NsOk.dset {proj : Project} {s : PyImp.St} {S : Site} {ns : Ns} (h : NsOk proj s S ns) {k : Name} {v : Val}
    {sv : SVal} (hv : svalV s v = some sv) (hj : Jpy proj S [k] sv) : NsOk proj s S (dset ns k v) := by
  intro x v' hx
  by_cases hk : x = k
  · subst hk; rw [dset_get_same] at hx; injection hx with hx; subst hx; exact ⟨sv, hv, hj⟩
  · rw [dset_get_other _ _ _ _ hk] at hx; exact h x v' hx

theorem NsOk.nil {proj : Project} {s : PyImp.St} {S : Site} : NsOk proj s S [] := fun x v h => by simp [dget] at h

/-! ## state changes -/

theorem nsOf_bindGlobal {s : PyImp.St} {m t : Nat} {k : Name} {v : Val} :
    nsOf (bindGlobal s m k v) t = if t = m ∧ m < s.ns.length then dset (nsOf s m) k v else nsOf s t := by
  unfold nsOf bindGlobal
  simp only [List.getD_eq_getElem?_getD, List.getElem?_set]
  by_cases h : m = t
  · subst h
    by_cases hl : m < s.ns.length
    · simp [hl, nsOf, List.getD_eq_getElem?_getD]
    · simp [hl]
  · have : ¬ (t = m ∧ m < s.ns.length) := fun hh => h hh.1.symm
    simp [h, this]

theorem pyInv_bindGlobal {proj : Project} {s : PyImp.St} (hI : PyInv proj s) {m : Nat} {k : Name} {v : Val}
    {sv : SVal} (hv : svalV s v = some sv) (hj : Jpy proj (m, []) [k] sv) : PyInv proj (bindGlobal s m k v) := by
  have he : HeapExt s (bindGlobal s m k v) := fun _ _ h => h
  refine ⟨fun t => ?_, fun h co hh => ?_, hI.alls⟩
  · rw [nsOf_bindGlobal]
    split
    · rename_i hc; rw [hc.1]
      exact ((hI.mods m).dset hv hj).ext he
    · exact (hI.mods t).ext he
  · obtain ⟨h1, h2⟩ := hI.heap h co hh
    exact ⟨h1.ext he, h2⟩

/-- `STORE_NAME` of a justified value keeps the invariants (globals, or the class-body locals) -/
theorem bind_ok {proj : Project} {s : PyImp.St} (hI : PyInv proj s) {m : Nat} {cp : Path} {fr : Option Ns}
    (hfr : ∀ l, fr = some l → NsOk proj s (m, cp) l) (hcp : fr = none → cp = []) {k : Name} {v : Val} {sv : SVal}
    (hv : svalV s v = some sv) (hj : Jpy proj (m, cp) [k] sv) :
    PyInv proj (PyImp.bind s m fr k v).1 ∧ HeapExt s (PyImp.bind s m fr k v).1 ∧
    (∀ l, (PyImp.bind s m fr k v).2 = some l → NsOk proj (PyImp.bind s m fr k v).1 (m, cp) l) ∧
    ((PyImp.bind s m fr k v).2 = none ↔ fr = none) := by
  cases fr with
  | none =>
    have := hcp rfl; subst this
    have he : HeapExt s (bindGlobal s m k v) := fun _ _ h => h
    refine ⟨?_, ?_, ?_, ?_⟩
    · exact pyInv_bindGlobal hI hv hj
    · exact he
    · intro l h; simp [PyImp.bind] at h
    · simp [PyImp.bind]
  | some l =>
    refine ⟨?_, ?_, ?_, ?_⟩
    · exact hI
    · exact HeapExt.refl s
    · intro l' h
      simp only [PyImp.bind, Option.some.injEq] at h; subst h
      exact (hfr l rfl).dset hv hj
    · simp [PyImp.bind]

/-! ## reading attributes -/

theorem pathOf_eq {proj : Project} {t : Nat} {md : Module} (h : proj[t]? = some md) : pathOf proj t = md.path := by
  simp [pathOf, h]

theorem importFromAttr_j {proj : Project} {s : PyImp.St} (hI : PyInv proj s) {t : Nat} {y : Name} {v : Val}
    (h : importFromAttr proj s t y = some v) : ∃ sv, svalV s v = some sv ∧ Jpy proj (t, []) [y] sv := by
  unfold importFromAttr at h
  cases hm : modAttr s t y with
  | some v' => simp only [hm, Option.some.injEq] at h; subst h; exact hI.mods t y v' hm
  | none =>
    simp only [hm] at h
    cases hp : proj[t]? with
    | none => simp [hp] at h
    | some md =>
      simp only [hp] at h
      cases hc : modIdx proj (md.path ++ [y]) with
      | none => simp [hc] at h
      | some c =>
        simp only [hc] at h
        split at h
        · injection h with h; subst h
          exact ⟨.mod c, rfl, Jpy.child (by rw [pathOf_eq hp]; exact hc)⟩
        · cases h

theorem importChain_j {proj : Project} {s : PyImp.St} (hI : PyInv proj s) :
    ∀ (ys : List Name) (t : Nat) (v : Val), importChain proj s (.mod t) ys = some v → ys ≠ [] →
      ∃ sv, svalV s v = some sv ∧ Jpy proj (t, []) ys sv
  | [], _, _, _, hne => absurd rfl hne
  | [y], t, v, h, _ => by
    simp only [importChain] at h
    cases ha : importFromAttr proj s t y with
    | none => simp [ha] at h
    | some w =>
      simp only [ha] at h
      cases w <;> simp only [importChain, Option.some.injEq] at h <;> subst h <;> exact importFromAttr_j hI ha
  | y :: y2 :: ys, t, v, h, _ => by
    simp only [importChain] at h
    cases ha : importFromAttr proj s t y with
    | none => simp [ha] at h
    | some w =>
      simp only [ha] at h
      obtain ⟨sw, hsw, hjw⟩ := importFromAttr_j hI ha
      cases w with
      | mod t' =>
        simp only [svalV, Option.some.injEq] at hsw; subst hsw
        obtain ⟨sv, hsv, hj⟩ := importChain_j hI (y2 :: ys) t' v h (by simp)
        exact ⟨sv, hsv, Jpy.cons hjw hj⟩
      | cls hh => simp [importChain] at h
      | obj m' cp' => simp [importChain] at h

/-! ## statements -/

def ImpOk (proj : Project) (imp : PyImp.St → Path → PyImp.St) : Prop :=
  ∀ s p, PyInv proj s → PyInv proj (imp s p) ∧ HeapExt s (imp s p)

def FrOk (proj : Project) (s : PyImp.St) (S : Site) (fr : Option Ns) : Prop :=
  (∀ l, fr = some l → NsOk proj s S l) ∧ (fr = none → S.2 = [])

theorem FrOk.ext {proj : Project} {s s' : PyImp.St} (he : HeapExt s s') {S : Site} {fr : Option Ns}
    (h : FrOk proj s S fr) : FrOk proj s' S fr := ⟨fun l hl => (h.1 l hl).ext he, h.2⟩

/-- the outcome of one statement keeps the invariants -/
def ExecOk (proj : Project) (S : Site) (x x' : PyImp.St × Option Ns) : Prop :=
  PyInv proj x'.1 ∧ HeapExt x.1 x'.1 ∧ FrOk proj x'.1 S x'.2 ∧ (x'.2 = none ↔ x.2 = none)

theorem pyInv_err {proj : Project} {s : PyImp.St} (hI : PyInv proj s) (b : Bool) : PyInv proj { s with err := b } :=
  ⟨hI.mods, hI.heap, hI.alls⟩

theorem ExecOk.refl {proj : Project} {S : Site} {x : PyImp.St × Option Ns} (hI : PyInv proj x.1)
    (hf : FrOk proj x.1 S x.2) : ExecOk proj S x x := ⟨hI, HeapExt.refl _, hf, Iff.rfl⟩

theorem ExecOk.fail {proj : Project} {S : Site} {x : PyImp.St × Option Ns} {s1 : PyImp.St} (hI : PyInv proj s1)
    (he : HeapExt x.1 s1) (hf : FrOk proj x.1 S x.2) : ExecOk proj S x (fail (s1, x.2)) := by
  refine ⟨pyInv_err hI true, fun h co hh => he h co hh, ?_, Iff.rfl⟩
  exact ⟨fun l hl => ((hf.1 l hl).ext he), hf.2⟩

theorem ExecOk.state {proj : Project} {S : Site} {x : PyImp.St × Option Ns} {s1 : PyImp.St} (hI : PyInv proj s1)
    (he : HeapExt x.1 s1) (hf : FrOk proj x.1 S x.2) : ExecOk proj S x (s1, x.2) :=
  ⟨hI, he, hf.ext he, Iff.rfl⟩

theorem ExecOk.bind {proj : Project} {m : Nat} {cp : Path} {x : PyImp.St × Option Ns} {s1 : PyImp.St}
    (hI : PyInv proj s1) (he : HeapExt x.1 s1) (hf : FrOk proj x.1 (m, cp) x.2) {k : Name} {v : Val} {sv : SVal}
    (hv : svalV s1 v = some sv) (hj : Jpy proj (m, cp) [k] sv) :
    ExecOk proj (m, cp) x (PyImp.bind s1 m x.2 k v) := by
  have hf1 := hf.ext he
  obtain ⟨h1, h2, h3, h4⟩ := bind_ok hI hf1.1 hf1.2 hv hj
  exact ⟨h1, he.trans h2, ⟨h3, fun h => hf.2 (h4.1 h)⟩, h4⟩

theorem execImport_ok {proj : Project} {imp : PyImp.St → Path → PyImp.St} (himp : ImpOk proj imp) {m : Nat}
    {cp : Path} {full : List Stmt} (hb : siteBody proj (m, cp) = some full) {target : Path} {asname : Option Name}
    (hst : Stmt.importMod target asname ∈ full) {x : PyImp.St × Option Ns} (hI : PyInv proj x.1)
    (hf : FrOk proj x.1 (m, cp) x.2) : ExecOk proj (m, cp) x (execImport proj imp m target asname x) := by
  unfold execImport
  by_cases he : x.1.err = true
  · simp only [he, if_true]; exact ExecOk.refl hI hf
  · simp only [he]
    obtain ⟨hI1, hx1⟩ := himp x.1 target hI
    by_cases he1 : (imp x.1 target).err = true
    · simp only [he1, if_true]; exact ExecOk.state hI1 hx1 hf
    · simp only [he1]
      cases target with
      | nil => exact ExecOk.fail hI1 hx1 hf
      | cons h rest =>
        simp only
        cases ht : modIdx proj [h] with
        | none => exact ExecOk.fail hI1 hx1 hf
        | some top =>
          simp only
          cases asname with
          | none => exact ExecOk.bind hI1 hx1 hf rfl (Jpy.importTop hb hst ht)
          | some a =>
            simp only
            cases hc : importChain proj (imp x.1 (h :: rest)) (.mod top) rest with
            | none => exact ExecOk.fail hI1 hx1 hf
            | some v =>
              simp only
              cases rest with
              | nil =>
                simp only [importChain, Option.some.injEq] at hc; subst hc
                exact ExecOk.bind hI1 hx1 hf rfl (Jpy.importAs1 hb hst ht)
              | cons y ys =>
                obtain ⟨sv, hsv, hj⟩ := importChain_j hI1 (y :: ys) top v hc (by simp)
                exact ExecOk.bind hI1 hx1 hf hsv (Jpy.importAs hb hst ht hj)

theorem fromlistOne_ok {proj : Project} {imp : PyImp.St → Path → PyImp.St} (himp : ImpOk proj imp) (T : Path) (t : Nat)
    (s : PyImp.St) (n : Name) (hI : PyInv proj s) :
    PyInv proj (fromlistOne proj imp T t s n) ∧ HeapExt s (fromlistOne proj imp T t s n) := by
  unfold fromlistOne
  split
  · split
    · exact himp s _ hI
    · exact ⟨hI, HeapExt.refl s⟩
  · exact ⟨hI, HeapExt.refl s⟩

theorem fromlistFold_ok {proj : Project} {imp : PyImp.St → Path → PyImp.St} (himp : ImpOk proj imp) (T : Path) (t : Nat) :
    ∀ (l : List Name) (s : PyImp.St), PyInv proj s →
      PyInv proj (l.foldl (fromlistOne proj imp T t) s) ∧ HeapExt s (l.foldl (fromlistOne proj imp T t) s)
  | [], s, hI => ⟨hI, HeapExt.refl s⟩
  | n :: l, s, hI => by
    simp only [List.foldl_cons]
    obtain ⟨h1, e1⟩ := fromlistOne_ok himp T t s n hI
    obtain ⟨h2, e2⟩ := fromlistFold_ok himp T t l _ h1
    exact ⟨h2, e1.trans e2⟩

theorem target_of {proj : Project} {m lvl : Nat} {M T : Path} {t : Nat} (hT : pyAbsName proj m lvl M = some T)
    (ht : modIdx proj T = some t) : target proj m lvl M = some t := by
  simp [target, hT, ht]

theorem execImportFrom_ok {proj : Project} {imp : PyImp.St → Path → PyImp.St} (himp : ImpOk proj imp) {m : Nat}
    {cp : Path} {full : List Stmt} (hb : siteBody proj (m, cp) = some full) {lvl : Nat} {M : Path} {n : Name}
    {a : Option Name} (hst : Stmt.importFrom lvl M n a ∈ full) {x : PyImp.St × Option Ns} (hI : PyInv proj x.1)
    (hf : FrOk proj x.1 (m, cp) x.2) : ExecOk proj (m, cp) x (execImportFrom proj imp m lvl M n a x) := by
  unfold execImportFrom
  by_cases he : x.1.err = true
  · simp only [he, if_true]; exact ExecOk.refl hI hf
  · simp only [he]
    cases hT : pyAbsName proj m lvl M with
    | none => exact ExecOk.fail hI (HeapExt.refl _) hf
    | some T =>
      simp only
      obtain ⟨hI1, hx1⟩ := himp x.1 T hI
      by_cases he1 : (imp x.1 T).err = true
      · simp only [he1, if_true]; exact ExecOk.state hI1 hx1 hf
      · simp only [he1]
        cases ht : modIdx proj T with
        | none => exact ExecOk.fail hI1 hx1 hf
        | some t =>
          simp only
          obtain ⟨hI2, hx2⟩ := fromlistOne_ok himp T t _ n hI1
          by_cases he2 : (fromlistOne proj imp T t (imp x.1 T) n).err = true
          · simp only [he2, if_true]; exact ExecOk.state hI2 (hx1.trans hx2) hf
          · simp only [he2]
            cases hv : importFromAttr proj (fromlistOne proj imp T t (imp x.1 T) n) t n with
            | none => exact ExecOk.fail hI2 (hx1.trans hx2) hf
            | some v =>
              simp only
              obtain ⟨sv, hsv, hj⟩ := importFromAttr_j hI2 hv
              exact ExecOk.bind hI2 (hx1.trans hx2) hf hsv (Jpy.from hb hst (target_of hT ht) hj)

theorem starBind_ok {proj : Project} {m t : Nat} {full : List Stmt} {lvl : Nat} {M : Path}
    (hb : siteBody proj (m, []) = some full) (hst : Stmt.importStar lvl M ∈ full) (ht : target proj m lvl M = some t)
    {s : PyImp.St} {x : Name} (hI : PyInv proj s) (hok : starOk proj t x) :
    PyInv proj (starBind m t s x) ∧ HeapExt s (starBind m t s x) := by
  unfold starBind
  split
  · exact ⟨hI, HeapExt.refl s⟩
  · cases hv : modAttr s t x with
    | none => exact ⟨pyInv_err hI true, fun _ _ h => h⟩
    | some v =>
      obtain ⟨sv, hsv, hj⟩ := hI.mods t x v hv
      exact ⟨pyInv_bindGlobal hI hsv (Jpy.star hb hst ht hok hj), fun _ _ h => h⟩

theorem starFoldPy_ok {proj : Project} {m t : Nat} {full : List Stmt} {lvl : Nat} {M : Path}
    (hb : siteBody proj (m, []) = some full) (hst : Stmt.importStar lvl M ∈ full) (ht : target proj m lvl M = some t) :
    ∀ (l : List Name) (s : PyImp.St), PyInv proj s → (∀ x ∈ l, starOk proj t x) →
      PyInv proj (l.foldl (starBind m t) s) ∧ HeapExt s (l.foldl (starBind m t) s)
  | [], s, hI, _ => ⟨hI, HeapExt.refl s⟩
  | x :: l, s, hI, hok => by
    simp only [List.foldl_cons]
    obtain ⟨h1, e1⟩ := starBind_ok hb hst ht hI (hok x (List.mem_cons_self ..))
    obtain ⟨h2, e2⟩ := starFoldPy_ok hb hst ht l _ h1 (fun y hy => hok y (List.mem_cons_of_mem _ hy))
    exact ⟨h2, e1.trans e2⟩

theorem execImportStar_ok {proj : Project} {imp : PyImp.St → Path → PyImp.St} (himp : ImpOk proj imp) {m : Nat}
    {cp : Path} {full : List Stmt} (hb : siteBody proj (m, cp) = some full) {lvl : Nat} {M : Path}
    (hst : Stmt.importStar lvl M ∈ full) {x : PyImp.St × Option Ns} (hI : PyInv proj x.1)
    (hf : FrOk proj x.1 (m, cp) x.2) : ExecOk proj (m, cp) x (execImportStar proj imp m lvl M x) := by
  unfold execImportStar
  by_cases he : x.1.err = true
  · simp only [he, if_true]; exact ExecOk.refl hI hf
  · simp only [he]
    by_cases hfs : x.2.isSome = true
    · simp only [hfs, if_true]
      have : fail x = fail (x.1, x.2) := rfl
      rw [this]; exact ExecOk.fail hI (HeapExt.refl _) hf
    · simp only [hfs]
      have hnone : x.2 = none := by cases h : x.2 <;> simp_all
      have hcp : cp = [] := hf.2 hnone
      subst hcp
      cases hT : pyAbsName proj m lvl M with
      | none => exact ExecOk.fail hI (HeapExt.refl _) hf
      | some T =>
        simp only
        obtain ⟨hI1, hx1⟩ := himp x.1 T hI
        by_cases he1 : (imp x.1 T).err = true
        · simp only [he1, if_true]; exact ExecOk.state hI1 hx1 hf
        · simp only [he1]
          cases ht : modIdx proj T with
          | none => exact ExecOk.fail hI1 hx1 hf
          | some t =>
            simp only
            have h2 : PyInv proj (starPrep proj imp T t (imp x.1 T)) ∧ HeapExt (imp x.1 T) (starPrep proj imp T t (imp x.1 T)) := by
              unfold starPrep
              cases allOf (imp x.1 T) t with
              | none => exact ⟨hI1, HeapExt.refl _⟩
              | some l => exact fromlistFold_ok himp T t l _ hI1
            obtain ⟨hI2, hx2⟩ := h2
            generalize starPrep proj imp T t (imp x.1 T) = s2 at hI2 hx2 ⊢
            by_cases he2 : s2.err = true
            · simp only [he2, if_true]; exact ExecOk.state hI2 (hx1.trans hx2) hf
            · simp only [he2]
              have hnames : ∀ y ∈ starNamesPy s2 t, starOk proj t y := by
                intro y hy
                unfold starNamesPy at hy
                cases ha : allOf s2 t with
                | some l => simp only [ha] at hy; exact Or.inl (hI2.alls t l ha y hy)
                | none =>
                  simp only [ha, List.mem_filter] at hy
                  exact Or.inr (by simpa [isPublic] using hy.2)
              obtain ⟨hI3, hx3⟩ := starFoldPy_ok hb hst (target_of hT ht) _ s2 hI2 hnames
              exact ExecOk.state hI3 ((hx1.trans hx2).trans hx3) hf

theorem execDef_ok {proj : Project} {m : Nat} {cp : Path} {full : List Stmt} (hb : siteBody proj (m, cp) = some full)
    {st : Stmt} {n : Name} (hst : st ∈ full) (hd : st.defName = some n) {x : PyImp.St × Option Ns}
    (hI : PyInv proj x.1) (hf : FrOk proj x.1 (m, cp) x.2) : ExecOk proj (m, cp) x (execDef m cp n x) := by
  unfold execDef
  by_cases he : x.1.err = true
  · simp only [he, if_true]; exact ExecOk.refl hI hf
  · simp only [he]
    exact ExecOk.bind hI (HeapExt.refl _) hf rfl (Jpy.dfn hb hst hd)

theorem allNames_cons (st : Stmt) (rest : List Stmt) (x : Name) (h : x ∈ allNames rest) : x ∈ allNames (st :: rest) := by
  cases st with
  | allAssign l0 => simp only [allNames, List.mem_append]; exact Or.inr h
  | importMod _ _ => simpa only [allNames] using h
  | importFrom _ _ _ _ => simpa only [allNames] using h
  | importStar _ _ => simpa only [allNames] using h
  | classDef _ _ _ => simpa only [allNames] using h
  | funcDef _ => simpa only [allNames] using h
  | assign _ _ => simpa only [allNames] using h

theorem allNames_mem : ∀ {body : List Stmt} {l : List Name}, Stmt.allAssign l ∈ body → ∀ x ∈ l, x ∈ allNames body
  | [], _, h, _, _ => by cases h
  | st :: rest, l, h, x, hx => by
    rcases List.mem_cons.1 h with rfl | h'
    · simp only [allNames, List.mem_append]; exact Or.inl hx
    · exact allNames_cons st rest x (allNames_mem h' x hx)

theorem allOf_set {s : PyImp.St} {m t : Nat} {v : Option (List Name)} :
    allOf { s with alls := s.alls.set m v } t = if t = m ∧ m < s.alls.length then v else allOf s t := by
  unfold allOf
  simp only [List.getD_eq_getElem?_getD, List.getElem?_set]
  by_cases h : m = t
  · subst h
    by_cases hl : m < s.alls.length
    · simp only [hl, if_true, and_self, Option.getD_some]
    · have : s.alls[m]? = none := List.getElem?_eq_none (Nat.le_of_not_lt hl)
      simp only [hl, and_false, if_false, if_true, this, Option.getD_none]
  · have : ¬ (t = m ∧ m < s.alls.length) := fun hh => h hh.1.symm
    simp only [h, this, if_false]

theorem execAll_ok {proj : Project} {m : Nat} {cp : Path} {full : List Stmt} (hb : siteBody proj (m, cp) = some full)
    {l : List Name} (hst : Stmt.allAssign l ∈ full) {x : PyImp.St × Option Ns}
    (hI : PyInv proj x.1) (hf : FrOk proj x.1 (m, cp) x.2) : ExecOk proj (m, cp) x (execAll m l x) := by
  unfold execAll
  by_cases he : x.1.err = true
  · simp only [he, if_true]; exact ExecOk.refl hI hf
  · have he' : x.1.err = false := by simpa using he
    simp only [he', Bool.false_eq_true, if_false]
    cases hfr : x.2 with
    | some l' => simp only; exact ExecOk.refl hI hf
    | none =>
      simp only
      have hcp : cp = [] := hf.2 hfr
      subst hcp
      have hfull := siteBody_mod hb
      have hheap : HeapExt x.1 { x.1 with alls := x.1.alls.set m (some l), err := false } := fun _ _ h => h
      have hfrok : FrOk proj { x.1 with alls := x.1.alls.set m (some l), err := false } (m, []) none :=
        ⟨fun l' hl' => (by cases hl'), fun _ => rfl⟩
      refine ⟨⟨hI.mods, hI.heap, ?_⟩, hheap, hfrok, ?_⟩
      · intro t l' hl' y hy
        have hl2 : allOf { x.1 with alls := x.1.alls.set m (some l) } t = some l' := hl'
        rw [allOf_set] at hl2
        split at hl2
        · rename_i hc
          injection hl2 with hl2; subst hl2
          rw [hc.1, ← hfull]; exact allNames_mem hst y hy
        · exact hI.alls t l' hl2 y hy
      · simp only [hfr]

theorem ExecOk.trans {proj : Project} {S : Site} {a b c : PyImp.St × Option Ns} (h1 : ExecOk proj S a b)
    (h2 : ExecOk proj S b c) : ExecOk proj S a c :=
  ⟨h2.1, h1.2.1.trans h2.2.1, h2.2.2.1, h2.2.2.2.trans h1.2.2.2⟩

theorem finishClass_ok {proj : Project} {m : Nat} {cp : Path} {full : List Stmt} (hb : siteBody proj (m, cp) = some full)
    {name : Name} {bs : List Path} {body : List Stmt} (hst : Stmt.classDef name bs body ∈ full)
    {fr : Option Ns} {s1 : PyImp.St} {fr1 : Option Ns} (hI : PyInv proj s1) (hfo : FrOk proj s1 (m, cp) fr)
    (hfi : FrOk proj s1 (m, cp ++ [name]) fr1) :
    PyInv proj (finishClass m cp name [] fr s1 fr1).1 ∧ HeapExt s1 (finishClass m cp name [] fr s1 fr1).1 ∧
    FrOk proj (finishClass m cp name [] fr s1 fr1).1 (m, cp) (finishClass m cp name [] fr s1 fr1).2 ∧
    ((finishClass m cp name [] fr s1 fr1).2 = none ↔ fr = none) := by
  unfold finishClass
  by_cases he : s1.err = true
  · rw [if_pos he]; exact ⟨hI, HeapExt.refl _, hfo, Iff.rfl⟩
  · rw [if_neg he]
    generalize hs2 : ({ s1 with heap := s1.heap ++ [⟨m, cp ++ [name], [], fr1.getD []⟩] } : PyImp.St) = s2
    have hext : HeapExt s1 s2 := by
      intro h co hh
      rw [← hs2]; simp only
      rw [List.getElem?_append_left (List.getElem?_eq_some_iff.1 hh).1]; exact hh
    have hnew : s2.heap[s1.heap.length]? = some ⟨m, cp ++ [name], [], fr1.getD []⟩ := by
      rw [← hs2]; simp
    have hns2 : ∀ t, nsOf s2 t = nsOf s1 t := fun t => by rw [← hs2]; rfl
    have hI2 : PyInv proj s2 := by
      refine ⟨fun t => by rw [hns2]; exact (hI.mods t).ext hext, ?_, fun t l hl => hI.alls t l (by rw [← hs2] at hl; exact hl)⟩
      intro h co hh
      by_cases hlt : h < s1.heap.length
      · have hold : s1.heap[h]? = some co := by
          rw [← hs2] at hh; simp only at hh
          rw [List.getElem?_append_left hlt] at hh; exact hh
        obtain ⟨h1, h2⟩ := hI.heap h co hold
        exact ⟨h1.ext hext, h2⟩
      · have hlen : h < s2.heap.length := (List.getElem?_eq_some_iff.1 hh).1
        have : h = s1.heap.length := by rw [← hs2] at hlen; simp at hlen; omega
        subst this
        rw [hnew] at hh; injection hh with hh; subst hh
        simp only
        refine ⟨?_, trivial⟩
        cases hfr1 : fr1 with
        | none => exact NsOk.nil
        | some l => exact (hfi.1 l hfr1).ext hext
    by_cases hm : (PyImp.mroOf s2 s1.heap.length).isNone = true
    · rw [if_pos hm]
      exact ⟨pyInv_err hI2 true, fun h co hh => hext h co hh, ⟨fun l hl => (hfo.1 l hl).ext hext, hfo.2⟩, Iff.rfl⟩
    · rw [if_neg hm]
      have hv : svalV s2 (.cls s1.heap.length) = some (.dfn m (cp ++ [name])) := by simp [svalV, hnew]
      have hfo2 := hfo.ext hext
      obtain ⟨h1, h2, h3, h4⟩ := bind_ok hI2 hfo2.1 hfo2.2 hv (Jpy.dfn hb hst rfl)
      exact ⟨h1, hext.trans h2, ⟨h3, fun h => hfo.2 (h4.1 h)⟩, h4⟩

mutual
theorem execStmt_ok {proj : Project} {rank : List Nat} (wf : WFacts proj rank) {imp : PyImp.St → Path → PyImp.St}
    (himp : ImpOk proj imp) {m : Nat} :
    ∀ (st : Stmt) (cp : Path) (full : List Stmt) (x : PyImp.St × Option Ns), siteBody proj (m, cp) = some full →
      st ∈ full → PyInv proj x.1 → FrOk proj x.1 (m, cp) x.2 → ExecOk proj (m, cp) x (execStmt proj imp m cp st x)
  | .importMod t a, cp, full, x, hb, hst, hI, hf => by simp only [execStmt]; exact execImport_ok himp hb hst hI hf
  | .importFrom l M n a, cp, full, x, hb, hst, hI, hf => by
    simp only [execStmt]; exact execImportFrom_ok himp hb hst hI hf
  | .importStar l M, cp, full, x, hb, hst, hI, hf => by simp only [execStmt]; exact execImportStar_ok himp hb hst hI hf
  | .classDef name bs body, cp, full, x, hb, hst, hI, hf => by
    simp only [execStmt]
    by_cases he : x.1.err = true
    · simp only [he, if_true]; exact ExecOk.refl hI hf
    · simp only [he]
      have hbs : bs = [] := wf.nobases hb hst
      subst hbs
      have hev : evalBases x.1 m x.2 [] = some [] := by simp [evalBases]
      simp only [hev]
      have hbi : siteBody proj (m, cp ++ [name]) = some body := siteBody_snoc hb (findClass_of_mem wf hb hst)
      have hfi0 : FrOk proj x.1 (m, cp ++ [name]) (some []) :=
        ⟨fun l hl => by injection hl with hl; subst hl; exact NsOk.nil, fun h => by cases h⟩
      have hin := execStmts_ok wf himp body (cp ++ [name]) body (x.1, some []) hbi (fun _ h => h) hI hfi0
      obtain ⟨hI1, hx1, hfi1, _⟩ := hin
      have := finishClass_ok hb hst (fr := x.2) hI1 (hf.ext hx1) hfi1
      obtain ⟨h1, h2, h3, h4⟩ := this
      exact ⟨h1, HeapExt.trans hx1 h2, h3, h4⟩
  | .funcDef n, cp, full, x, hb, hst, hI, hf => by simp only [execStmt]; exact execDef_ok hb hst rfl hI hf
  | .assign n v, cp, full, x, hb, hst, hI, hf => by simp only [execStmt]; exact execDef_ok hb hst rfl hI hf
  | .allAssign l, cp, full, x, hb, hst, hI, hf => by simp only [execStmt]; exact execAll_ok hb hst hI hf
theorem execStmts_ok {proj : Project} {rank : List Nat} (wf : WFacts proj rank) {imp : PyImp.St → Path → PyImp.St}
    (himp : ImpOk proj imp) {m : Nat} :
    ∀ (sts : List Stmt) (cp : Path) (full : List Stmt) (x : PyImp.St × Option Ns), siteBody proj (m, cp) = some full →
      (∀ st ∈ sts, st ∈ full) → PyInv proj x.1 → FrOk proj x.1 (m, cp) x.2 →
      ExecOk proj (m, cp) x (execStmts proj imp m cp sts x)
  | [], cp, full, x, _, _, hI, hf => by simp only [execStmts]; exact ExecOk.refl hI hf
  | st :: rest, cp, full, x, hb, hsub, hI, hf => by
    simp only [execStmts]
    have h1 := execStmt_ok wf himp st cp full x hb (hsub st (List.mem_cons_self ..)) hI hf
    have h2 := execStmts_ok wf himp rest cp full _ hb (fun y hy => hsub y (List.mem_cons_of_mem _ hy)) h1.1 h1.2.2.1
    exact h1.trans h2
end

/-! ## importing a module; the whole run -/

theorem pyInv_ms {proj : Project} {s : PyImp.St} (hI : PyInv proj s) (ms' : List MState) : PyInv proj { s with ms := ms' } :=
  ⟨hI.mods, hI.heap, hI.alls⟩

theorem ensure_ok {proj : Project} {rank : List Nat} (wf : WFacts proj rank) : ∀ f, ImpOk proj (ensure proj f)
  | 0 => fun s p hI => by simp only [ensure]; exact ⟨pyInv_err hI true, fun _ _ h => h⟩
  | f+1 => fun s p hI => by
    have ih := ensure_ok wf f
    simp only [ensure]
    by_cases he : s.err = true
    · rw [if_pos he]; exact ⟨hI, HeapExt.refl s⟩
    · rw [if_neg he]
      cases hm : modIdx proj p with
      | none => exact ⟨pyInv_err hI true, fun _ _ h => h⟩
      | some m =>
        simp only
        by_cases hin : inSys s m = true
        · rw [if_pos hin]; exact ⟨hI, HeapExt.refl s⟩
        · rw [if_neg hin]
          generalize hs1 : (if p.length ≤ 1 then s else ensure proj f s p.dropLast) = s1
          have h1 : PyInv proj s1 ∧ HeapExt s s1 := by
            rw [← hs1]; split
            · exact ⟨hI, HeapExt.refl s⟩
            · exact ih s _ hI
          obtain ⟨hI1, hx1⟩ := h1
          by_cases he1 : s1.err = true
          · rw [if_pos he1]; exact ⟨hI1, hx1⟩
          · rw [if_neg he1]
            by_cases hin1 : inSys s1 m = true
            · rw [if_pos hin1]; exact ⟨hI1, hx1⟩
            · rw [if_neg hin1]
              generalize (decide (p.length ≤ 1) || match modIdx proj p.dropLast with
                | some q => isPkg proj q | none => false) = parentOk
              by_cases hpo : (!parentOk) = true
              · rw [if_pos hpo]; exact ⟨pyInv_err hI1 true, fun h co hh => hx1 h co hh⟩
              · rw [if_neg hpo]
                obtain ⟨hlt, hpath⟩ := modIdx_spec hm
                have hmd : proj[m]? = some proj[m] := by simp [hlt]
                simp only [hmd]
                have hbody : siteBody proj (m, []) = some proj[m].body := by
                  rw [siteBody_zero hlt, bodyOf_eq hmd]
                have hI2 := pyInv_ms hI1 (s1.ms.set m .executing)
                have hex := execStmts_ok wf ih proj[m].body [] proj[m].body
                  ({ s1 with ms := s1.ms.set m .executing }, none) hbody (fun _ h => h) hI2
                  ⟨fun l hl => (by cases hl), fun _ => rfl⟩
                obtain ⟨hI3, hx3, _, _⟩ := hex
                generalize (execStmts proj (ensure proj f) m [] proj[m].body
                  ({ s1 with ms := s1.ms.set m .executing }, none)).1 = s3 at hI3 hx3 ⊢
                have hx13 : HeapExt s s3 := hx1.trans (fun h co hh => hx3 h co hh)
                by_cases he3 : s3.err = true
                · rw [if_pos he3]; exact ⟨hI3, hx13⟩
                · rw [if_neg he3]
                  have hI4 := pyInv_ms hI3 (s3.ms.set m .done)
                  by_cases hl : p.length ≤ 1
                  · rw [if_pos hl]; exact ⟨hI4, hx13⟩
                  · rw [if_neg hl]
                    cases hq : modIdx proj p.dropLast with
                    | none => exact ⟨hI4, hx13⟩
                    | some q =>
                      cases hnm : p.getLast? with
                      | none => exact ⟨hI4, hx13⟩
                      | some nm =>
                        simp only
                        have hpne : p ≠ [] := by intro h; subst h; simp at hnm
                        have hsplit : p.dropLast ++ [nm] = p := by
                          have := List.dropLast_concat_getLast hpne
                          rw [List.getLast?_eq_some_getLast hpne] at hnm
                          injection hnm with hnm; rw [← hnm]; exact this
                        have hchild : modIdx proj (pathOf proj q ++ [nm]) = some m := by
                          rw [(modIdx_spec hq).2, hsplit]; exact hm
                        exact ⟨pyInv_bindGlobal hI4 (v := .mod m) rfl (Jpy.child hchild), fun h co hh => hx13 h co hh⟩

theorem run_py_ok {proj : Project} {rank : List Nat} (wf : WFacts proj rank) (order : List Nat) :
    PyInv proj (PyImp.run proj order) := by
  unfold PyImp.run
  have h0 : PyInv proj (PyImp.initSt proj) := by
    refine ⟨fun m x v h => ?_, fun h co hh => ?_, fun m l h => ?_⟩
    · unfold nsOf PyImp.initSt at h
      simp only [List.getD_eq_getElem?_getD, List.getElem?_replicate] at h
      split at h <;> simp [dget] at h
    · simp [PyImp.initSt] at hh
    · unfold allOf PyImp.initSt at h
      simp only [List.getD_eq_getElem?_getD, List.getElem?_replicate] at h
      split at h <;> simp at h
  generalize PyImp.initSt proj = s0 at h0
  induction order generalizing s0 with
  | nil => exact h0
  | cons m rest ih => exact ih _ (ensure_ok wf _ s0 _ h0).1

/-! ## what `pyDenotes` answers is a `Jpy` derivation -/

theorem mroOf_nobases {proj : Project} {s : PyImp.St} (hI : PyInv proj s) {h : Nat} {co : ClassObj}
    (hh : s.heap[h]? = some co) : PyImp.mroOf s h = some [h] := by
  unfold PyImp.mroOf
  have hb : basesOf s h = [] := by simp [basesOf, hh, (hI.heap h co hh).2]
  simp [PyMro.mroFuel, hb, Mro.mapOpt, PyMro.hasDup]
  decide

theorem getAttr_j {proj : Project} {s : PyImp.St} (hI : PyInv proj s) {v0 v1 : Val} {sv0 : SVal} {y : Name}
    (hs : svalV s v0 = some sv0) (h : getAttr s v0 y = some v1) :
    ∃ sv1, svalV s v1 = some sv1 ∧ Jpy proj (scopeOf sv0) [y] sv1 := by
  cases v0 with
  | mod t =>
    simp only [svalV, Option.some.injEq] at hs; subst hs
    exact hI.mods t y v1 h
  | obj m cp => simp [getAttr] at h
  | cls hh =>
    simp only [svalV] at hs
    cases hc : s.heap[hh]? with
    | none => simp [hc] at hs
    | some co =>
      simp only [hc, Option.map_some, Option.some.injEq] at hs; subst hs
      simp only [getAttr, mroOf_nobases hI hc, List.findSome?, hc] at h
      have hd : dget co.ns y = some v1 := by
        cases hx : dget co.ns y with
        | none => simp [hx] at h
        | some w => simp only [hx, Option.some.injEq] at h; rw [h]
      exact (hI.heap hh co hc).1 y v1 hd

theorem getAttrs_j {proj : Project} {s : PyImp.St} (hI : PyInv proj s) :
    ∀ (ys : List Name) (v0 v : Val) (sv0 : SVal), svalV s v0 = some sv0 → getAttrs s v0 ys = some v → ys ≠ [] →
      ∃ sv, svalV s v = some sv ∧ Jpy proj (scopeOf sv0) ys sv
  | [], _, _, _, _, _, hne => absurd rfl hne
  | [y], v0, v, sv0, hs, h, _ => by
    simp only [getAttrs] at h
    cases ha : getAttr s v0 y with
    | none => simp [ha] at h
    | some w => simp only [ha, getAttrs, Option.some.injEq] at h; subst h; exact getAttr_j hI hs ha
  | y :: y2 :: ys, v0, v, sv0, hs, h, _ => by
    simp only [getAttrs] at h
    cases ha : getAttr s v0 y with
    | none => simp [ha] at h
    | some w =>
      simp only [ha] at h
      obtain ⟨sw, hsw, hjw⟩ := getAttr_j hI hs ha
      obtain ⟨sv, hsv, hj⟩ := getAttrs_j hI (y2 :: ys) w v sw hsw h (by simp)
      exact ⟨sv, hsv, Jpy.cons hjw hj⟩

theorem denoteIn_j {proj : Project} {s : PyImp.St} (hI : PyInv proj s) {S : Site} {ns : Ns} (hns : NsOk proj s S ns)
    {name : Path} {v : Val} (h : denoteIn s ns name = some v) : ∃ sv, svalV s v = some sv ∧ Jpy proj S name sv := by
  cases name with
  | nil => simp [denoteIn] at h
  | cons x rest =>
    simp only [denoteIn] at h
    cases hd : dget ns x with
    | none => simp [hd] at h
    | some v0 =>
      simp only [hd] at h
      obtain ⟨sv0, hs0, hj0⟩ := hns x v0 hd
      cases rest with
      | nil => simp only [getAttrs, Option.some.injEq] at h; subst h; exact ⟨sv0, hs0, hj0⟩
      | cons y ys =>
        obtain ⟨sv, hsv, hj⟩ := getAttrs_j hI (y :: ys) v0 v sv0 hs0 h (by simp)
        exact ⟨sv, hsv, Jpy.cons hj0 hj⟩

theorem walkNs_j {proj : Project} {s : PyImp.St} (hI : PyInv proj s) :
    ∀ (cp : List Name) (ns ns' : Ns) (S : Site), NsOk proj s S ns → walkNs s ns cp = some ns' →
      ∃ S', NsOk proj s S' ns' ∧ ((cp = [] ∧ S' = S) ∨ (cp ≠ [] ∧ Jpy proj S cp (.dfn S'.1 S'.2)))
  | [], ns, ns', S, hns, h => by
    simp only [walkNs, Option.some.injEq] at h; subst h
    exact ⟨S, hns, Or.inl ⟨rfl, rfl⟩⟩
  | c :: cs, ns, ns', S, hns, h => by
    simp only [walkNs] at h
    cases hd : dget ns c with
    | none => simp [hd] at h
    | some v0 =>
      simp only [hd] at h
      cases v0 with
      | mod t => simp at h
      | obj m cp => simp at h
      | cls hh =>
        simp only at h
        cases hc : s.heap[hh]? with
        | none => simp [hc] at h
        | some co =>
          simp only [hc] at h
          obtain ⟨sv0, hs0, hj0⟩ := hns c _ hd
          simp only [svalV, hc, Option.map_some, Option.some.injEq] at hs0; subst hs0
          obtain ⟨S', hns', hcase⟩ := walkNs_j hI cs co.ns ns' (co.mod, co.cp) (hI.heap hh co hc).1 h
          refine ⟨S', hns', Or.inr ⟨by simp, ?_⟩⟩
          rcases hcase with ⟨hcs, hS⟩ | ⟨hcs, hj⟩
          · subst hcs; subst hS; exact hj0
          · cases cs with
            | nil => exact absurd rfl hcs
            | cons y ys => exact Jpy.cons hj0 hj

theorem identOf_sval {proj : Project} {s : PyImp.St} {v : Val} {sv : SVal} (h : svalV s v = some sv) :
    PyImp.identOf proj s v = some (identSV proj sv) := by
  cases v with
  | mod m => simp only [svalV, Option.some.injEq] at h; subst h; rfl
  | obj m cp => simp only [svalV, Option.some.injEq] at h; subst h; rfl
  | cls hh =>
    simp only [svalV] at h
    cases hc : s.heap[hh]? with
    | none => simp [hc] at h
    | some co => simp only [hc, Option.map_some, Option.some.injEq] at h; subst h; simp [PyImp.identOf, hc, identSV]

/-- **what Python's run answers is derivable**: the scope reached through the class chain `cp` is a
static site `S` (the module itself, or the class `Jpy` gives for `cp`), and the identity answered
for `name` is that of a value `Jpy` gives for `name` in `S` -/
theorem pyDenotes_j {proj : Project} {rank : List Nat} (wf : WFacts proj rank) {order : List Nat} {m : Nat}
    {cp : List Name} {name : Path} {id : Ident} (h : pyDenotes proj order m cp name = some id) :
    ∃ S sv, ((cp = [] ∧ S = (m, [])) ∨ (cp ≠ [] ∧ Jpy proj (m, []) cp (.dfn S.1 S.2))) ∧
      Jpy proj S name sv ∧ identSV proj sv = id := by
  have hI := run_py_ok wf order
  unfold pyDenotes denoteAt at h
  generalize PyImp.run proj order = s at hI h
  split at h
  · cases h
  · cases hw : walkNs s (nsOf s m) cp with
    | none => simp [hw] at h
    | some ns =>
      simp only [hw] at h
      cases hd : denoteIn s ns name with
      | none => simp [hd] at h
      | some v =>
        simp only [hd] at h
        obtain ⟨S, hns, hcase⟩ := walkNs_j hI cp _ ns (m, []) (hI.mods m) hw
        obtain ⟨sv, hsv, hj⟩ := denoteIn_j hI hns hd
        rw [identOf_sval hsv] at h
        injection h with h
        exact ⟨S, sv, hcase, hj, h⟩

end Imports
