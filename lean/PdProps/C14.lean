/-
C14 — a displayed signature is the signature that was written.

Property theorems over `PdModel.Signature` (model of `_handleFunctionDef`'s parameter list,
`inspect.Signature.__init__/__str__`, `format_signature`/`format_overloads`, and CPython's reading of
a parameter list).  All statements quantify over every `ast.arguments`-shaped value; defaults and
annotations are opaque atoms (their own rendering is C15).
-/
import PdModel.Signature

namespace Signature

/-! ## helper lemmas: `nodupB`, the annotations dict -/

theorem nodupB_iff (l : List Nat) : nodupB l = true ↔ l.Nodup := by
  induction l with
  | nil => simp [nodupB]
  | cons x xs ih => simp [nodupB, ih]

theorem dictSet_fresh {V : Type} (d : List (Key × V)) (k : Key) (v : V)
    (h : k ∉ d.map (·.1)) : dictSet d k v = d ++ [(k, v)] := by
  induction d with
  | nil => simp [dictSet]
  | cons kv rest ih =>
    obtain ⟨k', v'⟩ := kv
    simp only [List.map_cons, List.mem_cons, not_or] at h
    have hne : ¬ k' = k := fun e => h.1 e.symm
    simp [dictSet, hne, ih h.2]

theorem foldl_dictSet_fresh {V W : Type} (f : W → V) (l : List (Key × W)) :
    ∀ (d : List (Key × V)), (d.map (·.1) ++ l.map (·.1)).Nodup →
      l.foldl (fun d kv => dictSet d kv.1 (f kv.2)) d = d ++ l.map (fun kv => (kv.1, f kv.2)) := by
  induction l with
  | nil => intro d _; simp
  | cons kv rest ih =>
    intro d h
    have hk : kv.1 ∉ d.map (·.1) := by
      intro hm
      have := List.nodup_append.mp h
      exact this.2.2 _ hm _ (by simp) rfl
    simp only [List.foldl_cons, dictSet_fresh d kv.1 (f kv.2) hk]
    rw [ih]
    · simp
    · simpa [List.append_assoc] using h

theorem dictGet_mem {V : Type} (d : List (Key × V)) (k : Key) (v : V)
    (hn : (d.map (·.1)).Nodup) (hm : (k, v) ∈ d) : dictGet d k = some v := by
  induction d with
  | nil => simp at hm
  | cons kv rest ih =>
    obtain ⟨k', v'⟩ := kv
    simp only [List.map_cons, List.nodup_cons] at hn
    simp only [List.mem_cons, Prod.mk.injEq] at hm
    rcases hm with ⟨rfl, rfl⟩ | hm
    · simp [dictGet]
    · have hne : ¬ k' = k := by
        intro e; subst e
        exact hn.1 (List.mem_map.mpr ⟨(k', v), hm, rfl⟩)
      simp [dictGet, hne, ih hn.2 hm]

theorem dictGet_not_mem {V : Type} (d : List (Key × V)) (k : Key)
    (h : k ∉ d.map (·.1)) : dictGet d k = none := by
  induction d with
  | nil => simp [dictGet]
  | cons kv rest ih =>
    obtain ⟨k', v'⟩ := kv
    simp only [List.map_cons, List.mem_cons, not_or] at h
    have hne : ¬ k' = k := fun e => h.1 e.symm
    simp [dictGet, hne, ih h.2]

theorem keys_allAst (a : Args) :
    (allAstAnnotations a).map (·.1) =
      (Args.names a).map Key.name ++ (match a.returns with | some _ => [Key.ret] | none => []) := by
  unfold allAstAnnotations Args.names
  cases a.returns <;> simp [List.map_map, Function.comp_def]

theorem keys_allAst_nodup (a : Args) (h : (Args.names a).Nodup) :
    ((allAstAnnotations a).map (·.1)).Nodup := by
  rw [keys_allAst]
  have h1 : ((Args.names a).map Key.name).Nodup :=
    List.Pairwise.map Key.name (fun _ _ hne e => hne (by injection e)) h
  cases a.returns with
  | none => simpa using h1
  | some r =>
    simp only
    rw [List.nodup_append]
    refine ⟨h1, by simp, ?_⟩
    intro x hx y hy e
    simp only [List.mem_map] at hx
    obtain ⟨n, _, rfl⟩ := hx
    simp at hy
    subst hy
    cases e

/-- with distinct parameter names the dict is just the list of pairs, annotations unstringed -/
theorem annotations_eq (a : Args) (h : (Args.names a).Nodup) :
    annotationsFromFunction a =
      (allAstAnnotations a).map (fun kv => (kv.1, kv.2.map AnnE.unstring)) := by
  unfold annotationsFromFunction
  rw [foldl_dictSet_fresh (fun (o : Option AnnE) => o.map AnnE.unstring)]
  · simp
  · simpa using keys_allAst_nodup a h

theorem annotations_keys_nodup (a : Args) (h : (Args.names a).Nodup) :
    ((annotationsFromFunction a).map (·.1)).Nodup := by
  rw [annotations_eq a h]
  simpa [List.map_map, Function.comp_def] using keys_allAst_nodup a h

/-- `annotations.get(name)` is the parameter's own (unstringed) annotation -/
theorem annGet_arg (a : Args) (h : (Args.names a).Nodup) (x : Arg) (hx : x ∈ allArgs a) :
    annGet (annotationsFromFunction a) (.name x.name) = x.ann.map AnnE.unstring := by
  have hm : (Key.name x.name, x.ann.map AnnE.unstring) ∈ annotationsFromFunction a := by
    rw [annotations_eq a h]
    simp only [List.mem_map]
    refine ⟨(Key.name x.name, x.ann), ?_, rfl⟩
    unfold allAstAnnotations
    exact List.mem_append_left _ (List.mem_map.mpr ⟨x, hx, rfl⟩)
  have := dictGet_mem _ _ _ (annotations_keys_nodup a h) hm
  unfold annGet
  rw [this]
  cases x.ann <;> rfl

theorem returnAnnotation_eq (a : Args) (h : (Args.names a).Nodup) :
    returnAnnotation a = normReturns a.returns := by
  unfold returnAnnotation annGet normReturns
  cases hr : a.returns with
  | none =>
    have : Key.ret ∉ (annotationsFromFunction a).map (·.1) := by
      rw [annotations_eq a h]
      simp only [List.map_map, Function.comp_def]
      have := keys_allAst a
      simp only [hr] at this
      rw [show (List.map (fun x => x.1) (allAstAnnotations a)) = _ from this]
      simp
    simp [dictGet_not_mem _ _ this]
  | some r =>
    have hm : (Key.ret, some (AnnE.unstring r)) ∈ annotationsFromFunction a := by
      rw [annotations_eq a h]
      simp only [List.mem_map]
      refine ⟨(Key.ret, some r), ?_, rfl⟩
      unfold allAstAnnotations
      simp [hr]
    rw [dictGet_mem _ _ _ (annotations_keys_nodup a h) hm]
    simp only [Option.map_some]
    cases hu : AnnE.unstring r <;> simp

/-! ## `buildParams` computes Python's meaning of `ast.arguments` -/

theorem getDefault_eq (numPos : Nat) (defaults : List Nat) (i : Nat)
    (hi : i < numPos) (hd : defaults.length ≤ numPos) :
    getDefault numPos defaults i = .ok (alignAt numPos defaults i) := by
  unfold getDefault alignAt
  simp only [hi, if_true]
  by_cases h : i < numPos - defaults.length
  · have : ((i : Int) - ((numPos : Int) - (defaults.length : Int))) < 0 := by omega
    simp [h, this]
  · have hnn : ¬ ((i : Int) - ((numPos : Int) - (defaults.length : Int))) < 0 := by omega
    have hidx : ((i : Int) - ((numPos : Int) - (defaults.length : Int))).toNat
        = i - (numPos - defaults.length) := by omega
    have hlt : i - (numPos - defaults.length) < defaults.length := by omega
    simp [h, hnn, hidx, List.getElem?_eq_getElem hlt]

/-- a parameter paired with its default, as a `Param` of kind `k` -/
def pparam (k : Kind) (xd : Arg × Option Nat) : Param :=
  { name := xd.1.name, kind := k, default := xd.2, ann := xd.1.ann }

/-- `*args` / `**kw` parameter -/
def vparam (k : Kind) (x : Arg) : Param :=
  { name := x.name, kind := k, default := none, ann := x.ann }

theorem addPositional_eq (a : Args) (hn : (Args.names a).Nodup) (numPos : Nat) (defaults : List Nat)
    (hd : defaults.length ≤ numPos) (kind : Kind) :
    ∀ (xs : List Arg) (i0 : Nat) (acc : List Param), (∀ x ∈ xs, x ∈ allArgs a) →
      i0 + xs.length ≤ numPos →
      addPositional (annotationsFromFunction a) numPos defaults kind xs i0 acc =
        .ok (acc ++ ((xs.map Arg.norm).zip ((List.range' i0 xs.length).map (alignAt numPos defaults))).map
              (pparam kind)) := by
  intro xs
  induction xs with
  | nil => intro i0 acc _ _; simp [addPositional]
  | cons x xs ih =>
    intro i0 acc hmem hlen
    simp only [List.length_cons] at hlen
    have hi : i0 < numPos := by omega
    have hx : x ∈ allArgs a := hmem x (by simp)
    simp only [addPositional, getDefault_eq numPos defaults i0 hi hd]
    rw [ih (i0 + 1) _ (fun y hy => hmem y (by simp [hy])) (by omega)]
    simp [List.range'_succ, mkParam, pparam, Arg.norm, annGet_arg a hn x hx]

theorem addKwonly_eq (a : Args) (hn : (Args.names a).Nodup) :
    ∀ (xs : List Arg) (ds : List (Option Nat)) (acc : List Param), (∀ x ∈ xs, x ∈ allArgs a) →
      addKwonly (annotationsFromFunction a) xs ds acc =
        acc ++ ((xs.map Arg.norm).zip ds).map (pparam .kwOnly) := by
  intro xs
  induction xs with
  | nil => intro ds acc _; simp [addKwonly]
  | cons x xs ih =>
    intro ds acc hmem
    cases ds with
    | nil => simp [addKwonly]
    | cons d ds =>
      have hx : x ∈ allArgs a := hmem x (by simp)
      simp only [addKwonly]
      rw [ih ds _ (fun y hy => hmem y (by simp [hy]))]
      simp [mkParam, pparam, Arg.norm, annGet_arg a hn x hx]

/-- The five groups of a parameter list, positional ones paired with their defaults. -/
structure Layout where
  po : List (Arg × Option Nat)
  pa : List (Arg × Option Nat)
  va : Option Arg
  kw : List (Arg × Option Nat)
  kk : Option Arg

def Layout.params (L : Layout) : List Param :=
  L.po.map (pparam .posOnly) ++ L.pa.map (pparam .posOrKw) ++ L.va.toList.map (vparam .varPos)
    ++ L.kw.map (pparam .kwOnly) ++ L.kk.toList.map (vparam .varKw)

/-- Python's reading of `ast.arguments` as a layout (`alignAt` = the default rule) -/
def layoutOf (a : Args) : Layout :=
  let n := a.posonly.length + a.args.length
  { po := a.posonly.zip ((List.range' 0 a.posonly.length).map (alignAt n a.defaults)),
    pa := a.args.zip ((List.range' a.posonly.length a.args.length).map (alignAt n a.defaults)),
    va := a.vararg, kw := a.kwonly.zip a.kwDefaults, kk := a.kwarg }

theorem zipWith_as_map (k : Kind) (f : Nat → Option Nat) :
    ∀ (xs : List Arg) (is : List Nat),
      List.zipWith (fun (x : Arg) (i : Nat) =>
        ({ name := x.name, kind := k, default := f i, ann := x.ann } : Param)) xs is
      = (xs.zip (is.map f)).map (pparam k) := by
  intro xs
  induction xs with
  | nil => intro is; simp
  | cons x xs ih =>
    intro is
    cases is with
    | nil => simp
    | cons i is => simp [ih, pparam]

theorem specParams_layout (a : Args) : specParams a = (layoutOf a).params := by
  unfold specParams specPositional Layout.params layoutOf
  simp only [zipWith_as_map]
  cases a.vararg <;> cases a.kwarg <;> simp [vparam, pparam]

theorem mem_allArgs (a : Args) (x : Arg) :
    x ∈ allArgs a ↔ x ∈ a.posonly ∨ x ∈ a.args ∨ a.vararg = some x ∨ x ∈ a.kwonly ∨ a.kwarg = some x := by
  unfold allArgs
  simp only [List.mem_append, Option.mem_toList]
  constructor
  · rintro ((((h | h) | h) | h) | h) <;> simp [h]
  · rintro (h | h | h | h | h) <;> simp [h]

/-- **`build_eq_spec`**: for every parser-shaped `ast.arguments` with distinct names, the parameter
list pydoctor hands to `inspect.Signature` is Python's own reading of those arguments (same names,
order, kinds; defaults by the alignment rule; annotations unstringed) — and no assertion fails. -/
theorem build_eq_spec (a : Args) (hwf : a.WF = true) :
    buildParams a = .ok (specParams a.norm) := by
  simp only [Args.WF, Args.parserWF, Bool.and_eq_true, decide_eq_true_eq, nodupB_iff] at hwf
  obtain ⟨⟨hd, hk⟩, hn⟩ := hwf
  rw [specParams_layout]
  unfold buildParams
  simp only
  rw [addPositional_eq a hn _ _ hd .posOnly a.posonly 0 [] (fun x hx => (mem_allArgs a x).2 (Or.inl hx))
        (by omega)]
  simp only
  rw [addPositional_eq a hn _ _ hd .posOrKw a.args a.posonly.length _
        (fun x hx => (mem_allArgs a x).2 (Or.inr (Or.inl hx))) (by omega)]
  simp only [hk, if_true]
  rw [addKwonly_eq a hn a.kwonly a.kwDefaults _
        (fun x hx => (mem_allArgs a x).2 (Or.inr (Or.inr (Or.inr (Or.inl hx)))))]
  have hv : ∀ v, a.vararg = some v →
      mkParam (annotationsFromFunction a) v.name .varPos none = vparam .varPos (Arg.norm v) := by
    intro v hv
    simp [mkParam, vparam, Arg.norm, annGet_arg a hn v ((mem_allArgs a v).2 (by simp [hv]))]
  have hw : ∀ v, a.kwarg = some v →
      mkParam (annotationsFromFunction a) v.name .varKw none = vparam .varKw (Arg.norm v) := by
    intro v hv
    simp [mkParam, vparam, Arg.norm, annGet_arg a hn v ((mem_allArgs a v).2 (by simp [hv]))]
  unfold Layout.params layoutOf Args.norm
  simp only [List.length_map, List.nil_append]
  cases hva : a.vararg with
  | none =>
    cases hkw : a.kwarg with
    | none => simp
    | some w => simp [hw w hkw]
  | some v =>
    cases hkw : a.kwarg with
    | none => simp [hv v hva]
    | some w => simp [hv v hva, hw w hkw]

/-- **`build_total`**: the two `assert`s and the `defaults[index]` lookup never fail on what CPython's
parser produces (no hypothesis on names). -/
theorem build_total (a : Args) (hwf : a.parserWF = true) : ∃ ps, buildParams a = .ok ps := by
  simp only [Args.parserWF, decide_eq_true_eq] at hwf
  obtain ⟨hd, hk⟩ := hwf
  have key : ∀ (d : List (Key × Option AnnE)) (kind : Kind) (xs : List Arg) (i0 : Nat) (acc : List Param),
      i0 + xs.length ≤ a.posonly.length + a.args.length →
      ∃ ps, addPositional d (a.posonly.length + a.args.length) a.defaults kind xs i0 acc = .ok ps := by
    intro d kind xs
    induction xs with
    | nil => intro i0 acc _; exact ⟨acc, by simp [addPositional]⟩
    | cons x xs ih =>
      intro i0 acc hlen
      simp only [List.length_cons] at hlen
      simp only [addPositional, getDefault_eq _ _ i0 (by omega) hd]
      exact ih _ _ (by omega)
  unfold buildParams
  simp only
  obtain ⟨p1, h1⟩ := key (annotationsFromFunction a) .posOnly a.posonly 0 [] (by omega)
  rw [h1]
  simp only
  obtain ⟨p2, h2⟩ := key (annotationsFromFunction a) .posOrKw a.args a.posonly.length p1 (by omega)
  rw [h2]
  simp [hk]


/-! ## `inspect.Signature.__init__` accepts what `buildParams` produces -/

/-- "no parameter without a default after one with a default", on option lists -/
def defOkO : Bool → List (Option Nat) → Bool
  | _, [] => true
  | sd, none :: r => !sd && defOkO sd r
  | _, some _ :: r => defOkO true r

/-- the same condition on parameters, phrased as `Signature.__init__` tests it -/
def defOk : Bool → List Param → Bool
  | _, [] => true
  | sd, p :: ps =>
    if (p.kind = .posOnly ∨ p.kind = .posOrKw) ∧ p.default = none ∧ sd = true then false
    else defOk (if (p.kind = .posOnly ∨ p.kind = .posOrKw) ∧ p.default ≠ none then true else sd) ps

theorem validateLoop_ok : ∀ (ps : List Param) (top : Kind) (sd : Bool) (seen : List Nat),
    List.Pairwise (fun p q : Param => p.kind.toNat ≤ q.kind.toNat) ps →
    (∀ p ∈ ps, top.toNat ≤ p.kind.toNat) →
    (seen ++ ps.map (·.name)).Nodup →
    defOk sd ps = true →
    validateLoop ps top sd seen = none := by
  intro ps
  induction ps with
  | nil => intros; simp [validateLoop]
  | cons p ps ih =>
    intro top sd seen hpw htop hnd hdef
    rw [List.pairwise_cons] at hpw
    have hp : top.toNat ≤ p.kind.toNat := htop p (by simp)
    have hnotin : p.name ∉ seen := by
      intro hm
      have := (List.nodup_append.mp hnd).2.2 _ hm p.name (by simp)
      exact this rfl
    have hnd' : ((seen ++ [p.name]) ++ ps.map (·.name)).Nodup := by
      simpa [List.append_assoc] using hnd
    unfold validateLoop
    have h1 : ¬ p.kind.toNat < top.toNat := by omega
    simp only [h1, if_false]
    simp only [defOk] at hdef
    split at hdef
    · exact absurd hdef (by simp)
    · rename_i hno
      simp only [hno, if_false, hnotin]
      apply ih _ _ _ hpw.2 _ hnd' hdef
      intro q hq
      split
      · exact hpw.1 q hq
      · exact htop q (by simp [hq])

theorem validateLoop_nodup : ∀ (ps : List Param) (top : Kind) (sd : Bool) (seen : List Nat),
    seen.Nodup → validateLoop ps top sd seen = none → (seen ++ ps.map (·.name)).Nodup := by
  intro ps
  induction ps with
  | nil => intro _ _ seen hs _; simpa using hs
  | cons p ps ih =>
    intro top sd seen hs h
    unfold validateLoop at h
    split at h
    · simp at h
    · simp only at h
      split at h
      · simp at h
      · split at h
        · simp at h
        · rename_i hnot
          have hs' : (seen ++ [p.name]).Nodup := by
            rw [List.nodup_append]
            refine ⟨hs, by simp, ?_⟩
            intro a ha b hb e
            simp at hb
            subst hb; subst e
            exact hnot ha
          have := ih _ _ _ hs' h
          simpa [List.append_assoc] using this

theorem defOk_nonpos : ∀ (l : List Param) (sd : Bool),
    (∀ p ∈ l, p.kind ≠ .posOnly ∧ p.kind ≠ .posOrKw) → defOk sd l = true := by
  intro l
  induction l with
  | nil => intros; rfl
  | cons p ps ih =>
    intro sd h
    have hp := h p (by simp)
    simp only [defOk, hp.1, hp.2, false_or, false_and, if_false]
    exact ih _ (fun q hq => h q (by simp [hq]))

theorem defOk_pos : ∀ (l : List Param) (rest : List Param) (sd : Bool),
    (∀ p ∈ l, p.kind = .posOnly ∨ p.kind = .posOrKw) →
    (∀ p ∈ rest, p.kind ≠ .posOnly ∧ p.kind ≠ .posOrKw) →
    defOkO sd (l.map (·.default)) = true → defOk sd (l ++ rest) = true := by
  intro l
  induction l with
  | nil => intro rest sd _ hr _; simpa using defOk_nonpos rest sd hr
  | cons p ps ih =>
    intro rest sd hl hr h
    have hp := hl p (by simp)
    have hps : ∀ q ∈ ps, q.kind = .posOnly ∨ q.kind = .posOrKw := fun q hq => hl q (by simp [hq])
    simp only [List.cons_append, defOk, hp, true_and]
    cases hd : p.default with
    | none =>
      simp only [List.map_cons, hd, defOkO, Bool.and_eq_true, Bool.not_eq_true'] at h
      simp only [h.1, ne_eq, not_true, if_false]
      simpa [h.1] using ih rest sd hps hr (by simpa [h.1] using h.2)
    | some d =>
      simp only [List.map_cons, hd, defOkO] at h
      simp only [reduceCtorEq, false_and, if_false, ne_eq, not_false_eq_true, if_true]
      exact ih rest true hps hr h

theorem defOkO_somes (ds : List Nat) (sd : Bool) : defOkO sd (ds.map some) = true := by
  induction ds generalizing sd with
  | nil => rfl
  | cons d ds ih => simpa [defOkO] using ih true

theorem defOkO_aligned (m : Nat) (ds : List Nat) :
    defOkO false (List.replicate m none ++ ds.map some) = true := by
  induction m with
  | zero => simpa using defOkO_somes ds false
  | succ m ih => simpa [List.replicate_succ, defOkO] using ih

/-- a layout whose positional defaults sit at the end of the positional run -/
def Layout.Aligned (L : Layout) : Prop :=
  ∃ (m : Nat) (ds : List Nat), (L.po ++ L.pa).map (·.2) = List.replicate m none ++ ds.map some

def Layout.names (L : Layout) : List Nat := L.params.map (·.name)

theorem kind_pparam (k : Kind) (l : List (Arg × Option Nat)) :
    ∀ p ∈ l.map (pparam k), p.kind = k := by
  intro p hp
  obtain ⟨x, _, rfl⟩ := List.mem_map.mp hp
  rfl

theorem kind_vparam (k : Kind) (l : List Arg) : ∀ p ∈ l.map (vparam k), p.kind = k := by
  intro p hp
  obtain ⟨x, _, rfl⟩ := List.mem_map.mp hp
  rfl

theorem pw_const (l : List Param) (k : Kind) (h : ∀ p ∈ l, p.kind = k) :
    l.Pairwise (fun p q : Param => p.kind.toNat ≤ q.kind.toNat) :=
  List.pairwise_of_forall_mem_list (fun a ha b hb => by simp [h a ha, h b hb])

theorem pw_append (l1 l2 : List Param) (k : Nat)
    (h1 : l1.Pairwise (fun p q : Param => p.kind.toNat ≤ q.kind.toNat))
    (h2 : l2.Pairwise (fun p q : Param => p.kind.toNat ≤ q.kind.toNat))
    (hk1 : ∀ p ∈ l1, p.kind.toNat ≤ k) (hk2 : ∀ p ∈ l2, k ≤ p.kind.toNat) :
    (l1 ++ l2).Pairwise (fun p q : Param => p.kind.toNat ≤ q.kind.toNat) :=
  List.pairwise_append.mpr ⟨h1, h2, fun a ha b hb => Nat.le_trans (hk1 a ha) (hk2 b hb)⟩

theorem layout_kinds_sorted (L : Layout) :
    L.params.Pairwise (fun p q : Param => p.kind.toNat ≤ q.kind.toNat) := by
  unfold Layout.params
  have hA := kind_pparam .posOnly L.po
  have hB := kind_pparam .posOrKw L.pa
  have hC := kind_vparam .varPos L.va.toList
  have hD := kind_pparam .kwOnly L.kw
  have hE := kind_vparam .varKw L.kk.toList
  apply pw_append _ _ 3 _ (pw_const _ _ hE)
  · intro p hp
    simp only [List.mem_append] at hp
    rcases hp with ((hp | hp) | hp) | hp
    · simp [hA p hp, Kind.toNat]
    · simp [hB p hp, Kind.toNat]
    · simp [hC p hp, Kind.toNat]
    · simp [hD p hp, Kind.toNat]
  · intro p hp; simp [hE p hp, Kind.toNat]
  apply pw_append _ _ 2 _ (pw_const _ _ hD)
  · intro p hp
    simp only [List.mem_append] at hp
    rcases hp with (hp | hp) | hp
    · simp [hA p hp, Kind.toNat]
    · simp [hB p hp, Kind.toNat]
    · simp [hC p hp, Kind.toNat]
  · intro p hp; simp [hD p hp, Kind.toNat]
  apply pw_append _ _ 1 _ (pw_const _ _ hC)
  · intro p hp
    simp only [List.mem_append] at hp
    rcases hp with hp | hp
    · simp [hA p hp, Kind.toNat]
    · simp [hB p hp, Kind.toNat]
  · intro p hp; simp [hC p hp, Kind.toNat]
  apply pw_append _ _ 0 (pw_const _ _ hA) (pw_const _ _ hB)
  · intro p hp; simp [hA p hp, Kind.toNat]
  · intro p hp; simp

theorem layout_defOk (L : Layout) (hal : L.Aligned) : defOk false L.params = true := by
  obtain ⟨m, ds, h⟩ := hal
  unfold Layout.params
  rw [List.append_assoc, List.append_assoc]
  apply defOk_pos
  · intro p hp
    simp only [List.mem_append] at hp
    rcases hp with hp | hp
    · exact Or.inl (kind_pparam _ _ p hp)
    · exact Or.inr (kind_pparam _ _ p hp)
  · intro p hp
    simp only [List.mem_append] at hp
    rcases hp with hp | hp | hp
    · simp [kind_vparam _ _ p hp]
    · simp [kind_pparam _ _ p hp]
    · simp [kind_vparam _ _ p hp]
  · have : (L.po.map (pparam .posOnly) ++ L.pa.map (pparam .posOrKw)).map (·.default)
        = (L.po ++ L.pa).map (·.2) := by
      simp [pparam, Function.comp_def]
    rw [this, h]
    exact defOkO_aligned m ds

/-- `inspect.Signature` accepts the parameters of every aligned layout with distinct names -/
theorem layout_valid (L : Layout) (hal : L.Aligned) (hn : L.names.Nodup) :
    validate L.params = none := by
  unfold validate
  apply validateLoop_ok _ _ _ _ (layout_kinds_sorted L)
  · intro p _; simp [Kind.toNat]
  · simpa [Layout.names] using hn
  · exact layout_defOk L hal


/-! ## `layoutOf` of parser-shaped arguments -/

theorem alignList_eq (n : Nat) (ds : List Nat) (h : ds.length ≤ n) :
    (List.range' 0 n).map (alignAt n ds) = List.replicate (n - ds.length) none ++ ds.map some := by
  apply List.ext_getElem
  · simp; omega
  · intro i h1 h2
    simp only [List.length_map, List.length_range'] at h1
    simp only [List.getElem_map, List.getElem_range', alignAt]
    by_cases hi : i < n - ds.length
    · rw [List.getElem_append_left (by simpa using hi)]
      simp [hi]
    · rw [List.getElem_append_right (by simpa using hi)]
      have hlt : i - (n - ds.length) < ds.length := by omega
      simp [hi, hlt]

theorem layoutOf_positional_defaults (a : Args) :
    ((layoutOf a).po ++ (layoutOf a).pa).map (·.2) =
      (List.range' 0 (a.posonly.length + a.args.length)).map
        (alignAt (a.posonly.length + a.args.length) a.defaults) := by
  unfold layoutOf
  simp only [List.map_append]
  rw [show (fun (x : Arg × Option Nat) => x.2) = Prod.snd from rfl]
  rw [List.map_snd_zip (by simp), List.map_snd_zip (by simp), ← List.map_append]
  congr 1
  have := @List.range'_append_1 0 a.posonly.length a.args.length
  simpa using this

theorem layoutOf_aligned (a : Args) (h : a.defaults.length ≤ a.posonly.length + a.args.length) :
    (layoutOf a).Aligned :=
  ⟨_, a.defaults, by rw [layoutOf_positional_defaults, alignList_eq _ _ h]⟩

theorem layoutOf_names (a : Args) (hk : a.kwDefaults.length = a.kwonly.length) :
    (layoutOf a).names = a.names := by
  unfold Layout.names Layout.params layoutOf Args.names allArgs
  simp only [List.map_append, List.map_map]
  have e1 : ∀ k, (fun p : Param => p.name) ∘ pparam k = (fun x : Arg => x.name) ∘ Prod.fst := by
    intro k; funext x; rfl
  have e2 : ∀ k, (fun p : Param => p.name) ∘ vparam k = (fun x : Arg => x.name) := by
    intro k; funext x; rfl
  simp only [e1, e2, ← List.map_map]
  rw [List.map_fst_zip (by simp), List.map_fst_zip (by simp), List.map_fst_zip (by omega)]


/-! ## `Signature.__str__` layout: where `/` and `*` go -/

def plainItem (xd : Arg × Option Nat) : Item := .plain xd.1 xd.2

/-- the comma-separated items Python's grammar expects for a layout -/
def Layout.items (L : Layout) : List Item :=
  L.po.map plainItem ++ (if L.po.isEmpty then [] else [.slash]) ++ L.pa.map plainItem ++
    (match L.va with
     | some v => [.starArg v]
     | none => if L.kw.isEmpty then [] else [.star]) ++
    L.kw.map plainItem ++
    (match L.kk with | some k => [.dstarArg k] | none => [])

def argTokens (x : Arg) : List Token :=
  .name x.name :: (match x.ann with | some a => [.colon, .ann a] | none => [])

/-- how an item is written -/
def itemTokens : Item → List Token
  | .slash => [.slash]
  | .star => [.star]
  | .starArg x => .star :: argTokens x
  | .dstarArg x => .dstar :: argTokens x
  | .plain x d => argTokens x ++ (match d with | some d => [.eq, .dflt d] | none => [])

theorem paramStr_pparam (k : Kind) (hk1 : k ≠ .varPos) (hk2 : k ≠ .varKw) (xd : Arg × Option Nat) :
    paramStr (pparam k xd) = itemTokens (plainItem xd) := by
  obtain ⟨⟨n, ann⟩, d⟩ := xd
  cases k <;> cases ann <;> cases d <;> simp_all [paramStr, pparam, itemTokens, plainItem, argTokens]

theorem paramStr_varPos (x : Arg) : paramStr (vparam .varPos x) = itemTokens (.starArg x) := by
  obtain ⟨n, ann⟩ := x
  cases ann <;> simp [paramStr, vparam, itemTokens, argTokens]

theorem paramStr_varKw (x : Arg) : paramStr (vparam .varKw x) = itemTokens (.dstarArg x) := by
  obtain ⟨n, ann⟩ := x
  cases ann <;> simp [paramStr, vparam, itemTokens, argTokens]

theorem renderLoop_posOnly (po : List (Arg × Option Nat)) (rest : List Param) :
    ∀ (f1 f2 : Bool), renderLoop (po.map (pparam .posOnly) ++ rest) f1 f2 =
      po.map (fun xd => itemTokens (plainItem xd)) ++ renderLoop rest (f1 || !po.isEmpty) f2 := by
  induction po with
  | nil => intro f1 f2; simp
  | cons x po ih =>
    intro f1 f2
    have hs := paramStr_pparam .posOnly (by decide) (by decide) x
    have hk : (pparam .posOnly x).kind = .posOnly := rfl
    simp [renderLoop, hk, hs, ih]

theorem renderLoop_slash (rest : List Param) (f2 : Bool) (h : ∀ p ∈ rest, p.kind ≠ .posOnly) :
    renderLoop rest true f2 = [.slash] :: renderLoop rest false f2 := by
  cases rest with
  | nil => simp [renderLoop]
  | cons p ps =>
    have hp := h p (by simp)
    simp [renderLoop, hp]

theorem renderLoop_posOrKw (pa : List (Arg × Option Nat)) (rest : List Param) (f2 : Bool) :
    renderLoop (pa.map (pparam .posOrKw) ++ rest) false f2 =
      pa.map (fun xd => itemTokens (plainItem xd)) ++ renderLoop rest false f2 := by
  induction pa with
  | nil => simp
  | cons x pa ih =>
    have hs := paramStr_pparam .posOrKw (by decide) (by decide) x
    have hk : (pparam .posOrKw x).kind = .posOrKw := rfl
    simp [renderLoop, hk, hs, ih]

theorem renderLoop_kwOnly (kw : List (Arg × Option Nat)) (rest : List Param) :
    renderLoop (kw.map (pparam .kwOnly) ++ rest) false false =
      kw.map (fun xd => itemTokens (plainItem xd)) ++ renderLoop rest false false := by
  induction kw with
  | nil => simp
  | cons x kw ih =>
    have hs := paramStr_pparam .kwOnly (by decide) (by decide) x
    have hk : (pparam .kwOnly x).kind = .kwOnly := rfl
    simp [renderLoop, hk, hs, ih]

theorem renderLoop_kwOnly_first (x : Arg × Option Nat) (kw : List (Arg × Option Nat)) (rest : List Param) :
    renderLoop ((x :: kw).map (pparam .kwOnly) ++ rest) false true =
      [.star] :: (x :: kw).map (fun xd => itemTokens (plainItem xd)) ++ renderLoop rest false false := by
  have hs := paramStr_pparam .kwOnly (by decide) (by decide) x
  have hk : (pparam .kwOnly x).kind = .kwOnly := rfl
  simp [renderLoop, hk, hs, renderLoop_kwOnly]

theorem renderLoop_varKw (kk : Option Arg) (f2 : Bool) :
    renderLoop (kk.toList.map (vparam .varKw)) false f2 =
      (match kk with | some k => [itemTokens (.dstarArg k)] | none => []) := by
  cases kk with
  | none => simp [renderLoop]
  | some k => simp [renderLoop, vparam, ← paramStr_varKw]

theorem renderLoop_varPos (v : Arg) (rest : List Param) (f2 : Bool) :
    renderLoop (vparam .varPos v :: rest) false f2 =
      itemTokens (.starArg v) :: renderLoop rest false false := by
  simp [renderLoop, vparam, ← paramStr_varPos]

/-- **`render_layout`**: `Signature.__str__` writes the positional-only parameters, then `/` iff there
are any, the other positional parameters, then `*name` — or a bare `*` iff there is no `*name` but
there are keyword-only parameters —, the keyword-only parameters, and `**name` last. -/
theorem render_layout (L : Layout) :
    renderLoop L.params false true = L.items.map itemTokens := by
  unfold Layout.params Layout.items
  simp only [List.append_assoc, List.map_append, List.map_map, Function.comp_def]
  rw [renderLoop_posOnly]
  have tail : renderLoop (L.pa.map (pparam .posOrKw) ++ (L.va.toList.map (vparam .varPos) ++
        (L.kw.map (pparam .kwOnly) ++ L.kk.toList.map (vparam .varKw)))) false true =
      L.pa.map (fun xd => itemTokens (plainItem xd)) ++
        ((match L.va with
          | some v => [Item.starArg v]
          | none => if L.kw.isEmpty then [] else [.star]).map itemTokens ++
         (L.kw.map (fun xd => itemTokens (plainItem xd)) ++
          (match L.kk with | some k => [Item.dstarArg k] | none => []).map itemTokens)) := by
    rw [renderLoop_posOrKw]
    congr 1
    cases hva : L.va with
    | some v =>
      simp only [Option.toList_some, List.map_cons, List.map_nil, List.cons_append, List.nil_append]
      rw [renderLoop_varPos, renderLoop_kwOnly, renderLoop_varKw]
      cases L.kk <;> simp
    | none =>
      simp only [Option.toList_none, List.map_nil, List.nil_append]
      cases hkw : L.kw with
      | nil =>
        simp only [List.map_nil, List.nil_append, List.isEmpty_nil, if_true]
        rw [renderLoop_varKw]
        cases L.kk <;> simp
      | cons x kw =>
        rw [renderLoop_kwOnly_first, renderLoop_varKw]
        cases L.kk <;> simp [itemTokens]
  cases hpo : L.po with
  | nil =>
    simp only [List.map_nil, List.nil_append, List.isEmpty_nil, Bool.not_true, Bool.or_false, if_true]
    exact tail
  | cons x po =>
    simp only [List.isEmpty_cons, Bool.not_false, Bool.or_true]
    rw [renderLoop_slash, tail]
    · simp [itemTokens]
    · intro p hp
      simp only [List.mem_append] at hp
      rcases hp with hp | hp | hp | hp
      · simp [kind_pparam _ _ p hp]
      · simp [kind_vparam _ _ p hp]
      · simp [kind_pparam _ _ p hp]
      · simp [kind_vparam _ _ p hp]


/-! ## CPython's reading of what `Signature.__str__` wrote -/

theorem parseSeg_itemTokens (it : Item) : parseSeg (itemTokens it) = some it := by
  cases it with
  | slash => rfl
  | star => rfl
  | starArg x => obtain ⟨n, ann⟩ := x; cases ann <;> rfl
  | dstarArg x => obtain ⟨n, ann⟩ := x; cases ann <;> rfl
  | plain x d => obtain ⟨n, ann⟩ := x; cases ann <;> cases d <;> rfl

theorem comma_not_mem_itemTokens (it : Item) : Token.comma ∉ itemTokens it := by
  cases it with
  | slash => simp [itemTokens]
  | star => simp [itemTokens]
  | starArg x => obtain ⟨n, ann⟩ := x; cases ann <;> simp [itemTokens, argTokens]
  | dstarArg x => obtain ⟨n, ann⟩ := x; cases ann <;> simp [itemTokens, argTokens]
  | plain x d => obtain ⟨n, ann⟩ := x; cases ann <;> cases d <;> simp [itemTokens, argTokens]

theorem rparen_not_mem_itemTokens (it : Item) : Token.rparen ∉ itemTokens it := by
  cases it with
  | slash => simp [itemTokens]
  | star => simp [itemTokens]
  | starArg x => obtain ⟨n, ann⟩ := x; cases ann <;> simp [itemTokens, argTokens]
  | dstarArg x => obtain ⟨n, ann⟩ := x; cases ann <;> simp [itemTokens, argTokens]
  | plain x d => obtain ⟨n, ann⟩ := x; cases ann <;> cases d <;> simp [itemTokens, argTokens]

theorem itemTokens_ne_nil (it : Item) : itemTokens it ≠ [] := by
  cases it <;> simp [itemTokens, argTokens]

theorem splitComma_noComma (s : List Token) (h : Token.comma ∉ s) : splitComma s = [s] := by
  induction s with
  | nil => rfl
  | cons t r ih =>
    simp only [List.mem_cons, not_or] at h
    have ht : ¬ t = Token.comma := fun e => h.1 e.symm
    simp [splitComma, ht, ih h.2]

theorem splitComma_append (s rest : List Token) (h : Token.comma ∉ s) :
    splitComma (s ++ Token.comma :: rest) = s :: splitComma rest := by
  induction s with
  | nil => simp [splitComma]
  | cons t r ih =>
    simp only [List.mem_cons, not_or] at h
    have ht : ¬ t = Token.comma := fun e => h.1 e.symm
    simp [splitComma, ht, ih h.2]

theorem splitComma_join (segs : List (List Token)) (hne : segs ≠ [])
    (h : ∀ s ∈ segs, Token.comma ∉ s) : splitComma (joinComma segs) = segs := by
  induction segs with
  | nil => exact absurd rfl hne
  | cons x rest ih =>
    cases rest with
    | nil => simpa [joinComma] using splitComma_noComma x (h x (by simp))
    | cons y rest' =>
      simp only [joinComma]
      rw [splitComma_append _ _ (h x (by simp)), ih (by simp) (fun s hs => h s (by simp [hs]))]

theorem mem_joinComma (t : Token) (segs : List (List Token)) (ht : t ∈ joinComma segs) :
    t = Token.comma ∨ ∃ s ∈ segs, t ∈ s := by
  induction segs with
  | nil => simp [joinComma] at ht
  | cons x rest ih =>
    cases rest with
    | nil => exact Or.inr ⟨x, by simp, by simpa [joinComma] using ht⟩
    | cons y rest' =>
      simp only [joinComma, List.mem_append, List.mem_cons] at ht
      rcases ht with ht | ht | ht
      · exact Or.inr ⟨x, by simp, ht⟩
      · exact Or.inl ht
      · rcases ih ht with h | ⟨s, hs, hts⟩
        · exact Or.inl h
        · exact Or.inr ⟨s, by simp [hs], hts⟩

theorem joinComma_ne_nil (segs : List (List Token)) (hne : segs ≠ []) (h : ∀ s ∈ segs, s ≠ []) :
    joinComma segs ≠ [] := by
  cases segs with
  | nil => exact absurd rfl hne
  | cons x rest =>
    cases rest with
    | nil => simpa [joinComma] using h x (by simp)
    | cons y rest' => simp [joinComma]

theorem untilRparen_append (inner tail : List Token) (h : Token.rparen ∉ inner) :
    untilRparen (inner ++ Token.rparen :: tail) = some (inner, tail) := by
  induction inner with
  | nil => simp [untilRparen]
  | cons t r ih =>
    simp only [List.mem_cons, not_or] at h
    have ht : ¬ t = Token.rparen := fun e => h.1 e.symm
    simp [untilRparen, ht, ih h.2]

theorem parseSegs_items (items : List Item) : parseSegs (items.map itemTokens) = some items := by
  induction items with
  | nil => rfl
  | cons it rest ih => simp [parseSegs, parseSeg_itemTokens, ih]

theorem takePlain_append (l : List (Arg × Option Nat)) (rest : List Item)
    (h : ∀ x d r, rest ≠ Item.plain x d :: r) : takePlain (l.map plainItem ++ rest) = (l, rest) := by
  induction l with
  | nil =>
    cases rest with
    | nil => rfl
    | cons it r =>
      cases it with
      | plain x d => exact absurd rfl (h x d r)
      | _ => rfl
  | cons xd l ih => simp [takePlain, plainItem, ih]

theorem positionalDefaults_aligned (m : Nat) (ds : List Nat) :
    positionalDefaults (List.replicate m none ++ ds.map some) = some ds := by
  unfold positionalDefaults
  have h1 : (List.replicate m (none : Option Nat) ++ ds.map some).dropWhile (fun o => o.isNone)
      = ds.map some := by
    rw [List.dropWhile_append_of_pos (by simp)]
    cases ds <;> simp
  simp only [h1]
  simp

/-- the `ast.arguments` a layout stands for -/
def Layout.toArgs (L : Layout) (defaults : List Nat) (returns : Option AnnE) : Args :=
  { posonly := L.po.map (·.1), args := L.pa.map (·.1), vararg := L.va,
    kwonly := L.kw.map (·.1), kwDefaults := L.kw.map (·.2), kwarg := L.kk,
    defaults := defaults, returns := returns }

/-- the part of the item list after the positional parameters -/
def Layout.starEtc (L : Layout) : List Item :=
  (match L.va with
   | some v => [.starArg v]
   | none => if L.kw.isEmpty then [] else [.star]) ++
  L.kw.map plainItem ++
  (match L.kk with | some k => [.dstarArg k] | none => [])

theorem starEtc_not_plain (L : Layout) : ∀ x d r, L.starEtc ≠ Item.plain x d :: r := by
  intro x d r
  unfold Layout.starEtc
  cases L.va <;> cases hkw : L.kw <;> cases L.kk <;> simp [plainItem]

theorem starEtc_not_slash (L : Layout) : ∀ r, L.starEtc ≠ Item.slash :: r := by
  intro r
  unfold Layout.starEtc
  cases L.va <;> cases hkw : L.kw <;> cases L.kk <;> simp [plainItem]

theorem kk_not_plain (kk : Option Arg) :
    ∀ x d r, (match kk with | some k => [Item.dstarArg k] | none => []) ≠ Item.plain x d :: r := by
  intro x d r; cases kk <;> simp

theorem parseKwds_kk (kk : Option Arg) :
    parseKwds (match kk with | some k => [Item.dstarArg k] | none => []) = some kk := by
  cases kk <;> rfl

theorem parseStarEtc_layout (L : Layout) : parseStarEtc L.starEtc = some (L.va, L.kw, L.kk) := by
  unfold Layout.starEtc
  cases hva : L.va with
  | some v =>
    simp only [List.cons_append, List.nil_append, parseStarEtc]
    rw [takePlain_append _ _ (kk_not_plain L.kk)]
    simp [parseKwds_kk]
  | none =>
    cases hkw : L.kw with
    | nil =>
      simp only [List.isEmpty_nil, if_true, List.map_nil, List.nil_append]
      cases L.kk <;> simp [parseStarEtc, parseKwds]
    | cons x kw =>
      simp only [List.isEmpty_cons, Bool.false_eq_true, if_false, List.cons_append,
        List.nil_append, parseStarEtc]
      rw [takePlain_append _ _ (kk_not_plain L.kk)]
      simp [parseKwds_kk]

theorem splitSlash_noSlash (pos1 : List (Arg × Option Nat)) (r1 : List Item)
    (h : ∀ r, r1 ≠ Item.slash :: r) : splitSlash pos1 r1 = some ([], pos1, r1) := by
  cases r1 with
  | nil => rfl
  | cons it r =>
    cases it with
    | slash => exact absurd rfl (h r)
    | _ => rfl

theorem items_eq (L : Layout) :
    L.items = L.po.map plainItem ++ ((if L.po.isEmpty then [] else [.slash]) ++
      (L.pa.map plainItem ++ L.starEtc)) := by
  unfold Layout.items Layout.starEtc
  simp

theorem parseItems_layout (L : Layout) (m : Nat) (ds : List Nat)
    (h : (L.po ++ L.pa).map (·.2) = List.replicate m none ++ ds.map some) (ret : Option AnnE) :
    parseItems L.items ret = some (L.toArgs ds ret) := by
  have hdef := positionalDefaults_aligned m ds
  rw [← h] at hdef
  simp only [List.map_append] at hdef
  unfold parseItems
  rw [items_eq]
  by_cases hpo : L.po.isEmpty = true
  · have hnil : L.po = [] := List.isEmpty_iff.mp hpo
    simp only [hpo, if_true, List.nil_append]
    simp only [hnil, List.map_nil, List.nil_append] at hdef ⊢
    rw [takePlain_append _ _ (starEtc_not_plain L)]
    simp only [splitSlash_noSlash _ _ (starEtc_not_slash L)]
    simp [hdef, parseStarEtc_layout, Layout.toArgs, hnil]
  · have hne : L.po ≠ [] := fun e => hpo (by simp [e])
    simp only [hpo, Bool.false_eq_true, ↓reduceIte]
    rw [show ([Item.slash] ++ (L.pa.map plainItem ++ L.starEtc))
          = Item.slash :: (L.pa.map plainItem ++ L.starEtc) from rfl]
    rw [takePlain_append L.po _ (by intro _ _ _; simp)]
    simp only [splitSlash, hne, if_false, takePlain_append _ _ (starEtc_not_plain L)]
    simp [hdef, parseStarEtc_layout, Layout.toArgs]

/-- **reading back any aligned layout**: CPython's reading of `Signature.__str__`'s text of the
layout's parameters is the layout's `ast.arguments`, for any return annotation. -/
theorem parseSig_render_layout (L : Layout) (m : Nat) (ds : List Nat)
    (h : (L.po ++ L.pa).map (·.2) = List.replicate m none ++ ds.map some) (ret : Option AnnE) :
    parseSig (render { params := L.params, ret := ret }) = some (L.toArgs ds ret) := by
  unfold render
  simp only [render_layout]
  have hr : Token.rparen ∉ joinComma (L.items.map itemTokens) := by
    intro hm
    rcases mem_joinComma _ _ hm with h | ⟨s, hs, hts⟩
    · cases h
    · obtain ⟨it, _, rfl⟩ := List.mem_map.mp hs
      exact rparen_not_mem_itemTokens it hts
  simp only [List.cons_append, List.nil_append, List.append_assoc, parseSig]
  rw [untilRparen_append _ _ hr]
  simp only
  have hret : parseTail (retTokens ret) = some ret := by cases ret <;> rfl
  simp only [hret]
  by_cases hi : L.items = []
  · simp only [hi, List.map_nil, joinComma, if_true]
    rw [← hi]
    exact parseItems_layout L m ds h ret
  · have hne : L.items.map itemTokens ≠ [] := by simpa using hi
    have hj := joinComma_ne_nil _ hne (by
      intro s hs
      obtain ⟨it, _, rfl⟩ := List.mem_map.mp hs
      exact itemTokens_ne_nil it)
    simp only [hj, if_false]
    rw [splitComma_join _ hne (by
      intro s hs
      obtain ⟨it, _, rfl⟩ := List.mem_map.mp hs
      exact comma_not_mem_itemTokens it)]
    rw [parseSegs_items]
    exact parseItems_layout L m ds h ret


/-! ## The property theorems -/

theorem norm_names (a : Args) : a.norm.names = a.names := by
  unfold Args.names allArgs Args.norm
  cases a.vararg <;> cases a.kwarg <;> simp [Arg.norm, List.map_map, Function.comp_def]

theorem toArgs_layoutOf (a : Args) (hk : a.kwDefaults.length = a.kwonly.length) :
    (layoutOf a).toArgs a.defaults a.returns = a := by
  unfold Layout.toArgs layoutOf
  simp only
  rw [show (fun (x : Arg × Option Nat) => x.1) = Prod.fst from rfl,
      show (fun (x : Arg × Option Nat) => x.2) = Prod.snd from rfl]
  rw [List.map_fst_zip (by simp), List.map_fst_zip (by simp), List.map_fst_zip (by omega),
      List.map_snd_zip (by omega)]

/-- what `_handleFunctionDef` ends up with for a well-formed definition: no warning, Python's own
reading of the arguments, `-> None` dropped. -/
theorem signatureOf_wf (a : Args) (hwf : a.WF = true) :
    signatureOf a = .ok ({ params := specParams a.norm, ret := normReturns a.returns }, false) := by
  have hb := build_eq_spec a hwf
  simp only [Args.WF, Args.parserWF, Bool.and_eq_true, decide_eq_true_eq, nodupB_iff] at hwf
  obtain ⟨⟨hd, hk⟩, hn⟩ := hwf
  have hval : validate (specParams a.norm) = none := by
    rw [specParams_layout]
    apply layout_valid
    · apply layoutOf_aligned
      simpa [Args.norm] using hd
    · rw [layoutOf_names _ (by simpa [Args.norm] using hk), norm_names]
      exact hn
  unfold signatureOf
  rw [hb]
  simp only [hval, returnAnnotation_eq a hn]

/-- **`Signature.valid_always`**: for every definition Python accepts, the list handed to
`inspect.Signature` passes its validation; the `except ValueError` branch is dead. -/
theorem valid_always (a : Args) (hwf : a.WF = true) :
    ∃ ps, buildParams a = .ok ps ∧ valid ps = true ∧
      signatureOf a = .ok ({ params := ps, ret := normReturns a.returns }, false) := by
  refine ⟨specParams a.norm, build_eq_spec a hwf, ?_, signatureOf_wf a hwf⟩
  have h := signatureOf_wf a hwf
  unfold signatureOf at h
  rw [build_eq_spec a hwf] at h
  simp only at h
  unfold valid
  cases hv : validate (specParams a.norm) with
  | none => rfl
  | some e => simp [hv] at h

/-- **`Signature.roundtrip_args`**: for every definition Python accepts, CPython's reading of the
displayed signature is the source's `ast.arguments` and `returns` — same parameters, order, kinds
(so the same `/`, `*`, `*args`, `**kw`), the same `defaults` / `kw_defaults` position by position and
atom by atom, the same annotations — up to the two spellings the property allows (string
annotations unquoted, `-> None` omitted: `Args.norm`). -/
theorem roundtrip_args (a : Args) (hwf : a.WF = true) :
    ∃ s, signatureOf a = .ok (s, false) ∧ parseSig (render s) = some a.norm := by
  refine ⟨_, signatureOf_wf a hwf, ?_⟩
  simp only [Args.WF, Args.parserWF, Bool.and_eq_true, decide_eq_true_eq, nodupB_iff] at hwf
  obtain ⟨⟨hd, hk⟩, _⟩ := hwf
  have hd' : a.norm.defaults.length ≤ a.norm.posonly.length + a.norm.args.length := by
    simpa [Args.norm] using hd
  have hk' : a.norm.kwDefaults.length = a.norm.kwonly.length := by simpa [Args.norm] using hk
  have hal : ((layoutOf a.norm).po ++ (layoutOf a.norm).pa).map (·.2) =
      List.replicate (a.norm.posonly.length + a.norm.args.length - a.norm.defaults.length) none
        ++ a.norm.defaults.map some := by
    rw [layoutOf_positional_defaults, alignList_eq _ _ hd']
  rw [specParams_layout, parseSig_render_layout _ _ _ hal]
  have := toArgs_layoutOf a.norm hk'
  simpa [Args.norm] using this

/-- **`Signature.roundtrip`** (parameter-list form): reading the displayed signature back gives the
parameters the source declares — names, order, kinds, default presence and identity, annotation
identity, position by position. -/
theorem roundtrip (a : Args) (hwf : a.WF = true) :
    ∃ s, signatureOf a = .ok (s, false) ∧
      parse (render s) = some (specParams a.norm, normReturns a.returns) := by
  obtain ⟨s, h1, h2⟩ := roundtrip_args a hwf
  exact ⟨s, h1, by simp [parse, h2, Args.norm]⟩

theorem specParams_positional (a : Args) (i : Nat) (hi : i < a.posonly.length + a.args.length) :
    ((specParams a)[i]?).map (·.default)
      = some (alignAt (a.posonly.length + a.args.length) a.defaults i) := by
  have hdefs := layoutOf_positional_defaults a
  rw [specParams_layout]
  unfold Layout.params
  have hpos : ((layoutOf a).po.map (pparam .posOnly) ++ (layoutOf a).pa.map (pparam .posOrKw)).map (·.default)
      = ((layoutOf a).po ++ (layoutOf a).pa).map (·.2) := by
    simp [pparam, Function.comp_def]
  have hlen : ((layoutOf a).po.map (pparam .posOnly) ++ (layoutOf a).pa.map (pparam .posOrKw)).length
      = a.posonly.length + a.args.length := by
    simp [layoutOf]
  rw [List.append_assoc, List.append_assoc, List.getElem?_append_left (by omega), ← List.getElem?_map,
      hpos, hdefs]
  simp [hi]

/-- **`Signature.default_alignment`** (Python's rule): the `i`-th positional parameter has a default
iff `i ≥ npos − |defaults|`, and then it is `defaults[i − (npos − |defaults|)]`. -/
theorem default_alignment (a : Args) (hwf : a.WF = true) (i : Nat)
    (hi : i < a.posonly.length + a.args.length) :
    ∃ ps p, buildParams a = .ok ps ∧ ps[i]? = some p ∧
      (i < a.posonly.length + a.args.length - a.defaults.length → p.default = none) ∧
      (¬ i < a.posonly.length + a.args.length - a.defaults.length →
        ∃ hlt : i - (a.posonly.length + a.args.length - a.defaults.length) < a.defaults.length,
          p.default = some (a.defaults[i - (a.posonly.length + a.args.length - a.defaults.length)]'hlt)) := by
  have hb := build_eq_spec a hwf
  simp only [Args.WF, Args.parserWF, Bool.and_eq_true, decide_eq_true_eq, nodupB_iff] at hwf
  obtain ⟨⟨hd, _⟩, _⟩ := hwf
  have hsp := specParams_positional a.norm i (by simpa [Args.norm] using hi)
  have hn : a.norm.posonly.length + a.norm.args.length = a.posonly.length + a.args.length := by
    simp [Args.norm]
  have hds : a.norm.defaults = a.defaults := rfl
  rw [hn, hds] at hsp
  cases hp : (specParams a.norm)[i]? with
  | none => simp [hp] at hsp
  | some p =>
    simp only [hp, Option.map_some, Option.some.injEq] at hsp
    refine ⟨_, p, hb, hp, ?_, ?_⟩
    · intro hlt
      rw [hsp]; simp [alignAt, hlt]
    · intro hge
      have hlt : i - (a.posonly.length + a.args.length - a.defaults.length) < a.defaults.length := by
        omega
      exact ⟨hlt, by rw [hsp]; simp [alignAt, hge, hlt]⟩

/-! ## names, kinds and defaults do not depend on the names being distinct -/

/-- a parameter without its annotation -/
def Param.shape (p : Param) : Nat × Kind × Option Nat := (p.name, p.kind, p.default)

theorem addPositional_shape (d : List (Key × Option AnnE)) (numPos : Nat) (defaults : List Nat)
    (hd : defaults.length ≤ numPos) (kind : Kind) :
    ∀ (xs : List Arg) (i0 : Nat) (acc : List Param), i0 + xs.length ≤ numPos →
      ∃ ps, addPositional d numPos defaults kind xs i0 acc = .ok ps ∧
        ps.map Param.shape = acc.map Param.shape ++
          ((xs.zip ((List.range' i0 xs.length).map (alignAt numPos defaults))).map (pparam kind)).map Param.shape := by
  intro xs
  induction xs with
  | nil => intro i0 acc _; exact ⟨acc, by simp [addPositional]⟩
  | cons x xs ih =>
    intro i0 acc hlen
    simp only [List.length_cons] at hlen
    simp only [addPositional, getDefault_eq numPos defaults i0 (by omega) hd]
    obtain ⟨ps, h1, h2⟩ := ih (i0 + 1) (acc ++ [mkParam d x.name kind (alignAt numPos defaults i0)]) (by omega)
    refine ⟨ps, h1, ?_⟩
    rw [h2]
    simp [List.range'_succ, mkParam, pparam, Param.shape]

theorem addKwonly_shape (d : List (Key × Option AnnE)) :
    ∀ (xs : List Arg) (ds : List (Option Nat)) (acc : List Param),
      (addKwonly d xs ds acc).map Param.shape =
        acc.map Param.shape ++ ((xs.zip ds).map (pparam .kwOnly)).map Param.shape := by
  intro xs
  induction xs with
  | nil => intro ds acc; simp [addKwonly]
  | cons x xs ih =>
    intro ds acc
    cases ds with
    | nil => simp [addKwonly]
    | cons dv ds =>
      simp only [addKwonly]
      rw [ih]
      simp [mkParam, pparam, Param.shape]

/-- **`Signature.build_shape`**: on anything the parser produces — duplicate names included — the
names, kinds and defaults of the list handed to `inspect.Signature` are Python's reading of the
arguments (only the annotation lookup goes through the name-keyed dict). -/
theorem build_shape (a : Args) (hp : a.parserWF = true) :
    ∃ ps, buildParams a = .ok ps ∧ ps.map Param.shape = (specParams a).map Param.shape := by
  simp only [Args.parserWF, decide_eq_true_eq] at hp
  obtain ⟨hd, hk⟩ := hp
  rw [specParams_layout]
  unfold buildParams
  simp only
  obtain ⟨p1, h1, s1⟩ := addPositional_shape (annotationsFromFunction a) _ _ hd .posOnly a.posonly 0 [] (by omega)
  rw [h1]
  simp only
  obtain ⟨p2, h2, s2⟩ := addPositional_shape (annotationsFromFunction a) _ _ hd .posOrKw a.args a.posonly.length p1 (by omega)
  rw [h2]
  simp only [hk, if_true]
  refine ⟨_, rfl, ?_⟩
  unfold Layout.params layoutOf
  cases a.vararg <;> cases a.kwarg <;>
    simp [addKwonly_shape, s1, s2, mkParam, vparam, Param.shape]

/-- **`Signature.default_alignment_parser`**: Python's default rule, without the distinct-names
hypothesis: for parser-shaped arguments the `i`-th positional parameter of the built list has the
default `alignAt npos defaults i`. -/
theorem default_alignment_parser (a : Args) (hp : a.parserWF = true) (i : Nat)
    (hi : i < a.posonly.length + a.args.length) :
    ∃ ps p, buildParams a = .ok ps ∧ ps[i]? = some p ∧
      p.default = alignAt (a.posonly.length + a.args.length) a.defaults i := by
  obtain ⟨ps, hb, hs⟩ := build_shape a hp
  have hsp := specParams_positional a i hi
  have hi' : ((specParams a).map Param.shape)[i]? = (ps.map Param.shape)[i]? := by rw [hs]
  simp only [List.getElem?_map] at hi'
  cases hq : (specParams a)[i]? with
  | none => simp [hq] at hsp
  | some q =>
    simp only [hq, Option.map_some, Option.some.injEq] at hsp
    cases hpi : ps[i]? with
    | none => simp [hq, hpi] at hi'
    | some p =>
      simp only [hq, hpi, Option.map_some, Option.some.injEq, Param.shape, Prod.mk.injEq] at hi'
      exact ⟨ps, p, hb, hpi, by rw [← hi'.2.2, hsp]⟩


/-! ### the ValueError branch: exactly the duplicate names -/

theorem addPositional_names (d : List (Key × Option AnnE)) (numPos : Nat) (defaults : List Nat) (kind : Kind) :
    ∀ (xs : List Arg) (i0 : Nat) (acc ps : List Param),
      addPositional d numPos defaults kind xs i0 acc = .ok ps →
      ps.map (·.name) = acc.map (·.name) ++ xs.map (·.name) := by
  intro xs
  induction xs with
  | nil => intro i0 acc ps h; simp only [addPositional, Res.ok.injEq] at h; simp [h]
  | cons x xs ih =>
    intro i0 acc ps h
    simp only [addPositional] at h
    cases hg : getDefault numPos defaults i0 with
    | error e => simp [hg] at h
    | ok dv =>
      simp only [hg] at h
      rw [ih _ _ _ h]
      simp [mkParam]

theorem addKwonly_names (d : List (Key × Option AnnE)) :
    ∀ (xs : List Arg) (ds : List (Option Nat)) (acc : List Param), xs.length = ds.length →
      (addKwonly d xs ds acc).map (·.name) = acc.map (·.name) ++ xs.map (·.name) := by
  intro xs
  induction xs with
  | nil => intro ds acc _; cases ds <;> simp [addKwonly]
  | cons x xs ih =>
    intro ds acc hl
    cases ds with
    | nil => simp at hl
    | cons dv ds =>
      simp only [addKwonly]
      rw [ih ds _ (by simpa using hl)]
      simp [mkParam]

theorem buildParams_names (a : Args) (ps : List Param) (hb : buildParams a = .ok ps) :
    ps.map (·.name) = a.names := by
  have h := hb
  unfold buildParams at h
  simp only at h
  cases h1 : addPositional (annotationsFromFunction a) (a.posonly.length + a.args.length) a.defaults
      .posOnly a.posonly 0 [] with
  | error e => simp [h1] at h
  | ok p1 =>
    simp only [h1] at h
    cases h2 : addPositional (annotationsFromFunction a) (a.posonly.length + a.args.length) a.defaults
        .posOrKw a.args a.posonly.length p1 with
    | error e => simp [h2] at h
    | ok p2 =>
      simp only [h2] at h
      have n1 := addPositional_names _ _ _ _ _ _ _ _ h1
      have n2 := addPositional_names _ _ _ _ _ _ _ _ h2
      by_cases hk : a.kwonly.length = a.kwDefaults.length
      · simp only [hk, if_true, Res.ok.injEq] at h
        subst h
        unfold Args.names allArgs
        cases a.vararg <;> cases a.kwarg <;>
          simp [addKwonly_names _ _ _ _ hk, n1, n2, mkParam]
      · simp [hk] at h

/-- **`Signature.valid_iff_nodup`**: on anything CPython's *parser* produces, `inspect.Signature`
rejects pydoctor's parameter list exactly when two parameters share a name — which `ast.parse`
lets through and the compiler rejects ("duplicate argument"). -/
theorem valid_iff_nodup (a : Args) (hp : a.parserWF = true) (ps : List Param)
    (h : buildParams a = .ok ps) : valid ps = true ↔ a.names.Nodup := by
  constructor
  · intro hv
    unfold valid validate at hv
    have hnone : validateLoop ps .posOnly false [] = none := by
      cases hh : validateLoop ps .posOnly false [] with
      | none => rfl
      | some e => simp [hh] at hv
    have := validateLoop_nodup ps _ _ [] (by simp) hnone
    rw [← buildParams_names a ps h]
    simpa using this
  · intro hn
    have hwf : a.WF = true := by
      simp only [Args.WF, Bool.and_eq_true, nodupB_iff]
      exact ⟨hp, hn⟩
    obtain ⟨ps', h1, h2, _⟩ := valid_always a hwf
    rw [h] at h1
    cases h1
    exact h2

/-- FULL-STRENGTH statement without the distinct-names hypothesis (false, kept visible):
  `∀ a, a.parserWF → ∃ s, signatureOf a = .ok (s, false) ∧ parseSig (render s) = some a.norm`.
`def f(a, a): pass` passes `ast.parse`; `inspect.Signature` raises ValueError, pydoctor reports
"has invalid parameters" and shows `()`. Python itself rejects that `def` at compile time, so it is
not a function definition in the property's sense. -/
theorem duplicate_counterexample :
    let a : Args := { posonly := [], args := [⟨0, none⟩, ⟨0, none⟩], vararg := none, kwonly := [],
                      kwDefaults := [], kwarg := none, defaults := [], returns := none }
    a.parserWF = true ∧ signatureOf a = .ok ({ params := [], ret := none }, true) ∧
      parseSig (render { params := [], ret := none }) ≠ some a.norm := by
  decide


/-! ## Overloads: each record keeps, and the page shows, its own signature -/

theorem dictGet_dictSet_eq {V : Type} (d : List (Key × V)) (k : Key) (v : V) :
    dictGet (dictSet d k v) k = some v := by
  induction d with
  | nil => simp [dictSet, dictGet]
  | cons kv rest ih =>
    obtain ⟨k', v'⟩ := kv
    by_cases h : k' = k
    · simp [dictSet, dictGet, h]
    · simp [dictSet, dictGet, h, ih]

theorem dictGet_dictSet_ne {V : Type} (d : List (Key × V)) (k k' : Key) (v : V) (hne : k' ≠ k) :
    dictGet (dictSet d k' v) k = dictGet d k := by
  induction d with
  | nil => simp [dictSet, dictGet, hne]
  | cons kv rest ih =>
    obtain ⟨k'', v''⟩ := kv
    by_cases h : k'' = k'
    · subst h; simp [dictSet, dictGet, hne]
    · by_cases h2 : k'' = k
      · subst h2; simp [dictSet, dictGet, h]
      · simp [dictSet, dictGet, h, h2, ih]

/-- the signature `_handleFunctionDef` computes for a definition (total form) -/
def sigD (a : Args) : Sig :=
  match signatureOf a with
  | .ok (s, _) => s
  | .error _ => { params := [], ret := none }

theorem signatureOf_total (a : Args) (h : a.parserWF = true) :
    ∃ b, signatureOf a = .ok (sigD a, b) := by
  obtain ⟨ps, hps⟩ := build_total a h
  cases hv : validate ps with
  | none => exact ⟨false, by simp [sigD, signatureOf, hps, hv]⟩
  | some e => exact ⟨true, by simp [sigD, signatureOf, hps, hv]⟩

/-- a `def` with another name leaves the entry alone -/
theorem stepDef_frame (c : Contents) (df : Def) (n : Nat) (hne : df.name ≠ n)
    (hwf : df.args.parserWF = true) :
    ∃ c', stepDef c df = .ok c' ∧ dictGet c' (.name n) = dictGet c (.name n) := by
  obtain ⟨b, hs⟩ := signatureOf_total df.args hwf
  have hk : Key.name df.name ≠ Key.name n := fun e => hne (by injection e)
  unfold stepDef
  simp only [hs]
  cases skipOf (reuseOf c df.name) df.isOverload with
  | true => exact ⟨c, by simp, rfl⟩
  | false =>
    simp only [Bool.false_eq_true, if_false]
    exact ⟨_, rfl, dictGet_dictSet_ne _ _ _ _ hk⟩

theorem runDefs_frame (n : Nat) : ∀ (ds : List Def) (c : Contents),
    (∀ d ∈ ds, d.name ≠ n) → (∀ d ∈ ds, d.args.parserWF = true) →
    ∃ c', runDefs c ds = .ok c' ∧ dictGet c' (.name n) = dictGet c (.name n) := by
  intro ds
  induction ds with
  | nil => intro c _ _; exact ⟨c, rfl, rfl⟩
  | cons d ds ih =>
    intro c hne hwf
    obtain ⟨c1, h1, g1⟩ := stepDef_frame c d n (hne d (by simp)) (hwf d (by simp))
    obtain ⟨c2, h2, g2⟩ := ih c1 (fun x hx => hne x (by simp [hx])) (fun x hx => hwf x (by simp [hx]))
    exact ⟨c2, by simp [runDefs, h1, h2], by rw [g2, g1]⟩

/-- the entry for `n` while a group of overloads is being collected: nothing collected yet and the
name not bound to an overloaded function, or exactly the records collected so far and no primary. -/
def Collecting (c : Contents) (n : Nat) (acc : List Sig) : Prop :=
  (acc = [] ∧ ∀ f, dictGet c (.name n) = some f → f.overloads = []) ∨
  (acc ≠ [] ∧ dictGet c (.name n) = some { signature := none, overloads := acc })

theorem reuseOf_collecting (c : Contents) (n : Nat) (acc : List Sig) (hc : Collecting c n acc) :
    reuseOf c n = if acc = [] then none else some { signature := none, overloads := acc } := by
  unfold reuseOf
  rcases hc with ⟨rfl, hfresh⟩ | ⟨hne, hget⟩
  · cases hg : dictGet c (.name n) with
    | none => simp
    | some f => simp [hfresh f hg]
  · simp [hget, hne]

theorem stepDef_overload (c : Contents) (n : Nat) (acc : List Sig) (a : Args)
    (hc : Collecting c n acc) (hwf : a.parserWF = true) :
    ∃ c', stepDef c { name := n, isOverload := true, args := a } = .ok c' ∧
      Collecting c' n (acc ++ [sigD a]) := by
  obtain ⟨b, hs⟩ := signatureOf_total a hwf
  unfold stepDef
  simp only [hs, reuseOf_collecting c n acc hc]
  by_cases hacc : acc = []
  · subst hacc
    simp only [if_true, skipOf, Bool.false_eq_true, if_false]
    exact ⟨_, rfl, Or.inr ⟨by simp, by simp [dictGet_dictSet_eq]⟩⟩
  · simp only [hacc, if_false, skipOf, Option.isSome_none, Bool.false_and, Bool.false_eq_true, if_true]
    exact ⟨_, rfl, Or.inr ⟨by simp, by simp [dictGet_dictSet_eq]⟩⟩

theorem stepDef_primary (c : Contents) (n : Nat) (acc : List Sig) (a : Args)
    (hc : Collecting c n acc) (hwf : a.parserWF = true) :
    ∃ c', stepDef c { name := n, isOverload := false, args := a } = .ok c' ∧
      dictGet c' (.name n) = some { signature := some (sigD a), overloads := acc } := by
  obtain ⟨b, hs⟩ := signatureOf_total a hwf
  unfold stepDef
  simp only [hs, reuseOf_collecting c n acc hc]
  by_cases hacc : acc = []
  · subst hacc
    simp only [if_true, skipOf, Bool.false_eq_true, if_false]
    exact ⟨_, rfl, by simp [dictGet_dictSet_eq]⟩
  · simp only [hacc, if_false, skipOf, Bool.and_false, Bool.false_eq_true]
    exact ⟨_, rfl, by simp [dictGet_dictSet_eq]⟩

theorem runDefs_group (n : Nat) (impl : Args) : ∀ (ds : List Def) (c : Contents) (acc : List Sig)
    (ovs : List Args),
    Collecting c n acc →
    ds.filter (fun d => d.name = n) =
      ovs.map (fun a => { name := n, isOverload := true, args := a }) ++
        [{ name := n, isOverload := false, args := impl }] →
    (∀ d ∈ ds, d.args.parserWF = true) →
    ∃ c', runDefs c ds = .ok c' ∧
      dictGet c' (.name n) = some { signature := some (sigD impl), overloads := acc ++ ovs.map sigD } := by
  intro ds
  induction ds with
  | nil => intro c acc ovs _ hf _; simp at hf
  | cons d ds ih =>
    intro c acc ovs hc hf hwf
    have hwf' : ∀ x ∈ ds, x.args.parserWF = true := fun x hx => hwf x (by simp [hx])
    by_cases hn : d.name = n
    · simp only [List.filter_cons, hn, decide_true, if_true] at hf
      cases ovs with
      | nil =>
        simp only [List.map_nil, List.nil_append, List.cons.injEq] at hf
        obtain ⟨hd, hrest⟩ := hf
        subst hd
        obtain ⟨c1, h1, g1⟩ := stepDef_primary c n acc impl hc (hwf ⟨n, false, impl⟩ (by simp))
        have hnone : ∀ x ∈ ds, x.name ≠ n := by
          intro x hx e
          have : x ∈ ds.filter (fun d => d.name = n) := List.mem_filter.mpr ⟨hx, by simp [e]⟩
          rw [hrest] at this
          simp at this
        obtain ⟨c2, h2, g2⟩ := runDefs_frame n ds c1 hnone hwf'
        exact ⟨c2, by simp [runDefs, h1, h2], by rw [g2, g1]; simp⟩
      | cons a ovs' =>
        simp only [List.map_cons, List.cons_append, List.cons.injEq] at hf
        obtain ⟨hd, hrest⟩ := hf
        subst hd
        obtain ⟨c1, h1, hc1⟩ := stepDef_overload c n acc a hc (hwf ⟨n, true, a⟩ (by simp))
        obtain ⟨c2, h2, g2⟩ := ih c1 (acc ++ [sigD a]) ovs' hc1 hrest hwf'
        exact ⟨c2, by simp [runDefs, h1, h2], by rw [g2]; simp⟩
    · have hf' : ds.filter (fun d => d.name = n) =
          ovs.map (fun a => { name := n, isOverload := true, args := a }) ++
            [{ name := n, isOverload := false, args := impl }] := by
        simpa [List.filter_cons, hn] using hf
      obtain ⟨c1, h1, g1⟩ := stepDef_frame c d n hn (hwf d (by simp))
      have hc1 : Collecting c1 n acc := by
        unfold Collecting at *
        rw [g1]
        exact hc
      obtain ⟨c2, h2, g2⟩ := ih c1 acc ovs hc1 hf' hwf'
      exact ⟨c2, by simp [runDefs, h1, h2], g2⟩

/-- **`Signature.overloads_own`**: in any sequence of `def`s in one scope whose definitions named `n`
are `@overload` × k followed by the implementation (other functions may be interleaved, `n` not
already an overloaded function), the `k` overload records are, in order, the signatures of their own
`def`s, and the primary signature is the implementation's. -/
theorem overloads_own (n : Nat) (ds : List Def) (c : Contents) (ovs : List Args) (impl : Args)
    (hfresh : ∀ f, dictGet c (.name n) = some f → f.overloads = [])
    (hf : ds.filter (fun d => d.name = n) =
      ovs.map (fun a => { name := n, isOverload := true, args := a }) ++
        [{ name := n, isOverload := false, args := impl }])
    (hwf : ∀ d ∈ ds, d.args.parserWF = true) :
    ∃ c', runDefs c ds = .ok c' ∧
      dictGet c' (.name n) = some { signature := some (sigD impl), overloads := ovs.map sigD } := by
  have := runDefs_group n impl ds c [] ovs (Or.inl ⟨rfl, hfresh⟩) hf hwf
  simpa using this

/-- **`Signature.overloads_displayed`**: the page shows, for an overloaded function, one signature
per overload (not the implementation's), and each one reads back as *its own* `def`'s arguments. -/
theorem overloads_displayed (impl : Args) (ovs : List Args) (hne : ovs ≠ [])
    (hwf : ∀ a ∈ ovs, a.WF = true) :
    let f : Func := { signature := some (sigD impl), overloads := ovs.map sigD }
    displayed f = ovs.map (fun a => render (sigD a)) ∧
      (displayed f).map parseSig = ovs.map (fun a => some a.norm) := by
  have h1 : displayed { signature := some (sigD impl), overloads := ovs.map sigD }
      = ovs.map (fun a => render (sigD a)) := by
    unfold displayed
    have : ovs.map sigD ≠ [] := by simpa using hne
    simp [this, formatSignature, Function.comp_def]
  refine ⟨h1, ?_⟩
  rw [h1, List.map_map]
  apply List.map_congr_left
  intro a ha
  obtain ⟨s, hs, hp⟩ := roundtrip_args a (hwf a ha)
  have : sigD a = s := by unfold sigD; rw [hs]
  simp [this, hp]


/-! ## `astutils.unstring_annotation` (`_AnnotationStringParser`) -/

/-- erase every level of string quoting, everywhere (also inside `Literal[...]`): what is left is
the expression's shape without regard to what was written as a forward reference -/
def AnnE.strip : AnnE → AnnE
  | .str e => e.strip
  | .attr v n => .attr v.strip n
  | .sub v s => .sub v.strip s.strip
  | .tup a b => .tup a.strip b.strip
  | .bor a b => .bor a.strip b.strip
  | .atom a => .atom a
  | .literalName => .literalName
  | .annotatedName => .annotatedName
  | .aliasRef a t => .aliasRef a t
  | .noneLit => .noneLit
  | .badStr a => .badStr a

/-- no forward reference is left quoted: no string constant remains, except verbatim inside the slice of
something that designates `typing.Literal`, and as metadata (everything but the first argument) of
something that designates `typing.Annotated` -/
def AnnE.noQuotes : AnnE → Bool
  | .str _ => false
  | .badStr _ => false
  | .attr v _ => v.noQuotes
  | .sub v s =>
    v.noQuotes && (v.isTypingName .literal || s.noQuotes ||
      (v.isTypingName .annotated && match s with | .tup a _ => a.noQuotes | _ => false))
  | .tup a b => a.noQuotes && b.noQuotes
  | .bor a b => a.noQuotes && b.noQuotes
  | _ => true

/-- visiting changes nothing and raises nothing -/
def Fixed (r : AnnE) : Prop := r.visit = (some r, r)

/-- what `visit_spec` says of one expression -/
def VisitOk (e : AnnE) : Prop :=
  (e.visit.2).strip = e.strip ∧
  ∀ r, e.visit.1 = some r →
    r.strip = e.strip ∧ r.noQuotes = true ∧ Fixed r ∧ (∀ a b, r = .tup a b → Fixed a)

theorem noQuotes_sub (v s : AnnE) :
    (AnnE.sub v s).noQuotes =
      (v.noQuotes && (v.isTypingName .literal || s.noQuotes ||
        (v.isTypingName .annotated && match s with | .tup a _ => a.noQuotes | _ => false))) := by
  cases s <;> rfl

/-- the "other subscript" branch: the slice is visited -/
def plainSlice (v' vm s : AnnE) : Option AnnE × AnnE :=
  match s.visit with
  | (some s', sm) => (some (.sub v' s'), .sub vm sm)
  | (none, sm) => (none, .sub vm sm)

/-- the `Annotated[T, metadata]` branch: only `T` is visited -/
def annotatedSlice (v' vm a b : AnnE) : Option AnnE × AnnE :=
  match a.visit with
  | (some a', am) => (some (.sub v' (.tup a' b)), .sub vm (.tup am b))
  | (none, am) => (none, .sub vm (.tup am b))

theorem visit_sub_tup (v a b : AnnE) :
    (AnnE.sub v (.tup a b)).visit =
      match v.visit with
      | (none, vm) => (none, .sub vm (.tup a b))
      | (some v', vm) =>
        if v'.isTypingName .literal then (some (.sub v' (.tup a b)), .sub vm (.tup a b))
        else if v'.isTypingName .annotated then annotatedSlice v' vm a b
        else plainSlice v' vm (.tup a b) := by
  simp only [AnnE.visit, annotatedSlice, plainSlice]
  cases v.visit with
  | mk res vm => cases res <;> simp <;> (repeat' split) <;> simp_all

theorem visit_sub_other (v s : AnnE) (hs : ∀ a b, s ≠ .tup a b) :
    (AnnE.sub v s).visit =
      match v.visit with
      | (none, vm) => (none, .sub vm s)
      | (some v', vm) =>
        if v'.isTypingName .literal then (some (.sub v' s), .sub vm s)
        else plainSlice v' vm s := by
  cases s with
  | tup a b => exact absurd rfl (hs a b)
  | _ =>
    simp only [AnnE.visit, plainSlice]
    cases v.visit with
    | mk res vm => cases res <;> simp <;> (repeat' split) <;> simp_all

theorem sub_fixed_literal (v' s : AnnE) (h3 : Fixed v') (hl : v'.isTypingName .literal = true) :
    Fixed (.sub v' s) := by
  unfold Fixed at *
  cases s with
  | tup a b => simp [visit_sub_tup, h3, hl]
  | _ => rw [visit_sub_other _ _ (by intro _ _ h; cases h)]; simp [h3, hl]

theorem sub_fixed_plain (v' s' : AnnE) (h3 : Fixed v') (hl : v'.isTypingName .literal = false)
    (g3 : Fixed s') (g4 : ∀ a b, s' = .tup a b → Fixed a) : Fixed (.sub v' s') := by
  unfold Fixed at *
  cases s' with
  | tup a' b' =>
    by_cases hA : v'.isTypingName .annotated = true
    · have := g4 a' b' rfl
      unfold Fixed at this
      simp [visit_sub_tup, h3, hl, hA, annotatedSlice, this]
    · have hA' : v'.isTypingName .annotated = false := by simpa using hA
      simp [visit_sub_tup, h3, hl, hA', plainSlice, g3]
  | _ => rw [visit_sub_other _ _ (by intro _ _ h; cases h)]; simp [h3, hl, plainSlice, g3]

theorem visitOk_sub_nontup (v s : AnnE) (hs : ∀ a b, s ≠ .tup a b) (hv : VisitOk v) (hsOk : VisitOk s) :
    VisitOk (.sub v s) := by
  obtain ⟨hvm, hvr⟩ := hv
  obtain ⟨hsm, hsr⟩ := hsOk
  unfold VisitOk
  rw [visit_sub_other v s hs]
  cases hvv : v.visit with
  | mk res vm =>
    rw [hvv] at hvm hvr
    simp only at hvm
    cases res with
    | none => simp [AnnE.strip, hvm]
    | some v' =>
      obtain ⟨h1, h2, h3, _⟩ := hvr v' rfl
      by_cases hl : v'.isTypingName .literal = true
      · have hfixL := sub_fixed_literal v' s h3 hl
        simp [hl, AnnE.strip, noQuotes_sub, h1, h2, hvm, hfixL]
      · have hl' : v'.isTypingName .literal = false := by simpa using hl
        simp only [hl', Bool.false_eq_true, if_false, plainSlice]
        cases hss : s.visit with
        | mk sres sm =>
          rw [hss] at hsm hsr
          simp only at hsm
          cases sres with
          | none => simpa [AnnE.strip, hvm] using hsm
          | some s' =>
            obtain ⟨g1, g2, g3, g4⟩ := hsr s' rfl
            refine ⟨by simpa [AnnE.strip, hvm] using hsm, ?_⟩
            intro r hr
            simp only [Option.some.injEq] at hr
            subst hr
            exact ⟨by simpa [AnnE.strip, h1] using g1, by simp [noQuotes_sub, h2, g2],
              sub_fixed_plain v' s' h3 hl' g3 g4, by intro a b h; cases h⟩

theorem visitOk_leaf (e : AnnE) (h : e.visit = (some e, e)) (hq : e.noQuotes = true)
    (ht : ∀ a b, e ≠ .tup a b) : VisitOk e := by
  unfold VisitOk
  rw [h]
  refine ⟨rfl, ?_⟩
  intro r hr
  simp only [Option.some.injEq] at hr
  subst hr
  exact ⟨rfl, hq, h, fun a b hab => absurd hab (ht a b)⟩

theorem visit_spec : (e : AnnE) → VisitOk e
  | .atom a => visitOk_leaf _ rfl rfl (by intro _ _ h; cases h)
  | .literalName => visitOk_leaf _ rfl rfl (by intro _ _ h; cases h)
  | .annotatedName => visitOk_leaf _ rfl rfl (by intro _ _ h; cases h)
  | .aliasRef a t => visitOk_leaf _ rfl rfl (by intro _ _ h; cases h)
  | .noneLit => visitOk_leaf _ rfl rfl (by intro _ _ h; cases h)
  | .badStr a => by simp [VisitOk, AnnE.visit, AnnE.strip]
  | .str e => by
    have ih := visit_spec e
    refine ⟨by simp [AnnE.visit], ?_⟩
    intro r h
    simp only [AnnE.visit] at h
    obtain ⟨h1, h2, h3, h4⟩ := ih.2 r h
    exact ⟨by simp [AnnE.strip, h1], h2, h3, h4⟩
  | .attr v n => by
    obtain ⟨ihm, ihr⟩ := visit_spec v
    unfold VisitOk
    cases hv : v.visit with
    | mk res vm =>
      rw [hv] at ihm ihr
      cases res with
      | none => simp_all [AnnE.visit, AnnE.strip]
      | some v' =>
        obtain ⟨h1, h2, h3, _⟩ := ihr v' rfl
        unfold Fixed at h3
        simp [AnnE.visit, hv, AnnE.strip, AnnE.noQuotes, h1, h2, h3, Fixed]
  | .tup a b => by
    obtain ⟨iham, ihar⟩ := visit_spec a
    obtain ⟨ihbm, ihbr⟩ := visit_spec b
    unfold VisitOk
    cases ha : a.visit with
    | mk ares am =>
      rw [ha] at iham ihar
      simp only at iham
      cases ares with
      | none => simp [AnnE.visit, ha, AnnE.strip, iham]
      | some a' =>
        obtain ⟨h1, h2, h3, _⟩ := ihar a' rfl
        cases hb : b.visit with
        | mk bres bm =>
          rw [hb] at ihbm ihbr
          simp only at ihbm
          cases bres with
          | none => simp [AnnE.visit, ha, hb, AnnE.strip, iham, ihbm]
          | some b' =>
            obtain ⟨g1, g2, g3, _⟩ := ihbr b' rfl
            have h3' := h3
            unfold Fixed at h3 g3
            simp only [AnnE.visit, ha, hb, AnnE.strip, h1, g1, true_and, Option.some.injEq]
            intro r hr
            subst hr
            refine ⟨by simp [AnnE.strip, h1, g1], by simp [AnnE.noQuotes, h2, g2], by simp [Fixed, AnnE.visit, h3, g3], ?_⟩
            intro x y hxy
            cases hxy
            exact h3'
  | .bor a b => by
    obtain ⟨iham, ihar⟩ := visit_spec a
    obtain ⟨ihbm, ihbr⟩ := visit_spec b
    unfold VisitOk
    cases ha : a.visit with
    | mk ares am =>
      rw [ha] at iham ihar
      simp only at iham
      cases ares with
      | none => simp [AnnE.visit, ha, AnnE.strip, iham]
      | some a' =>
        obtain ⟨h1, h2, h3, _⟩ := ihar a' rfl
        cases hb : b.visit with
        | mk bres bm =>
          rw [hb] at ihbm ihbr
          simp only at ihbm
          cases bres with
          | none => simp [AnnE.visit, ha, hb, AnnE.strip, h1, ihbm]
          | some b' =>
            obtain ⟨g1, g2, g3, _⟩ := ihbr b' rfl
            unfold Fixed at h3 g3
            simp [AnnE.visit, ha, hb, AnnE.strip, AnnE.noQuotes, h1, h2, h3, g1, g2, g3, Fixed]
  | .sub v (.tup a b) => by
    obtain ⟨hvm, hvr⟩ := visit_spec v
    obtain ⟨ham, har⟩ := visit_spec a
    obtain ⟨hsm, hsr⟩ := visit_spec (.tup a b)
    unfold VisitOk
    rw [visit_sub_tup]
    cases hvv : v.visit with
    | mk res vm =>
      rw [hvv] at hvm hvr
      simp only at hvm
      cases res with
      | none => simp [AnnE.strip, hvm]
      | some v' =>
        obtain ⟨h1, h2, h3, _⟩ := hvr v' rfl
        by_cases hl : v'.isTypingName .literal = true
        · have hfixL := sub_fixed_literal v' (.tup a b) h3 hl
          simp [hl, AnnE.strip, noQuotes_sub, h1, h2, hvm, hfixL]
        · have hl' : v'.isTypingName .literal = false := by simpa using hl
          by_cases hA : v'.isTypingName .annotated = true
          · simp only [hl', hA, Bool.false_eq_true, if_false, if_true, annotatedSlice]
            cases haa : a.visit with
            | mk ares am =>
              rw [haa] at ham har
              simp only at ham
              cases ares with
              | none => simp [AnnE.strip, hvm, ham]
              | some a' =>
                obtain ⟨g1, g2, g3, _⟩ := har a' rfl
                have hfix : Fixed (.sub v' (.tup a' b)) := by
                  have h3' := h3
                  have g3' := g3
                  unfold Fixed at h3' g3' ⊢
                  simp [visit_sub_tup, h3', hl', hA, annotatedSlice, g3']
                refine ⟨by simp [AnnE.strip, hvm, ham], ?_⟩
                intro r hr
                simp only [Option.some.injEq] at hr
                subst hr
                exact ⟨by simp [AnnE.strip, h1, g1], by simp [noQuotes_sub, h2, hA, g2], hfix,
                  by intro _ _ h; cases h⟩
          · have hA' : v'.isTypingName .annotated = false := by simpa using hA
            simp only [hl', hA', Bool.false_eq_true, if_false, plainSlice]
            cases hss : (AnnE.tup a b).visit with
            | mk sres sm =>
              rw [hss] at hsm hsr
              simp only at hsm
              cases sres with
              | none => simpa [AnnE.strip, hvm] using hsm
              | some s' =>
                obtain ⟨g1, g2, g3, g4⟩ := hsr s' rfl
                refine ⟨by simpa [AnnE.strip, hvm] using hsm, ?_⟩
                intro r hr
                simp only [Option.some.injEq] at hr
                subst hr
                exact ⟨by simpa [AnnE.strip, h1] using g1, by simp [noQuotes_sub, h2, g2],
                  sub_fixed_plain v' s' h3 hl' g3 g4, by intro _ _ h; cases h⟩
  | .sub v (.atom k) => visitOk_sub_nontup _ _ (by intro _ _ h; cases h) (visit_spec v) (visit_spec _)
  | .sub v .literalName => visitOk_sub_nontup _ _ (by intro _ _ h; cases h) (visit_spec v) (visit_spec _)
  | .sub v .annotatedName => visitOk_sub_nontup _ _ (by intro _ _ h; cases h) (visit_spec v) (visit_spec _)
  | .sub v (.aliasRef k t) => visitOk_sub_nontup _ _ (by intro _ _ h; cases h) (visit_spec v) (visit_spec _)
  | .sub v .noneLit => visitOk_sub_nontup _ _ (by intro _ _ h; cases h) (visit_spec v) (visit_spec _)
  | .sub v (.str x) => visitOk_sub_nontup _ _ (by intro _ _ h; cases h) (visit_spec v) (visit_spec _)
  | .sub v (.badStr k) => visitOk_sub_nontup _ _ (by intro _ _ h; cases h) (visit_spec v) (visit_spec _)
  | .sub v (.attr x n) => visitOk_sub_nontup _ _ (by intro _ _ h; cases h) (visit_spec v) (visit_spec _)
  | .sub v (.sub x y) => visitOk_sub_nontup _ _ (by intro _ _ h; cases h) (visit_spec v) (visit_spec _)
  | .sub v (.bor x y) => visitOk_sub_nontup _ _ (by intro _ _ h; cases h) (visit_spec v) (visit_spec _)

/-- **`Signature.unstring_only_quotes`**: whatever `unstring_annotation` returns — the unquoted
expression, or after a `SyntaxError` the original node as the transformer left it — is the source
expression up to string quoting: it never changes a name, an attribute, a subscript structure. -/
theorem unstring_only_quotes (e : AnnE) : e.unstring.strip = e.strip := by
  unfold AnnE.unstring
  have := visit_spec e
  unfold VisitOk at this
  cases h : e.visit with
  | mk res orig =>
    rw [h] at this
    cases res with
    | none => exact this.1
    | some r => exact (this.2 r rfl).1

/-- **`Signature.unstring_result`**: either a string inside is not an expression (`SyntaxError`, a warning
is reported) or the result is free of quotes outside `Literal[...]`. -/
theorem unstring_result (e : AnnE) :
    e.unstringE = none ∨ (e.unstringE = some e.unstring ∧ e.unstring.noQuotes = true) := by
  unfold AnnE.unstring AnnE.unstringE
  have := visit_spec e
  unfold VisitOk at this
  cases h : e.visit with
  | mk res orig =>
    rw [h] at this
    cases res with
    | none => exact Or.inl rfl
    | some r => exact Or.inr ⟨rfl, (this.2 r rfl).2.1⟩

/-- **`Signature.unstring_idempotent`**: a successfully unquoted annotation is a fixed point (and visiting
it modifies nothing). -/
theorem unstring_idempotent (e r : AnnE) (h : e.unstringE = some r) : r.unstring = r ∧ r.visit = (some r, r) := by
  have := ((visit_spec e).2 r h).2.2.1
  unfold Fixed at this
  exact ⟨by simp [AnnE.unstring, this], this⟩

/-- **`Signature.value_strings_kept`**: strings that are VALUES keep their quotes — the whole slice of
anything that designates `typing.Literal` (spelled `Literal`, `x.Literal`, or a name that resolves to it),
and the metadata of anything that designates `typing.Annotated` (only its first argument, the type,
is unquoted) — while the subscripted expression itself is unquoted. -/
theorem value_strings_kept (v v' vm : AnnE) (hv : v.visit = (some v', vm)) :
    (v'.isTypingName .literal = true → ∀ sl, (AnnE.sub v sl).unstring = .sub v' sl) ∧
    (v'.isTypingName .literal = false → v'.isTypingName .annotated = true →
      ∀ a a' am b, a.visit = (some a', am) → (AnnE.sub v (.tup a b)).unstring = .sub v' (.tup a' b)) := by
  constructor
  · intro hl sl
    unfold AnnE.unstring
    cases sl with
    | tup a b => simp [visit_sub_tup, hv, hl]
    | _ => rw [visit_sub_other _ _ (by intro _ _ h; cases h)]; simp [hv, hl]
  · intro hl hA a a' am b ha
    unfold AnnE.unstring
    simp [visit_sub_tup, hv, hl, hA, annotatedSlice, ha]

/-- **`Signature.literal_args_verbatim`**: the arguments of `Literal[...]` stay as written whatever way
`Literal` is reached: the bare name, any `x.Literal` (the prefix itself is unquoted), or a name imported
under another spelling that resolves to it. -/
theorem literal_args_verbatim (v v' vm sl : AnnE) (k : Nat) (hv : v.visit = (some v', vm)) :
    (AnnE.sub .literalName sl).unstring = .sub .literalName sl ∧
    (AnnE.sub (.attr v 0) sl).unstring = .sub (.attr v' 0) sl ∧
    (AnnE.sub (.aliasRef k .literal) sl).unstring = .sub (.aliasRef k .literal) sl := by
  refine ⟨(value_strings_kept .literalName .literalName .literalName rfl).1 rfl sl,
    (value_strings_kept (.attr v 0) (.attr v' 0) (.attr v' 0) (by simp [AnnE.visit, hv])).1 rfl sl,
    (value_strings_kept (.aliasRef k .literal) _ _ rfl).1 (by simp [AnnE.isTypingName]) sl⟩

/-- **`Signature.annotated_metadata_verbatim`**: `Annotated[T, meta]` (bare, `x.Annotated`, aliased): `T`
is unquoted, `meta` stays as written. -/
theorem annotated_metadata_verbatim (a a' am b : AnnE) (k : Nat) (ha : a.visit = (some a', am)) :
    (AnnE.sub .annotatedName (.tup a b)).unstring = .sub .annotatedName (.tup a' b) ∧
    (AnnE.sub (.aliasRef k .annotated) (.tup a b)).unstring = .sub (.aliasRef k .annotated) (.tup a' b) := by
  refine ⟨(value_strings_kept .annotatedName _ _ rfl).2 rfl rfl a a' am b ha,
    (value_strings_kept (.aliasRef k .annotated) _ _ rfl).2 (by simp [AnnE.isTypingName])
      (by simp [AnnE.isTypingName]) a a' am b ha⟩

/-- … and any other subscript has its slice unquoted -/
theorem other_subscript_unquoted (v v' vm sl sl' sm : AnnE) (hv : v.visit = (some v', vm))
    (hl : v'.isTypingName .literal = false) (hA : v'.isTypingName .annotated = false)
    (hs : sl.visit = (some sl', sm)) :
    (AnnE.sub v sl).unstring = .sub v' sl' := by
  unfold AnnE.unstring
  cases sl with
  | tup a b => simp [visit_sub_tup, hv, hl, hA, plainSlice, hs]
  | _ => rw [visit_sub_other _ _ (by intro _ _ h; cases h)]; simp [hv, hl, plainSlice, hs]

/-- HISTORICAL (the code before commit c06a302, `AnnE.visitOld`): a value context was recognised only by the
spelling `Literal` / `x.Literal`, so `Annotated[a1, 'a2']` became `Annotated[a1, a2]` and, with `L` bound by
`from typing import Literal as L`, `L['a1']` became `L[a1]` (finding `annotation:value-string-unquoted`,
fixed). Today both come back as written. -/
theorem value_strings_unquoted_counterexample :
    (AnnE.sub .annotatedName (.tup (.atom 1) (.str (.atom 2)))).unstringOld
      = .sub .annotatedName (.tup (.atom 1) (.atom 2)) ∧
    (AnnE.sub (.aliasRef 51 .literal) (.str (.atom 1))).unstringOld = .sub (.aliasRef 51 .literal) (.atom 1) ∧
    (AnnE.sub .annotatedName (.tup (.atom 1) (.str (.atom 2)))).unstring
      = .sub .annotatedName (.tup (.atom 1) (.str (.atom 2))) ∧
    (AnnE.sub (.aliasRef 51 .literal) (.str (.atom 1))).unstring = .sub (.aliasRef 51 .literal) (.str (.atom 1)) := by
  decide

/-- **`Signature.unstring_failure_in_place`** (what the code does today, not what its docstring says):
after a `SyntaxError` the "original node" that is returned can already be partly unquoted —
`'a1' | 'a1 !'` comes back as `a1 | 'a1 !'` (BinOp children are assigned one by one), while
`('a1', 'a1 !')` comes back untouched (a list of elements is assigned only when all were visited). -/
theorem unstring_failure_in_place :
    (AnnE.bor (.str (.atom 1)) (.badStr 1)).unstring = .bor (.atom 1) (.badStr 1) ∧
    (AnnE.tup (.str (.atom 1)) (.badStr 1)).unstring = .tup (.str (.atom 1)) (.badStr 1) ∧
    (AnnE.sub (.str (.atom 8)) (.badStr 1)).unstring = .sub (.str (.atom 8)) (.badStr 1) := by
  decide

/-- non-vacuity: `t.Literal["a1"]` keeps its string, `List["a1"]`, `"List[a1]"`, `"'a1'"` lose theirs,
`List["a1 !"]` (not an expression) is returned untouched. -/
example :
    (AnnE.sub (.attr (.atom 7) 0) (.str (.atom 1))).unstring = .sub (.attr (.atom 7) 0) (.str (.atom 1)) ∧
    (AnnE.sub (.atom 8) (.str (.atom 1))).unstring = .sub (.atom 8) (.atom 1) ∧
    (AnnE.str (.sub (.atom 8) (.atom 1))).unstring = .sub (.atom 8) (.atom 1) ∧
    (AnnE.str (.str (.atom 1))).unstring = .atom 1 ∧
    (AnnE.sub (.atom 8) (.badStr 1)).unstring = .sub (.atom 8) (.badStr 1) ∧
    (AnnE.sub (.str .literalName) (.str (.atom 1))).unstring = .sub .literalName (.str (.atom 1)) := by
  decide


/-! ## Which `def`s get a signature: the decorator loop -/

/-- the decorator is a dotted name that resolves to `typing.overload` / `typing_extensions.overload` -/
def Deco.isOverloadDeco (d : Deco) : Bool := d.dotted.isSome && d.resolvesToOverload

/-- the decorator's last component ends in `property` / `Property` -/
def Deco.isPropertyDeco (d : Deco) : Bool :=
  match d.dotted with
  | none => false
  | some (first, more) =>
    endsWith ((first :: more).getLastD first) sProperty ||
      endsWith ((first :: more).getLastD first) sPropertyCap

theorem decoStep_overload (pc : Bool) (st : DecoState) (d : Deco) :
    (decoStep pc st d).isOverload = (st.isOverload || d.isOverloadDeco) := by
  unfold decoStep Deco.isOverloadDeco
  cases hd : d.dotted with
  | none => simp
  | some fm =>
    obtain ⟨first, more⟩ := fm
    cases hr : d.resolvesToOverload <;> cases pc <;> simp <;> (repeat' split) <;> simp

theorem decoStep_property (st : DecoState) (d : Deco) :
    (decoStep true st d).isProperty = (st.isProperty || d.isPropertyDeco) := by
  unfold decoStep Deco.isPropertyDeco
  cases hd : d.dotted with
  | none => simp
  | some fm =>
    obtain ⟨first, more⟩ := fm
    dsimp only
    generalize (endsWith ((first :: more).getLastD first) sProperty ||
      endsWith ((first :: more).getLastD first) sPropertyCap) = b
    cases b <;> cases d.resolvesToOverload <;>
      simp only [Bool.false_eq_true, if_false, if_true, Bool.or_false, Bool.or_true] <;>
      (repeat' split) <;> rfl

theorem decoStep_property_module (st : DecoState) (d : Deco) :
    (decoStep false st d).isProperty = st.isProperty ∧ (decoStep false st d).funcName = st.funcName ∧
    (decoStep false st d).isClassmethod = st.isClassmethod ∧
    (decoStep false st d).isStaticmethod = st.isStaticmethod := by
  unfold decoStep
  cases hd : d.dotted with
  | none => simp
  | some fm => obtain ⟨first, more⟩ := fm; cases hr : d.resolvesToOverload <;> simp

theorem fold_overload (pc : Bool) (decos : List Deco) : ∀ (st : DecoState),
    (decos.foldl (decoStep pc) st).isOverload = (st.isOverload || decos.any Deco.isOverloadDeco) := by
  induction decos with
  | nil => intro st; simp
  | cons d ds ih => intro st; simp [ih, decoStep_overload, Bool.or_assoc]

theorem fold_property (decos : List Deco) : ∀ (st : DecoState),
    (decos.foldl (decoStep true) st).isProperty = (st.isProperty || decos.any Deco.isPropertyDeco) := by
  induction decos with
  | nil => intro st; simp
  | cons d ds ih => intro st; simp [ih, decoStep_property, Bool.or_assoc]

theorem fold_module (decos : List Deco) : ∀ (st : DecoState),
    (decos.foldl (decoStep false) st).isProperty = st.isProperty ∧
    (decos.foldl (decoStep false) st).funcName = st.funcName ∧
    (decos.foldl (decoStep false) st).isClassmethod = st.isClassmethod ∧
    (decos.foldl (decoStep false) st).isStaticmethod = st.isStaticmethod := by
  induction decos with
  | nil => intro st; simp
  | cons d ds ih =>
    intro st
    obtain ⟨a, b, c, e⟩ := decoStep_property_module st d
    obtain ⟨a', b', c', e'⟩ := ih (decoStep false st d)
    simp only [List.foldl_cons]
    exact ⟨a'.trans a, b'.trans b, c'.trans c, e'.trans e⟩

/-- **`Signature.overload_by_resolution`**: whether a `def` is recorded as an overload depends only
on whether one of its decorators is a dotted name that *resolves* to `typing.overload` /
`typing_extensions.overload` — not on how it is spelled, not on the other decorators, not on the
kind of parent. -/
theorem overload_by_resolution (parent : ParentKind) (n : List Char) (decos : List Deco)
    (name : List Char) (kind : FuncKind) (o : Bool)
    (h : handleDef parent n decos = .function name kind o) : o = decos.any Deco.isOverloadDeco := by
  unfold handleDef at h
  split at h
  · cases h
  · simp only at h
    split at h
    · cases h
    · simp only [DefOutcome.function.injEq] at h
      rw [← h.2.2, fold_overload]
      simp

/-- **`Signature.property_iff`**: in a class a `def` is turned into a property attribute (and gets no
signature) exactly when some decorator's last name component ends in `property`/`Property`;
otherwise it is a function. Inner functions are skipped; at module level every `def` is a plain
function under its own name. -/
theorem property_iff (n : List Char) (decos : List Deco) :
    (handleDef .cls n decos = .property n ↔ decos.any Deco.isPropertyDeco = true) ∧
    (decos.any Deco.isPropertyDeco = false → ∃ name kind o, handleDef .cls n decos = .function name kind o) := by
  unfold handleDef
  simp only [reduceCtorEq, if_false, fold_property, Bool.false_or, decide_true]
  constructor
  · constructor
    · intro h
      split at h
      · assumption
      · cases h
    · intro h; simp [h]
  · intro h
    simp [h]

theorem module_level_function (n : List Char) (decos : List Deco) :
    handleDef .module n decos = .function n .plain (decos.any Deco.isOverloadDeco) ∧
    handleDef .func n decos = .skippedInner := by
  refine ⟨?_, rfl⟩
  unfold handleDef
  obtain ⟨a, b, c, e⟩ := fold_module decos
    { isProperty := false, isClassmethod := false, isStaticmethod := false, isOverload := false, funcName := n }
  have hm : (ParentKind.module = ParentKind.cls) = False := by simp
  simp only [reduceCtorEq, if_false, decide_false, a, b, c, e, Bool.false_eq_true, fold_overload, Bool.false_or]

/-- non-vacuity: in a class `@functools.cached_property` makes a property, `@p.setter` renames the
function to `p.setter`, `@staticmethod` + `@_ov` (resolving to overload) gives a static overload;
at module level `@property` changes nothing and a non-dotted decorator is ignored. -/
example :
    handleDef .cls ['q'] [⟨some (['f'], [['c','a','c','h','e','d','_'] ++ sProperty]), false⟩] = .property ['q'] ∧
    handleDef .cls ['p'] [⟨some (['p'], [sSetter]), false⟩] = .function (['p'] ++ sDotSetter) .plain false ∧
    handleDef .cls ['g'] [⟨some (sStaticmethod, []), false⟩, ⟨some (['_','o','v'], []), true⟩]
      = .function ['g'] .staticMethod true ∧
    handleDef .module ['g'] [⟨some (sProperty, []), false⟩, ⟨none, true⟩] = .function ['g'] .plain false := by
  decide

/-! ## `format_function_def` / `format_signature`: the name after `def`, the `(...)` fallback -/

theorem endsWith_append (a suf : List Char) : endsWith (a ++ suf) suf = true := by
  simp [endsWith]

theorem endsWith_split (s suf : List Char) (h : endsWith s suf = true) :
    s = s.take (s.length - suf.length) ++ suf := by
  simp only [endsWith, Bool.and_eq_true, decide_eq_true_eq, beq_iff_eq] at h
  have := List.take_append_drop (s.length - suf.length) s
  rw [h.2] at this
  exact this.symm

theorem rindexDot_setter (a : List Char) : rindexDot (a ++ sDotSetter) = some a.length := by
  simp [rindexDot, sDotSetter, sSetter, List.findIdx_cons]

theorem rindexDot_deleter (a : List Char) : rindexDot (a ++ sDotDeleter) = some a.length := by
  simp [rindexDot, sDotDeleter, sDeleter, List.findIdx_cons]

/-- **`Signature.shownName_spec`**: the name written after `def` is the function's name, with the
`.setter` / `.deleter` suffix (given by `_handleFunctionDef` to property accessors) removed; the
`rindex` never raises. -/
theorem shownName_spec (n : List Char) :
    (∀ a, n = a ++ sDotSetter → shownName n = some a) ∧
    (∀ a, n = a ++ sDotDeleter → shownName n = some a) ∧
    (endsWith n sDotSetter = false → endsWith n sDotDeleter = false → shownName n = some n) ∧
    (shownName n).isSome = true := by
  refine ⟨?_, ?_, ?_, ?_⟩
  · intro a h; subst h
    simp [shownName, endsWith_append, rindexDot_setter]
  · intro a h; subst h
    simp [shownName, endsWith_append, rindexDot_deleter]
  · intro h1 h2; simp [shownName, h1, h2]
  · unfold shownName
    by_cases h1 : endsWith n sDotSetter = true
    · have := endsWith_split n _ h1
      rw [this]
      simp [endsWith_append, rindexDot_setter]
    · by_cases h2 : endsWith n sDotDeleter = true
      · have := endsWith_split n _ h2
        rw [this]
        simp [endsWith_append, rindexDot_deleter]
      · simp [h1, h2]

theorem ellipsis_not_mem_paramStr (p : Param) : Token.ellipsis ∉ paramStr p := by
  obtain ⟨n, k, d, a⟩ := p
  cases k <;> cases d <;> cases a <;> simp [paramStr]

theorem ellipsis_not_mem_renderLoop : ∀ (ps : List Param) (f1 f2 : Bool),
    ∀ seg ∈ renderLoop ps f1 f2, Token.ellipsis ∉ seg := by
  intro ps
  induction ps with
  | nil => intro f1 f2 seg h; cases f1 <;> simp [renderLoop] at h; subst h; simp
  | cons p ps ih =>
    intro f1 f2 seg h
    simp only [renderLoop, List.mem_append, List.mem_cons, List.not_mem_nil, or_false] at h
    rcases h with ((h | h) | h) | h
    · split at h
      · simp at h
      · split at h <;> simp at h
        subst h; simp
    · split at h
      · simp at h
      · split at h <;> simp at h
        subst h; simp
    · subst h; exact ellipsis_not_mem_paramStr p
    · exact ih _ _ seg h

theorem ellipsis_not_mem_render (s : Sig) : Token.ellipsis ∉ render s := by
  intro h
  unfold render at h
  simp only [List.cons_append, List.nil_append, List.mem_cons, List.mem_append, reduceCtorEq, false_or,
    List.not_mem_nil, or_false] at h
  rcases h with h | h
  · rcases mem_joinComma _ _ h with h' | ⟨seg, hs, ht⟩
    · cases h'
    · exact ellipsis_not_mem_renderLoop _ _ _ seg hs ht
  · cases hr : s.ret <;> simp [retTokens, hr] at h

/-- every entry made by `_handleFunctionDef` has something to show -/
def Shows (f : Func) : Prop := f.overloads ≠ [] ∨ f.signature.isSome = true

theorem stepDef_cases (c c' : Contents) (df : Def) (h : stepDef c df = .ok c') :
    c' = c ∨ ∃ base : Func,
      (base = { signature := none, overloads := [] } ∨ dictGet c (.name df.name) = some base) ∧
      c' = dictSet c (.name df.name)
        (if df.isOverload then { base with overloads := base.overloads ++ [sigD df.args] }
         else { base with signature := some (sigD df.args) }) := by
  unfold stepDef at h
  simp only at h
  cases hsk : skipOf (reuseOf c df.name) df.isOverload with
  | true => simp only [hsk, if_true, Res.ok.injEq] at h; exact Or.inl h.symm
  | false =>
    simp only [hsk, Bool.false_eq_true, if_false] at h
    cases hs : signatureOf df.args with
    | error e => simp [hs] at h
    | ok sb =>
      obtain ⟨sig, b⟩ := sb
      have hsd : sigD df.args = sig := by simp [sigD, hs]
      simp only [hs, Res.ok.injEq] at h
      right
      cases hr : reuseOf c df.name with
      | none =>
        refine ⟨{ signature := none, overloads := [] }, Or.inl rfl, ?_⟩
        simp only [hr] at h
        rw [← h, hsd]
      | some f =>
        have hg : dictGet c (.name df.name) = some f := by
          unfold reuseOf at hr
          cases hd : dictGet c (.name df.name) with
          | none => simp [hd] at hr
          | some f' =>
            simp only [hd] at hr
            split at hr
            · simp only [Option.some.injEq] at hr; rw [hr]
            · cases hr
        refine ⟨f, Or.inr hg, ?_⟩
        simp only [hr] at h
        rw [← h, hsd]

theorem dictGet_dictSet {V : Type} (d : List (Key × V)) (k k' : Key) (v : V) :
    dictGet (dictSet d k v) k' = if k = k' then some v else dictGet d k' := by
  by_cases h : k = k'
  · subst h; simp [dictGet_dictSet_eq]
  · simp [h, dictGet_dictSet_ne _ _ _ _ h]

/-- what can be said of every entry after any sequence of `def`s `ds` -/
def Sound (ds : List Def) (c : Contents) : Prop :=
  ∀ n f, dictGet c (.name n) = some f →
    (∀ s ∈ f.overloads, ∃ d ∈ ds, d.name = n ∧ d.isOverload = true ∧ s = sigD d.args) ∧
    (∀ s, f.signature = some s → ∃ d ∈ ds, d.name = n ∧ d.isOverload = false ∧ s = sigD d.args) ∧
    Shows f

theorem sound_step (pre : List Def) (c c' : Contents) (df : Def) (hs : Sound pre c)
    (h : stepDef c df = .ok c') : Sound (pre ++ [df]) c' := by
  have mono : ∀ n f, ((∀ s ∈ f.overloads, ∃ d ∈ pre, d.name = n ∧ d.isOverload = true ∧ s = sigD d.args) ∧
      (∀ s, f.signature = some s → ∃ d ∈ pre, d.name = n ∧ d.isOverload = false ∧ s = sigD d.args) ∧ Shows f) →
      ((∀ s ∈ f.overloads, ∃ d ∈ pre ++ [df], d.name = n ∧ d.isOverload = true ∧ s = sigD d.args) ∧
      (∀ s, f.signature = some s → ∃ d ∈ pre ++ [df], d.name = n ∧ d.isOverload = false ∧ s = sigD d.args) ∧ Shows f) := by
    intro n f ⟨h1, h2, h3⟩
    refine ⟨?_, ?_, h3⟩
    · intro s hs'; obtain ⟨d, hd, r⟩ := h1 s hs'; exact ⟨d, by simp [hd], r⟩
    · intro s hs'; obtain ⟨d, hd, r⟩ := h2 s hs'; exact ⟨d, by simp [hd], r⟩
  rcases stepDef_cases c c' df h with rfl | ⟨base, hbase, rfl⟩
  · intro n f hg; exact mono n f (hs n f hg)
  · intro n f hg
    rw [dictGet_dictSet] at hg
    by_cases hn : Key.name df.name = Key.name n
    · have hnn : df.name = n := by injection hn
      simp only [hn, if_true, Option.some.injEq] at hg
      have hb : (∀ s ∈ base.overloads, ∃ d ∈ pre ++ [df], d.name = n ∧ d.isOverload = true ∧ s = sigD d.args) ∧
          (∀ s, base.signature = some s → ∃ d ∈ pre ++ [df], d.name = n ∧ d.isOverload = false ∧ s = sigD d.args) := by
        rcases hbase with rfl | hb
        · exact ⟨by simp, by simp⟩
        · have := mono n base (hs n base (hnn ▸ hb))
          exact ⟨this.1, this.2.1⟩
      cases ho : df.isOverload with
      | true =>
        simp only [ho, if_true] at hg
        subst hg
        refine ⟨?_, hb.2, Or.inl (by simp)⟩
        intro s hs'
        simp only [List.mem_append, List.mem_singleton] at hs'
        rcases hs' with hs' | rfl
        · exact hb.1 s hs'
        · exact ⟨df, by simp, hnn, ho, rfl⟩
      | false =>
        simp only [ho, Bool.false_eq_true, if_false] at hg
        subst hg
        refine ⟨hb.1, ?_, Or.inr rfl⟩
        intro s hs'
        simp only [Option.some.injEq] at hs'
        exact ⟨df, by simp, hnn, ho, hs'.symm⟩
    · simp only [hn, if_false] at hg
      exact mono n f (hs n f hg)

theorem sound_run : ∀ (ds pre : List Def) (c c' : Contents), Sound pre c → runDefs c ds = .ok c' →
    Sound (pre ++ ds) c' := by
  intro ds
  induction ds with
  | nil => intro pre c c' hs h; simp only [runDefs, Res.ok.injEq] at h; subst h; simpa using hs
  | cons d ds ih =>
    intro pre c c' hs h
    simp only [runDefs] at h
    cases h1 : stepDef c d with
    | error e => simp [h1] at h
    | ok c1 =>
      simp only [h1] at h
      have := ih (pre ++ [d]) c1 c' (sound_step pre c c1 d hs h1) h
      simpa [List.append_assoc] using this

/-- **`Signature.records_sound`**: after ANY sequence of `def`s in a scope (any mix of overloads,
redefinitions, late overloads, several names) every overload record of an entry is the own
signature of an `@overload` def of that name, and the primary signature is the own signature of a
non-overload def of that name. -/
theorem records_sound (ds : List Def) (c : Contents) (h : runDefs [] ds = .ok c) (n : Nat) (f : Func)
    (hg : dictGet c (.name n) = some f) :
    (∀ s ∈ f.overloads, ∃ d ∈ ds, d.name = n ∧ d.isOverload = true ∧ s = sigD d.args) ∧
    (∀ s, f.signature = some s → ∃ d ∈ ds, d.name = n ∧ d.isOverload = false ∧ s = sigD d.args) := by
  have hs0 : Sound [] [] := by intro n f hg; simp [dictGet] at hg
  have := sound_run ds [] [] c hs0 h n f hg
  simp only [List.nil_append] at this
  exact ⟨this.1, this.2.1⟩

/-- **`Signature.never_broken`**: for functions built from source the `(...)` fallback of
`format_signature` for a missing signature is dead — every entry has a signature or overloads to
show, and no rendered signature contains `...`. -/
theorem never_broken (ds : List Def) (c : Contents) (h : runDefs [] ds = .ok c) (n : Nat) (f : Func)
    (hg : dictGet c (.name n) = some f) : ∀ toks ∈ displayed f, Token.ellipsis ∉ toks := by
  have hs0 : Sound [] [] := by intro n f hg; simp [dictGet] at hg
  have hshow : Shows f := (sound_run ds [] [] c hs0 h n f hg).2.2
  intro toks ht
  unfold displayed at ht
  by_cases ho : f.overloads ≠ []
  · simp only [ho, ne_eq, not_false_eq_true, if_true, List.mem_map] at ht
    obtain ⟨s, _, rfl⟩ := ht
    exact ellipsis_not_mem_render s
  · simp only [ho, if_false, List.mem_singleton] at ht
    subst ht
    rcases hshow with h1 | h1
    · exact absurd h1 ho
    · cases hsig : f.signature with
      | none => simp [hsig] at h1
      | some s => exact ellipsis_not_mem_render s

/-- **`Signature.broken_signature_unreadable`**: when rendering the signature raises (`html2stan` refusing the
HTML: `&nbsp;` for U+00A0, U+FFFE/U+FFFF — open findings `signature-wiped:*`), what is displayed is `(...)`
whatever the signature was, and that never reads back as a parameter list: in this branch the property
fails for every function with at least … any function at all. -/
theorem broken_signature_unreadable (s : Option Sig) : parseSig (formatSignatureX s true) = none := by
  simp [formatSignatureX, parseSig, untilRparen, parseTail, splitComma, parseSegs, parseSeg]

/-- since 68b2b27 `@builtins.staticmethod` / `@builtins.classmethod` count like the bare names -/
example :
    handleDef .cls ['g'] [⟨some (sBuiltins, [sClassmethod]), false⟩] = .function ['g'] .classMethod false ∧
    handleDef .cls ['g'] [⟨some (sBuiltins, [sStaticmethod]), false⟩] = .function ['g'] .staticMethod false ∧
    handleDef .cls ['g'] [⟨some (['x'], [sClassmethod]), false⟩] = .function ['g'] .plain false := by
  decide

/-- the fallback itself: a Function object without signature (not produced from source) and a
signature whose rendering raises are both shown as `(...)` -/
example : formatSignatureX none false = [.lparen, .ellipsis, .rparen] ∧
    formatSignatureX (some ⟨[], none⟩) true = [.lparen, .ellipsis, .rparen] ∧
    formatSignatureX (some ⟨[], none⟩) false = [.lparen, .rparen] := by decide


/-! ## Non-vacuity: concrete definitions with all five kinds -/

/-- `def f(p0, p1: "a1" = d1, /, p2=d2, *p3: a3, p4, p5: 'a5' = d5, **p6) -> None` -/
def exFive : Args :=
  { posonly := [⟨0, none⟩, ⟨1, some (.str (.atom 1))⟩], args := [⟨2, none⟩],
    vararg := some ⟨3, some (.atom 3)⟩, kwonly := [⟨4, none⟩, ⟨5, some (.str (.atom 5))⟩],
    kwDefaults := [none, some 5], kwarg := some ⟨6, none⟩, defaults := [1, 2],
    returns := some .noneLit }

/-- the hypotheses of the theorems are satisfiable with all five kinds present -/
example : exFive.WF = true := by decide

/-- … and the conclusion is the expected text `(p0, p1: a1 = d1, /, p2=d2, *p3: a3, p4, p5: a5 = d5, **p6)`:
string annotations unquoted, `-> None` gone, `/` after the positional-only run, no bare `*` after `*p3`. -/
example : signatureOf exFive = .ok (sigD exFive, false) ∧ render (sigD exFive) =
    [.lparen, .name 0, .comma, .name 1, .colon, .ann (.atom 1), .eq, .dflt 1, .comma, .slash, .comma,
     .name 2, .eq, .dflt 2, .comma, .star, .name 3, .colon, .ann (.atom 3), .comma, .name 4, .comma,
     .name 5, .colon, .ann (.atom 5), .eq, .dflt 5, .comma, .dstar, .name 6, .rparen] := by
  decide

example : ∃ s, signatureOf exFive = .ok (s, false) ∧ parseSig (render s) = some exFive.norm :=
  roundtrip_args exFive (by decide)

/-- the round trip is not trivially true: reading back gives the *unquoted* arguments, not the source's -/
example : exFive.norm ≠ exFive := by decide

/-- default alignment on the example: `p0` has none, `p1` gets `defaults[0]`, `p2` gets `defaults[1]` -/
example : (specParams exFive.norm).map (·.default) = [none, some 1, some 2, none, none, some 5, none] := by
  decide

/-- keyword-only without `*args`: a bare `*` is written (`def f(*, p0=d0, **p1)`), and read back -/
example :
    let a : Args := { posonly := [], args := [], vararg := none, kwonly := [⟨0, none⟩], kwDefaults := [some 0],
                      kwarg := some ⟨1, none⟩, defaults := [], returns := some (.atom 9) }
    a.WF = true ∧ signatureOf a = .ok (sigD a, false) ∧
      render (sigD a) = [.lparen, .star, .comma, .name 0, .eq, .dflt 0, .comma, .dstar, .name 1, .rparen,
                  .arrow, .ann (.atom 9)] ∧
      parseSig (render (sigD a)) = some a := by
  decide

/-- the model of CPython's parser is not an accept-everything function:
`(*)`, `(/)`, `(p0=d0, p1)`, `(*, **p0)`, `(**p0, p1)`, `(*p0=d0)`, `(p0, /, p1, /)` are all rejected. -/
example :
    parseSig [.lparen, .star, .rparen] = none ∧
    parseSig [.lparen, .slash, .rparen] = none ∧
    parseSig [.lparen, .name 0, .eq, .dflt 0, .comma, .name 1, .rparen] = none ∧
    parseSig [.lparen, .star, .comma, .dstar, .name 0, .rparen] = none ∧
    parseSig [.lparen, .dstar, .name 0, .comma, .name 1, .rparen] = none ∧
    parseSig [.lparen, .star, .name 0, .eq, .dflt 0, .rparen] = none ∧
    parseSig [.lparen, .name 0, .comma, .slash, .comma, .name 1, .comma, .slash, .rparen] = none := by
  decide

/-- misplacing a default or a separator is visible to the reader: three different texts, three
different readings (`(p0, p1=d0)`, `(p0=d0, p1=d0)` , `(p0, /, p1=d0)`). -/
example :
    parseSig [.lparen, .name 0, .comma, .name 1, .eq, .dflt 0, .rparen] ≠
      parseSig [.lparen, .name 0, .comma, .slash, .comma, .name 1, .eq, .dflt 0, .rparen] ∧
    parseSig [.lparen, .name 0, .comma, .name 1, .eq, .dflt 0, .rparen] ≠
      parseSig [.lparen, .name 0, .eq, .dflt 0, .comma, .name 1, .eq, .dflt 0, .rparen] := by
  decide

/-- `inspect.Signature`'s validation is not vacuous either: wrong order, a non-default after a
default, and a duplicate name are each rejected. -/
example :
    validate [⟨0, .kwOnly, none, none⟩, ⟨1, .posOrKw, none, none⟩] = some .wrongOrder ∧
    validate [⟨0, .posOrKw, some 0, none⟩, ⟨1, .posOrKw, none, none⟩] = some .nonDefaultFollowsDefault ∧
    validate [⟨0, .posOrKw, none, none⟩, ⟨0, .kwOnly, none, none⟩] = some .duplicateName := by
  decide

/-- overloads: `@overload def g(p0: a1) -> a1`, `@overload def g(p0: a2, /) -> a2`, another function
in between, then `def g(p0)`: the entry holds the two overloads' own signatures, the page shows
exactly those two. -/
def exOv1 : Args := { posonly := [], args := [⟨0, some (.atom 1)⟩], vararg := none, kwonly := [],
                      kwDefaults := [], kwarg := none, defaults := [], returns := some (.atom 1) }
def exOv2 : Args := { posonly := [⟨0, some (.atom 2)⟩], args := [], vararg := none, kwonly := [],
                      kwDefaults := [], kwarg := none, defaults := [], returns := some (.atom 2) }
def exImpl : Args := { posonly := [], args := [⟨0, none⟩], vararg := none, kwonly := [],
                       kwDefaults := [], kwarg := none, defaults := [], returns := none }

example :
    ∃ c', runDefs [] [⟨7, true, exOv1⟩, ⟨8, false, exFive⟩, ⟨7, true, exOv2⟩, ⟨7, false, exImpl⟩] = .ok c' ∧
      dictGet c' (.name 7) = some { signature := some (sigD exImpl), overloads := [sigD exOv1, sigD exOv2] } :=
  overloads_own 7 _ [] [exOv1, exOv2] exImpl (by simp [dictGet]) (by decide) (by decide)

example :
    displayed { signature := some (sigD exImpl), overloads := [sigD exOv1, sigD exOv2] } =
      [[.lparen, .name 0, .colon, .ann (.atom 1), .rparen, .arrow, .ann (.atom 1)],
       [.lparen, .name 0, .colon, .ann (.atom 2), .comma, .slash, .rparen, .arrow, .ann (.atom 2)]] := by
  decide

/-- an `@overload` written after the implementation is skipped (pydoctor reports it): the entry is unchanged -/
example :
    runDefs [] [⟨7, true, exOv1⟩, ⟨7, false, exImpl⟩, ⟨7, true, exOv2⟩] =
      runDefs [] [⟨7, true, exOv1⟩, ⟨7, false, exImpl⟩] ∧
    runDefs [] [⟨7, true, exOv1⟩, ⟨7, false, exImpl⟩] =
      .ok [(.name 7, { signature := some (sigD exImpl), overloads := [sigD exOv1] })] := by
  decide


end Signature
