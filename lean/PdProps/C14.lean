/-
C14 — a displayed signature is the signature that was written.

Property theorems over `PdModel.Signature` (model of `_handleFunctionDef`'s parameter list,
`inspect.Signature.__init__/__str__`, `format_signature`/`format_overloads`, and CPython's reading of
a parameter list).  All statements quantify over every `ast.arguments`-shaped value; defaults and
annotations are opaque atoms (their own rendering is C15).
-/
import PdModel.Signature

namespace Signature

/-! ## helper lemmas: `nodupB`, the annotations dict -/

theorem nodupB_iff (l : List Nat) : nodupB l = true ↔ l.Nodup := by
  induction l with
  | nil => simp [nodupB]
  | cons x xs ih => simp [nodupB, ih]

theorem dictSet_fresh {V : Type} (d : List (Key × V)) (k : Key) (v : V)
    (h : k ∉ d.map (·.1)) : dictSet d k v = d ++ [(k, v)] := by
  induction d with
  | nil => simp [dictSet]
  | cons kv rest ih =>
    obtain ⟨k', v'⟩ := kv
    simp only [List.map_cons, List.mem_cons, not_or] at h
    have hne : ¬ k' = k := fun e => h.1 e.symm
    simp [dictSet, hne, ih h.2]

theorem foldl_dictSet_fresh {V W : Type} (f : W → V) (l : List (Key × W)) :
    ∀ (d : List (Key × V)), (d.map (·.1) ++ l.map (·.1)).Nodup →
      l.foldl (fun d kv => dictSet d kv.1 (f kv.2)) d = d ++ l.map (fun kv => (kv.1, f kv.2)) := by
  induction l with
  | nil => intro d _; simp
  | cons kv rest ih =>
    intro d h
    have hk : kv.1 ∉ d.map (·.1) := by
      intro hm
      have := List.nodup_append.mp h
      exact this.2.2 _ hm _ (by simp) rfl
    simp only [List.foldl_cons, dictSet_fresh d kv.1 (f kv.2) hk]
    rw [ih]
    · simp
    · simpa [List.append_assoc] using h

theorem dictGet_mem {V : Type} (d : List (Key × V)) (k : Key) (v : V)
    (hn : (d.map (·.1)).Nodup) (hm : (k, v) ∈ d) : dictGet d k = some v := by
  induction d with
  | nil => simp at hm
  | cons kv rest ih =>
    obtain ⟨k', v'⟩ := kv
    simp only [List.map_cons, List.nodup_cons] at hn
    simp only [List.mem_cons, Prod.mk.injEq] at hm
    rcases hm with ⟨rfl, rfl⟩ | hm
    · simp [dictGet]
    · have hne : ¬ k' = k := by
        intro e; subst e
        exact hn.1 (List.mem_map.mpr ⟨(k', v), hm, rfl⟩)
      simp [dictGet, hne, ih hn.2 hm]

theorem dictGet_not_mem {V : Type} (d : List (Key × V)) (k : Key)
    (h : k ∉ d.map (·.1)) : dictGet d k = none := by
  induction d with
  | nil => simp [dictGet]
  | cons kv rest ih =>
    obtain ⟨k', v'⟩ := kv
    simp only [List.map_cons, List.mem_cons, not_or] at h
    have hne : ¬ k' = k := fun e => h.1 e.symm
    simp [dictGet, hne, ih h.2]

theorem keys_allAst (a : Args) :
    (allAstAnnotations a).map (·.1) =
      (Args.names a).map Key.name ++ (match a.returns with | some _ => [Key.ret] | none => []) := by
  unfold allAstAnnotations Args.names
  cases a.returns <;> simp [List.map_map, Function.comp_def]

theorem keys_allAst_nodup (a : Args) (h : (Args.names a).Nodup) :
    ((allAstAnnotations a).map (·.1)).Nodup := by
  rw [keys_allAst]
  have h1 : ((Args.names a).map Key.name).Nodup :=
    List.Pairwise.map Key.name (fun _ _ hne e => hne (by injection e)) h
  cases a.returns with
  | none => simpa using h1
  | some r =>
    simp only
    rw [List.nodup_append]
    refine ⟨h1, by simp, ?_⟩
    intro x hx y hy e
    simp only [List.mem_map] at hx
    obtain ⟨n, _, rfl⟩ := hx
    simp at hy
    subst hy
    cases e

/-- with distinct parameter names the dict is just the list of pairs, annotations unstringed -/
theorem annotations_eq (a : Args) (h : (Args.names a).Nodup) :
    annotationsFromFunction a =
      (allAstAnnotations a).map (fun kv => (kv.1, kv.2.map AnnE.unstring)) := by
  unfold annotationsFromFunction
  rw [foldl_dictSet_fresh (fun (o : Option AnnE) => o.map AnnE.unstring)]
  · simp
  · simpa using keys_allAst_nodup a h

theorem annotations_keys_nodup (a : Args) (h : (Args.names a).Nodup) :
    ((annotationsFromFunction a).map (·.1)).Nodup := by
  rw [annotations_eq a h]
  simpa [List.map_map, Function.comp_def] using keys_allAst_nodup a h

/-- `annotations.get(name)` is the parameter's own (unstringed) annotation -/
theorem annGet_arg (a : Args) (h : (Args.names a).Nodup) (x : Arg) (hx : x ∈ allArgs a) :
    annGet (annotationsFromFunction a) (.name x.name) = x.ann.map AnnE.unstring := by
  have hm : (Key.name x.name, x.ann.map AnnE.unstring) ∈ annotationsFromFunction a := by
    rw [annotations_eq a h]
    simp only [List.mem_map]
    refine ⟨(Key.name x.name, x.ann), ?_, rfl⟩
    unfold allAstAnnotations
    exact List.mem_append_left _ (List.mem_map.mpr ⟨x, hx, rfl⟩)
  have := dictGet_mem _ _ _ (annotations_keys_nodup a h) hm
  unfold annGet
  rw [this]
  cases x.ann <;> rfl

theorem returnAnnotation_eq (a : Args) (h : (Args.names a).Nodup) :
    returnAnnotation a = normReturns a.returns := by
  unfold returnAnnotation annGet normReturns
  cases hr : a.returns with
  | none =>
    have : Key.ret ∉ (annotationsFromFunction a).map (·.1) := by
      rw [annotations_eq a h]
      simp only [List.map_map, Function.comp_def]
      have := keys_allAst a
      simp only [hr] at this
      rw [show (List.map (fun x => x.1) (allAstAnnotations a)) = _ from this]
      simp
    simp [dictGet_not_mem _ _ this]
  | some r =>
    have hm : (Key.ret, some (AnnE.unstring r)) ∈ annotationsFromFunction a := by
      rw [annotations_eq a h]
      simp only [List.mem_map]
      refine ⟨(Key.ret, some r), ?_, rfl⟩
      unfold allAstAnnotations
      simp [hr]
    rw [dictGet_mem _ _ _ (annotations_keys_nodup a h) hm]
    simp only [Option.map_some]
    cases hu : AnnE.unstring r <;> simp

/-! ## `buildParams` computes Python's meaning of `ast.arguments` -/

theorem getDefault_eq (numPos : Nat) (defaults : List Nat) (i : Nat)
    (hi : i < numPos) (hd : defaults.length ≤ numPos) :
    getDefault numPos defaults i = .ok (alignAt numPos defaults i) := by
  unfold getDefault alignAt
  simp only [hi, if_true]
  by_cases h : i < numPos - defaults.length
  · have : ((i : Int) - ((numPos : Int) - (defaults.length : Int))) < 0 := by omega
    simp [h, this]
  · have hnn : ¬ ((i : Int) - ((numPos : Int) - (defaults.length : Int))) < 0 := by omega
    have hidx : ((i : Int) - ((numPos : Int) - (defaults.length : Int))).toNat
        = i - (numPos - defaults.length) := by omega
    have hlt : i - (numPos - defaults.length) < defaults.length := by omega
    simp [h, hnn, hidx, List.getElem?_eq_getElem hlt]

/-- a parameter paired with its default, as a `Param` of kind `k` -/
def pparam (k : Kind) (xd : Arg × Option Nat) : Param :=
  { name := xd.1.name, kind := k, default := xd.2, ann := xd.1.ann }

/-- `*args` / `**kw` parameter -/
def vparam (k : Kind) (x : Arg) : Param :=
  { name := x.name, kind := k, default := none, ann := x.ann }

theorem addPositional_eq (a : Args) (hn : (Args.names a).Nodup) (numPos : Nat) (defaults : List Nat)
    (hd : defaults.length ≤ numPos) (kind : Kind) :
    ∀ (xs : List Arg) (i0 : Nat) (acc : List Param), (∀ x ∈ xs, x ∈ allArgs a) →
      i0 + xs.length ≤ numPos →
      addPositional (annotationsFromFunction a) numPos defaults kind xs i0 acc =
        .ok (acc ++ ((xs.map Arg.norm).zip ((List.range' i0 xs.length).map (alignAt numPos defaults))).map
              (pparam kind)) := by
  intro xs
  induction xs with
  | nil => intro i0 acc _ _; simp [addPositional]
  | cons x xs ih =>
    intro i0 acc hmem hlen
    simp only [List.length_cons] at hlen
    have hi : i0 < numPos := by omega
    have hx : x ∈ allArgs a := hmem x (by simp)
    simp only [addPositional, getDefault_eq numPos defaults i0 hi hd]
    rw [ih (i0 + 1) _ (fun y hy => hmem y (by simp [hy])) (by omega)]
    simp [List.range'_succ, mkParam, pparam, Arg.norm, annGet_arg a hn x hx]

theorem addKwonly_eq (a : Args) (hn : (Args.names a).Nodup) :
    ∀ (xs : List Arg) (ds : List (Option Nat)) (acc : List Param), (∀ x ∈ xs, x ∈ allArgs a) →
      addKwonly (annotationsFromFunction a) xs ds acc =
        acc ++ ((xs.map Arg.norm).zip ds).map (pparam .kwOnly) := by
  intro xs
  induction xs with
  | nil => intro ds acc _; simp [addKwonly]
  | cons x xs ih =>
    intro ds acc hmem
    cases ds with
    | nil => simp [addKwonly]
    | cons d ds =>
      have hx : x ∈ allArgs a := hmem x (by simp)
      simp only [addKwonly]
      rw [ih ds _ (fun y hy => hmem y (by simp [hy]))]
      simp [mkParam, pparam, Arg.norm, annGet_arg a hn x hx]

/-- The five groups of a parameter list, positional ones paired with their defaults. -/
structure Layout where
  po : List (Arg × Option Nat)
  pa : List (Arg × Option Nat)
  va : Option Arg
  kw : List (Arg × Option Nat)
  kk : Option Arg

def Layout.params (L : Layout) : List Param :=
  L.po.map (pparam .posOnly) ++ L.pa.map (pparam .posOrKw) ++ L.va.toList.map (vparam .varPos)
    ++ L.kw.map (pparam .kwOnly) ++ L.kk.toList.map (vparam .varKw)

/-- Python's reading of `ast.arguments` as a layout (`alignAt` = the default rule) -/
def layoutOf (a : Args) : Layout :=
  let n := a.posonly.length + a.args.length
  { po := a.posonly.zip ((List.range' 0 a.posonly.length).map (alignAt n a.defaults)),
    pa := a.args.zip ((List.range' a.posonly.length a.args.length).map (alignAt n a.defaults)),
    va := a.vararg, kw := a.kwonly.zip a.kwDefaults, kk := a.kwarg }

theorem zipWith_as_map (k : Kind) (f : Nat → Option Nat) :
    ∀ (xs : List Arg) (is : List Nat),
      List.zipWith (fun (x : Arg) (i : Nat) =>
        ({ name := x.name, kind := k, default := f i, ann := x.ann } : Param)) xs is
      = (xs.zip (is.map f)).map (pparam k) := by
  intro xs
  induction xs with
  | nil => intro is; simp
  | cons x xs ih =>
    intro is
    cases is with
    | nil => simp
    | cons i is => simp [ih, pparam]

theorem specParams_layout (a : Args) : specParams a = (layoutOf a).params := by
  unfold specParams specPositional Layout.params layoutOf
  simp only [zipWith_as_map]
  cases a.vararg <;> cases a.kwarg <;> simp [vparam, pparam]

theorem mem_allArgs (a : Args) (x : Arg) :
    x ∈ allArgs a ↔ x ∈ a.posonly ∨ x ∈ a.args ∨ a.vararg = some x ∨ x ∈ a.kwonly ∨ a.kwarg = some x := by
  unfold allArgs
  simp only [List.mem_append, Option.mem_toList]
  constructor
  · rintro ((((h | h) | h) | h) | h) <;> simp [h]
  · rintro (h | h | h | h | h) <;> simp [h]

/-- **`build_eq_spec`**: for every parser-shaped `ast.arguments` with distinct names, the parameter
list pydoctor hands to `inspect.Signature` is Python's own reading of those arguments (same names,
order, kinds; defaults by the alignment rule; annotations unstringed) — and no assertion fails. -/
theorem build_eq_spec (a : Args) (hwf : a.WF = true) :
    buildParams a = .ok (specParams a.norm) := by
  simp only [Args.WF, Args.parserWF, Bool.and_eq_true, decide_eq_true_eq, nodupB_iff] at hwf
  obtain ⟨⟨hd, hk⟩, hn⟩ := hwf
  rw [specParams_layout]
  unfold buildParams
  simp only
  rw [addPositional_eq a hn _ _ hd .posOnly a.posonly 0 [] (fun x hx => (mem_allArgs a x).2 (Or.inl hx))
        (by omega)]
  simp only
  rw [addPositional_eq a hn _ _ hd .posOrKw a.args a.posonly.length _
        (fun x hx => (mem_allArgs a x).2 (Or.inr (Or.inl hx))) (by omega)]
  simp only [hk, if_true]
  rw [addKwonly_eq a hn a.kwonly a.kwDefaults _
        (fun x hx => (mem_allArgs a x).2 (Or.inr (Or.inr (Or.inr (Or.inl hx)))))]
  have hv : ∀ v, a.vararg = some v →
      mkParam (annotationsFromFunction a) v.name .varPos none = vparam .varPos (Arg.norm v) := by
    intro v hv
    simp [mkParam, vparam, Arg.norm, annGet_arg a hn v ((mem_allArgs a v).2 (by simp [hv]))]
  have hw : ∀ v, a.kwarg = some v →
      mkParam (annotationsFromFunction a) v.name .varKw none = vparam .varKw (Arg.norm v) := by
    intro v hv
    simp [mkParam, vparam, Arg.norm, annGet_arg a hn v ((mem_allArgs a v).2 (by simp [hv]))]
  unfold Layout.params layoutOf Args.norm
  simp only [List.length_map, List.nil_append]
  cases hva : a.vararg with
  | none =>
    cases hkw : a.kwarg with
    | none => simp
    | some w => simp [hw w hkw]
  | some v =>
    cases hkw : a.kwarg with
    | none => simp [hv v hva]
    | some w => simp [hv v hva, hw w hkw]

/-- **`build_total`**: the two `assert`s and the `defaults[index]` lookup never fail on what CPython's
parser produces (no hypothesis on names). -/
theorem build_total (a : Args) (hwf : a.parserWF = true) : ∃ ps, buildParams a = .ok ps := by
  simp only [Args.parserWF, decide_eq_true_eq] at hwf
  obtain ⟨hd, hk⟩ := hwf
  have key : ∀ (d : List (Key × Option AnnE)) (kind : Kind) (xs : List Arg) (i0 : Nat) (acc : List Param),
      i0 + xs.length ≤ a.posonly.length + a.args.length →
      ∃ ps, addPositional d (a.posonly.length + a.args.length) a.defaults kind xs i0 acc = .ok ps := by
    intro d kind xs
    induction xs with
    | nil => intro i0 acc _; exact ⟨acc, by simp [addPositional]⟩
    | cons x xs ih =>
      intro i0 acc hlen
      simp only [List.length_cons] at hlen
      simp only [addPositional, getDefault_eq _ _ i0 (by omega) hd]
      exact ih _ _ (by omega)
  unfold buildParams
  simp only
  obtain ⟨p1, h1⟩ := key (annotationsFromFunction a) .posOnly a.posonly 0 [] (by omega)
  rw [h1]
  simp only
  obtain ⟨p2, h2⟩ := key (annotationsFromFunction a) .posOrKw a.args a.posonly.length p1 (by omega)
  rw [h2]
  simp [hk]


/-! ## `inspect.Signature.__init__` accepts what `buildParams` produces -/

/-- "no parameter without a default after one with a default", on option lists -/
def defOkO : Bool → List (Option Nat) → Bool
  | _, [] => true
  | sd, none :: r => !sd && defOkO sd r
  | _, some _ :: r => defOkO true r

/-- the same condition on parameters, phrased as `Signature.__init__` tests it -/
def defOk : Bool → List Param → Bool
  | _, [] => true
  | sd, p :: ps =>
    if (p.kind = .posOnly ∨ p.kind = .posOrKw) ∧ p.default = none ∧ sd = true then false
    else defOk (if (p.kind = .posOnly ∨ p.kind = .posOrKw) ∧ p.default ≠ none then true else sd) ps

theorem validateLoop_ok : ∀ (ps : List Param) (top : Kind) (sd : Bool) (seen : List Nat),
    List.Pairwise (fun p q : Param => p.kind.toNat ≤ q.kind.toNat) ps →
    (∀ p ∈ ps, top.toNat ≤ p.kind.toNat) →
    (seen ++ ps.map (·.name)).Nodup →
    defOk sd ps = true →
    validateLoop ps top sd seen = none := by
  intro ps
  induction ps with
  | nil => intros; simp [validateLoop]
  | cons p ps ih =>
    intro top sd seen hpw htop hnd hdef
    rw [List.pairwise_cons] at hpw
    have hp : top.toNat ≤ p.kind.toNat := htop p (by simp)
    have hnotin : p.name ∉ seen := by
      intro hm
      have := (List.nodup_append.mp hnd).2.2 _ hm p.name (by simp)
      exact this rfl
    have hnd' : ((seen ++ [p.name]) ++ ps.map (·.name)).Nodup := by
      simpa [List.append_assoc] using hnd
    unfold validateLoop
    have h1 : ¬ p.kind.toNat < top.toNat := by omega
    simp only [h1, if_false]
    simp only [defOk] at hdef
    split at hdef
    · exact absurd hdef (by simp)
    · rename_i hno
      simp only [hno, if_false, hnotin]
      apply ih _ _ _ hpw.2 _ hnd' hdef
      intro q hq
      split
      · exact hpw.1 q hq
      · exact htop q (by simp [hq])

theorem validateLoop_nodup : ∀ (ps : List Param) (top : Kind) (sd : Bool) (seen : List Nat),
    seen.Nodup → validateLoop ps top sd seen = none → (seen ++ ps.map (·.name)).Nodup := by
  intro ps
  induction ps with
  | nil => intro _ _ seen hs _; simpa using hs
  | cons p ps ih =>
    intro top sd seen hs h
    unfold validateLoop at h
    split at h
    · simp at h
    · simp only at h
      split at h
      · simp at h
      · split at h
        · simp at h
        · rename_i hnot
          have hs' : (seen ++ [p.name]).Nodup := by
            rw [List.nodup_append]
            refine ⟨hs, by simp, ?_⟩
            intro a ha b hb e
            simp at hb
            subst hb; subst e
            exact hnot ha
          have := ih _ _ _ hs' h
          simpa [List.append_assoc] using this

theorem defOk_nonpos : ∀ (l : List Param) (sd : Bool),
    (∀ p ∈ l, p.kind ≠ .posOnly ∧ p.kind ≠ .posOrKw) → defOk sd l = true := by
  intro l
  induction l with
  | nil => intros; rfl
  | cons p ps ih =>
    intro sd h
    have hp := h p (by simp)
    simp only [defOk, hp.1, hp.2, false_or, false_and, if_false]
    exact ih _ (fun q hq => h q (by simp [hq]))

theorem defOk_pos : ∀ (l : List Param) (rest : List Param) (sd : Bool),
    (∀ p ∈ l, p.kind = .posOnly ∨ p.kind = .posOrKw) →
    (∀ p ∈ rest, p.kind ≠ .posOnly ∧ p.kind ≠ .posOrKw) →
    defOkO sd (l.map (·.default)) = true → defOk sd (l ++ rest) = true := by
  intro l
  induction l with
  | nil => intro rest sd _ hr _; simpa using defOk_nonpos rest sd hr
  | cons p ps ih =>
    intro rest sd hl hr h
    have hp := hl p (by simp)
    have hps : ∀ q ∈ ps, q.kind = .posOnly ∨ q.kind = .posOrKw := fun q hq => hl q (by simp [hq])
    simp only [List.cons_append, defOk, hp, true_and]
    cases hd : p.default with
    | none =>
      simp only [List.map_cons, hd, defOkO, Bool.and_eq_true, Bool.not_eq_true'] at h
      simp only [h.1, ne_eq, not_true, and_false, if_false]
      simpa [h.1] using ih rest sd hps hr (by simpa [h.1] using h.2)
    | some d =>
      simp only [List.map_cons, hd, defOkO] at h
      simp only [reduceCtorEq, false_and, if_false, ne_eq, not_false_eq_true, and_self, if_true]
      exact ih rest true hps hr h

theorem defOkO_somes (ds : List Nat) (sd : Bool) : defOkO sd (ds.map some) = true := by
  induction ds generalizing sd with
  | nil => rfl
  | cons d ds ih => simpa [defOkO] using ih true

theorem defOkO_aligned (m : Nat) (ds : List Nat) :
    defOkO false (List.replicate m none ++ ds.map some) = true := by
  induction m with
  | zero => simpa using defOkO_somes ds false
  | succ m ih => simpa [List.replicate_succ, defOkO] using ih

/-- a layout whose positional defaults sit at the end of the positional run -/
def Layout.Aligned (L : Layout) : Prop :=
  ∃ (m : Nat) (ds : List Nat), (L.po ++ L.pa).map (·.2) = List.replicate m none ++ ds.map some

def Layout.names (L : Layout) : List Nat := L.params.map (·.name)

theorem kind_pparam (k : Kind) (l : List (Arg × Option Nat)) :
    ∀ p ∈ l.map (pparam k), p.kind = k := by
  intro p hp
  obtain ⟨x, _, rfl⟩ := List.mem_map.mp hp
  rfl

theorem kind_vparam (k : Kind) (l : List Arg) : ∀ p ∈ l.map (vparam k), p.kind = k := by
  intro p hp
  obtain ⟨x, _, rfl⟩ := List.mem_map.mp hp
  rfl

theorem pw_const (l : List Param) (k : Kind) (h : ∀ p ∈ l, p.kind = k) :
    l.Pairwise (fun p q : Param => p.kind.toNat ≤ q.kind.toNat) :=
  List.pairwise_of_forall_mem_list (fun a ha b hb => by simp [h a ha, h b hb])

theorem pw_append (l1 l2 : List Param) (k : Nat)
    (h1 : l1.Pairwise (fun p q : Param => p.kind.toNat ≤ q.kind.toNat))
    (h2 : l2.Pairwise (fun p q : Param => p.kind.toNat ≤ q.kind.toNat))
    (hk1 : ∀ p ∈ l1, p.kind.toNat ≤ k) (hk2 : ∀ p ∈ l2, k ≤ p.kind.toNat) :
    (l1 ++ l2).Pairwise (fun p q : Param => p.kind.toNat ≤ q.kind.toNat) :=
  List.pairwise_append.mpr ⟨h1, h2, fun a ha b hb => Nat.le_trans (hk1 a ha) (hk2 b hb)⟩

theorem layout_kinds_sorted (L : Layout) :
    L.params.Pairwise (fun p q : Param => p.kind.toNat ≤ q.kind.toNat) := by
  unfold Layout.params
  have hA := kind_pparam .posOnly L.po
  have hB := kind_pparam .posOrKw L.pa
  have hC := kind_vparam .varPos L.va.toList
  have hD := kind_pparam .kwOnly L.kw
  have hE := kind_vparam .varKw L.kk.toList
  apply pw_append _ _ 3 _ (pw_const _ _ hE)
  · intro p hp
    simp only [List.mem_append] at hp
    rcases hp with ((hp | hp) | hp) | hp
    · simp [hA p hp, Kind.toNat]
    · simp [hB p hp, Kind.toNat]
    · simp [hC p hp, Kind.toNat]
    · simp [hD p hp, Kind.toNat]
  · intro p hp; simp [hE p hp, Kind.toNat]
  apply pw_append _ _ 2 _ (pw_const _ _ hD)
  · intro p hp
    simp only [List.mem_append] at hp
    rcases hp with (hp | hp) | hp
    · simp [hA p hp, Kind.toNat]
    · simp [hB p hp, Kind.toNat]
    · simp [hC p hp, Kind.toNat]
  · intro p hp; simp [hD p hp, Kind.toNat]
  apply pw_append _ _ 1 _ (pw_const _ _ hC)
  · intro p hp
    simp only [List.mem_append] at hp
    rcases hp with hp | hp
    · simp [hA p hp, Kind.toNat]
    · simp [hB p hp, Kind.toNat]
  · intro p hp; simp [hC p hp, Kind.toNat]
  apply pw_append _ _ 0 (pw_const _ _ hA) (pw_const _ _ hB)
  · intro p hp; simp [hA p hp, Kind.toNat]
  · intro p hp; simp

theorem layout_defOk (L : Layout) (hal : L.Aligned) : defOk false L.params = true := by
  obtain ⟨m, ds, h⟩ := hal
  unfold Layout.params
  rw [List.append_assoc, List.append_assoc]
  apply defOk_pos
  · intro p hp
    simp only [List.mem_append] at hp
    rcases hp with hp | hp
    · exact Or.inl (kind_pparam _ _ p hp)
    · exact Or.inr (kind_pparam _ _ p hp)
  · intro p hp
    simp only [List.mem_append] at hp
    rcases hp with hp | hp | hp
    · simp [kind_vparam _ _ p hp]
    · simp [kind_pparam _ _ p hp]
    · simp [kind_vparam _ _ p hp]
  · have : (L.po.map (pparam .posOnly) ++ L.pa.map (pparam .posOrKw)).map (·.default)
        = (L.po ++ L.pa).map (·.2) := by
      simp [pparam, Function.comp_def]
    rw [this, h]
    exact defOkO_aligned m ds

/-- `inspect.Signature` accepts the parameters of every aligned layout with distinct names -/
theorem layout_valid (L : Layout) (hal : L.Aligned) (hn : L.names.Nodup) :
    validate L.params = none := by
  unfold validate
  apply validateLoop_ok _ _ _ _ (layout_kinds_sorted L)
  · intro p _; simp [Kind.toNat]
  · simpa [Layout.names] using hn
  · exact layout_defOk L hal


/-! ## `layoutOf` of parser-shaped arguments -/

theorem alignList_eq (n : Nat) (ds : List Nat) (h : ds.length ≤ n) :
    (List.range' 0 n).map (alignAt n ds) = List.replicate (n - ds.length) none ++ ds.map some := by
  apply List.ext_getElem
  · simp; omega
  · intro i h1 h2
    simp only [List.length_map, List.length_range'] at h1
    simp only [List.getElem_map, List.getElem_range', alignAt]
    by_cases hi : i < n - ds.length
    · rw [List.getElem_append_left (by simpa using hi)]
      simp [hi]
    · rw [List.getElem_append_right (by simpa using hi)]
      have hlt : i - (n - ds.length) < ds.length := by omega
      simp [hi, hlt]

theorem layoutOf_positional_defaults (a : Args) :
    ((layoutOf a).po ++ (layoutOf a).pa).map (·.2) =
      (List.range' 0 (a.posonly.length + a.args.length)).map
        (alignAt (a.posonly.length + a.args.length) a.defaults) := by
  unfold layoutOf
  simp only [List.map_append]
  rw [show (fun (x : Arg × Option Nat) => x.2) = Prod.snd from rfl]
  rw [List.map_snd_zip (by simp), List.map_snd_zip (by simp), ← List.map_append]
  congr 1
  have := @List.range'_append_1 0 a.posonly.length a.args.length
  simpa using this

theorem layoutOf_aligned (a : Args) (h : a.defaults.length ≤ a.posonly.length + a.args.length) :
    (layoutOf a).Aligned :=
  ⟨_, a.defaults, by rw [layoutOf_positional_defaults, alignList_eq _ _ h]⟩

theorem layoutOf_names (a : Args) (hk : a.kwDefaults.length = a.kwonly.length) :
    (layoutOf a).names = a.names := by
  unfold Layout.names Layout.params layoutOf Args.names allArgs
  simp only [List.map_append, List.map_map]
  have e1 : ∀ k, (fun p : Param => p.name) ∘ pparam k = (fun x : Arg => x.name) ∘ Prod.fst := by
    intro k; funext x; rfl
  have e2 : ∀ k, (fun p : Param => p.name) ∘ vparam k = (fun x : Arg => x.name) := by
    intro k; funext x; rfl
  simp only [e1, e2, ← List.map_map]
  rw [List.map_fst_zip (by simp), List.map_fst_zip (by simp), List.map_fst_zip (by omega)]


/-! ## `Signature.__str__` layout: where `/` and `*` go -/

def plainItem (xd : Arg × Option Nat) : Item := .plain xd.1 xd.2

/-- the comma-separated items Python's grammar expects for a layout -/
def Layout.items (L : Layout) : List Item :=
  L.po.map plainItem ++ (if L.po.isEmpty then [] else [.slash]) ++ L.pa.map plainItem ++
    (match L.va with
     | some v => [.starArg v]
     | none => if L.kw.isEmpty then [] else [.star]) ++
    L.kw.map plainItem ++
    (match L.kk with | some k => [.dstarArg k] | none => [])

def argTokens (x : Arg) : List Token :=
  .name x.name :: (match x.ann with | some a => [.colon, .ann a] | none => [])

/-- how an item is written -/
def itemTokens : Item → List Token
  | .slash => [.slash]
  | .star => [.star]
  | .starArg x => .star :: argTokens x
  | .dstarArg x => .dstar :: argTokens x
  | .plain x d => argTokens x ++ (match d with | some d => [.eq, .dflt d] | none => [])

theorem paramStr_pparam (k : Kind) (hk1 : k ≠ .varPos) (hk2 : k ≠ .varKw) (xd : Arg × Option Nat) :
    paramStr (pparam k xd) = itemTokens (plainItem xd) := by
  obtain ⟨⟨n, ann⟩, d⟩ := xd
  cases k <;> cases ann <;> cases d <;> simp_all [paramStr, pparam, itemTokens, plainItem, argTokens]

theorem paramStr_varPos (x : Arg) : paramStr (vparam .varPos x) = itemTokens (.starArg x) := by
  obtain ⟨n, ann⟩ := x
  cases ann <;> simp [paramStr, vparam, itemTokens, argTokens]

theorem paramStr_varKw (x : Arg) : paramStr (vparam .varKw x) = itemTokens (.dstarArg x) := by
  obtain ⟨n, ann⟩ := x
  cases ann <;> simp [paramStr, vparam, itemTokens, argTokens]

theorem renderLoop_posOnly (po : List (Arg × Option Nat)) (rest : List Param) :
    ∀ (f1 f2 : Bool), renderLoop (po.map (pparam .posOnly) ++ rest) f1 f2 =
      po.map (fun xd => itemTokens (plainItem xd)) ++ renderLoop rest (f1 || !po.isEmpty) f2 := by
  induction po with
  | nil => intro f1 f2; simp
  | cons x po ih =>
    intro f1 f2
    have hs := paramStr_pparam .posOnly (by decide) (by decide) x
    have hk : (pparam .posOnly x).kind = .posOnly := rfl
    simp [renderLoop, hk, hs, ih]

theorem renderLoop_slash (rest : List Param) (f2 : Bool) (h : ∀ p ∈ rest, p.kind ≠ .posOnly) :
    renderLoop rest true f2 = [.slash] :: renderLoop rest false f2 := by
  cases rest with
  | nil => simp [renderLoop]
  | cons p ps =>
    have hp := h p (by simp)
    simp [renderLoop, hp]

theorem renderLoop_posOrKw (pa : List (Arg × Option Nat)) (rest : List Param) (f2 : Bool) :
    renderLoop (pa.map (pparam .posOrKw) ++ rest) false f2 =
      pa.map (fun xd => itemTokens (plainItem xd)) ++ renderLoop rest false f2 := by
  induction pa with
  | nil => simp
  | cons x pa ih =>
    have hs := paramStr_pparam .posOrKw (by decide) (by decide) x
    have hk : (pparam .posOrKw x).kind = .posOrKw := rfl
    simp [renderLoop, hk, hs, ih]

theorem renderLoop_kwOnly (kw : List (Arg × Option Nat)) (rest : List Param) :
    renderLoop (kw.map (pparam .kwOnly) ++ rest) false false =
      kw.map (fun xd => itemTokens (plainItem xd)) ++ renderLoop rest false false := by
  induction kw with
  | nil => simp
  | cons x kw ih =>
    have hs := paramStr_pparam .kwOnly (by decide) (by decide) x
    have hk : (pparam .kwOnly x).kind = .kwOnly := rfl
    simp [renderLoop, hk, hs, ih]

theorem renderLoop_kwOnly_first (x : Arg × Option Nat) (kw : List (Arg × Option Nat)) (rest : List Param) :
    renderLoop ((x :: kw).map (pparam .kwOnly) ++ rest) false true =
      [.star] :: (x :: kw).map (fun xd => itemTokens (plainItem xd)) ++ renderLoop rest false false := by
  have hs := paramStr_pparam .kwOnly (by decide) (by decide) x
  have hk : (pparam .kwOnly x).kind = .kwOnly := rfl
  simp [renderLoop, hk, hs, renderLoop_kwOnly]

theorem renderLoop_varKw (kk : Option Arg) (f2 : Bool) :
    renderLoop (kk.toList.map (vparam .varKw)) false f2 =
      (match kk with | some k => [itemTokens (.dstarArg k)] | none => []) := by
  cases kk with
  | none => simp [renderLoop]
  | some k => simp [renderLoop, vparam, ← paramStr_varKw]

theorem renderLoop_varPos (v : Arg) (rest : List Param) (f2 : Bool) :
    renderLoop (vparam .varPos v :: rest) false f2 =
      itemTokens (.starArg v) :: renderLoop rest false false := by
  simp [renderLoop, vparam, ← paramStr_varPos]

/-- **`render_layout`**: `Signature.__str__` writes the positional-only parameters, then `/` iff there
are any, the other positional parameters, then `*name` — or a bare `*` iff there is no `*name` but
there are keyword-only parameters —, the keyword-only parameters, and `**name` last. -/
theorem render_layout (L : Layout) :
    renderLoop L.params false true = L.items.map itemTokens := by
  unfold Layout.params Layout.items
  simp only [List.append_assoc, List.map_append, List.map_map, Function.comp_def]
  rw [renderLoop_posOnly]
  have tail : renderLoop (L.pa.map (pparam .posOrKw) ++ (L.va.toList.map (vparam .varPos) ++
        (L.kw.map (pparam .kwOnly) ++ L.kk.toList.map (vparam .varKw)))) false true =
      L.pa.map (fun xd => itemTokens (plainItem xd)) ++
        ((match L.va with
          | some v => [Item.starArg v]
          | none => if L.kw.isEmpty then [] else [.star]).map itemTokens ++
         (L.kw.map (fun xd => itemTokens (plainItem xd)) ++
          (match L.kk with | some k => [Item.dstarArg k] | none => []).map itemTokens)) := by
    rw [renderLoop_posOrKw]
    congr 1
    cases hva : L.va with
    | some v =>
      simp only [Option.toList_some, List.map_cons, List.map_nil, List.cons_append, List.nil_append]
      rw [renderLoop_varPos, renderLoop_kwOnly, renderLoop_varKw]
      cases L.kk <;> simp
    | none =>
      simp only [Option.toList_none, List.map_nil, List.nil_append]
      cases hkw : L.kw with
      | nil =>
        simp only [List.map_nil, List.nil_append, List.isEmpty_nil, if_true]
        rw [renderLoop_varKw]
        cases L.kk <;> simp
      | cons x kw =>
        rw [renderLoop_kwOnly_first, renderLoop_varKw]
        cases L.kk <;> simp [itemTokens]
  cases hpo : L.po with
  | nil =>
    simp only [List.map_nil, List.nil_append, List.isEmpty_nil, Bool.not_true, Bool.or_false, if_true]
    exact tail
  | cons x po =>
    simp only [List.isEmpty_cons, Bool.not_false, Bool.or_true]
    rw [renderLoop_slash, tail]
    · simp [itemTokens]
    · intro p hp
      simp only [List.mem_append] at hp
      rcases hp with hp | hp | hp | hp
      · simp [kind_pparam _ _ p hp]
      · simp [kind_vparam _ _ p hp]
      · simp [kind_pparam _ _ p hp]
      · simp [kind_vparam _ _ p hp]


end Signature
