/-
C01 — a run never aborts.  The part of the property that is decision logic: the module scheduler
(`System.process / processModule / getProcessedModule`) and `driver.main`'s exit status.  The
fallback wrappers around docstring parsing / rendering are C08's theorems (PdProps.C08).
"No Python construct makes any other code path raise" is a statement about all of pydoctor,
docutils and twisted; it is decided by the end-to-end oracle (harness/props/c01.py) and stated
as partial in MANIFEST.
-/
import PdProps.C06

namespace Schedule

/-- for every project (any import graph, cycles, any set of unparsable files) and every order,
`System.process()` terminates with nothing left unprocessed, no `assert` fails on the way, and
every module has been entered exactly once -/
theorem c01_process_total (mods : List Mod) (order : List Nat)
    (hperm : order.Perm (List.range mods.length)) :
    (run mods order).unprocessed = [] ∧ noAssert (run mods order).log ∧
      ∀ m, m < mods.length → starts (run mods order).log m = 1 :=
  let h := process_terminates_drains mods order hperm
  ⟨h.1, h.2.1, h.2.2.1⟩

/-- an unparsable file does not prevent the other files from being processed: every module whose
own file parses ends PROCESSED, whatever else is in the tree -/
theorem c01_one_bad_file (mods : List Mod) (order : List Nat)
    (hperm : order.Perm (List.range mods.length)) (m : Nat) (md : Mod)
    (hm : mods[m]? = some md) (hp : md.parses = true) :
    getSt (run mods order) m = .processed := by
  rw [one_bad_file mods order hperm m md hm]; simp [hp]

/-- the run ends with one of the documented statuses -/
theorem c01_exit_status (w : Bool) (v p : Nat) :
    exitStatus w v p ∈ [0, 2, 3] := by
  rcases exit_status_range w v p with h | h | h <;> simp [h]

example : [1, 0].Perm (List.range [Mod.mk false [], Mod.mk true [0]].length) := by decide

end Schedule
