/-
C01 — a run never aborts.  The part of the property that is decision logic: the module scheduler
(`System.process / processModule / getProcessedModule`) and `driver.main`'s exit status, and — lifted from C08's model of the docstring wrappers
(`epydoc2stan.parse_docstring / safe_to_stan / format_docstring / format_summary / format_toc /
extract_fields`, PdModel.Docstring) — that a whole rendering run of any length returns from every
call and turns every recorded failure into exit status 2 or 3.
"No Python construct makes any other code path raise" is a statement about all of pydoctor,
docutils and twisted; it is decided by the end-to-end oracle (harness/props/c01.py) and stated
as partial in MANIFEST.
-/
import PdProps.C06
import PdProps.C08

namespace Schedule

/-- for every project (any import graph, cycles, any set of unparsable files) and every order,
`System.process()` terminates with nothing left unprocessed, no `assert` fails on the way, and
every module has been entered exactly once -/
theorem c01_process_total (mods : List Mod) (order : List Nat)
    (hperm : order.Perm (List.range mods.length)) :
    (run mods order).unprocessed = [] ∧ noAssert (run mods order).log ∧
      ∀ m, m < mods.length → starts (run mods order).log m = 1 :=
  let h := process_terminates_drains mods order hperm
  ⟨h.1, h.2.1, h.2.2.1⟩

/-- an unparsable file does not prevent the other files from being processed: every module whose
own file parses ends PROCESSED, whatever else is in the tree -/
theorem c01_one_bad_file (mods : List Mod) (order : List Nat)
    (hperm : order.Perm (List.range mods.length)) (m : Nat) (md : Mod)
    (hm : mods[m]? = some md) (hp : md.parses = true) :
    getSt (run mods order) m = .processed := by
  rw [one_bad_file mods order hperm m md hm]; simp [hp]

/-- the run ends with one of the documented statuses -/
theorem c01_exit_status (w : Bool) (v p : Nat) :
    exitStatus w v p ∈ [0, 2, 3] := by
  rcases exit_status_range w v p with h | h | h <;> simp [h]

example : [1, 0].Perm (List.range [Mod.mk false [] [], Mod.mk true [0] []].length) := by decide

end Schedule

namespace Docstring

/-- a rendering run: any sequence of calls of the eleven wrapped entry points (`ensure_parsed_docstring`,
`format_docstring`, `format_summary`, `format_toc`, `extract_fields`, `type2stan`, `format_constant_value`,
`pages.format_signature`, `format_class_signature`, `format_decorators`, `search.format_docstring`) on any
objects.  Every call returns — for every behaviour of the parsers, `to_stan`, `to_node`, the colourisers, the
summary walk and the toc builder — provided `extract_fields` is only called on objects that have a docstring
(its documented precondition; the docstring of an object is never changed by a call, so the precondition is
stated on the initial state).
Scope (hunter round, 2026-09-28): "the colourisers" are the `to_stan` / `to_node` of a colourised value; the
construction of that value (`colorize_pyval` / `colorize_inline_pyval`) is a total function of the model
(`Env.annotation`, `constPd`, `bases`, `decorators`).  On the real code it could raise RecursionError for an
expression of some 320 operands, outside every wrapper — found by the end-to-end oracle of
harness/props/c01.py (`crash:RecursionError:writer.flattenToFile:_pyval_repr`), repaired in the colouriser
itself by 0a8115c (`PyvalColorizer.colorize` catches it: truncated value + warning), which is what makes the
totality assumed here true of the code for that case; it never was a counterexample to this theorem about
the wrappers. -/
theorem c01_render_run_total (env : Env) (ops : List (XOp × Obj)) (st : St)
    (hx : ∀ p ∈ ops, p.1 = .core .extract → (st.objs p.2).docstring ≠ none) :
    ∀ o ∈ (xrun env st ops).1, o.isOk = true :=
  xrun_total env ops st hx

/-- what has been recorded in `system.parse_errors` is never lost during a run -/
theorem c01_errors_kept (env : Env) : ∀ (ops : List (XOp × Obj)) (st : St),
    ∀ p ∈ st.errors, p ∈ (xrun env st ops).2.errors
  | [], _, p, hp => by simpa [xrun] using hp
  | (op, obj) :: rest, st, p, hp => by
    simp only [xrun]
    exact c01_errors_kept env rest _ p ((loose_xstep env st op obj).errors_mono p hp)

/-- a run in which some docstring failure was recorded ends with exit status 2 (or 3 under -W), never 0 -/
theorem c01_failure_sets_exit_status (env : Env) (ops : List (XOp × Obj)) (st : St) (w : Bool) (v : Nat)
    (p : Sec × Obj) (hp : p ∈ st.errors) :
    Schedule.exitStatus w v (xrun env st ops).2.errors.length ∈ [2, 3] := by
  have hmem := c01_errors_kept env ops st p hp
  have hpos : 0 < (xrun env st ops).2.errors.length := List.length_pos_of_mem hmem
  unfold Schedule.exitStatus
  by_cases h1 : (w && decide (v > 0)) = true
  · simp [h1]
  · simp [h1, hpos]

/-- non-vacuity: a run over core and extended entry points on the witness environment of C08 (a `to_node`
that raises) -/
example : ∀ o ∈ (xrun envCx stCx [(.core .doc, 0), (.core .toc, 0), (.core .summary, 0), (.typ, 0), (.search, 0)]).1,
    o.isOk = true :=
  c01_render_run_total envCx _ stCx (by simp)

end Docstring
