/-
C10 — generated pages are well formed and source text never becomes markup.

Property theorems over `PdModel.Escape` (twisted's `escapeForContent` / attribute escaping /
comment escaping and `_flattenElement`; docutils' `encode`/`attval`; `html2stan`'s control
character substitution with `XMLString` as a parameter; `deprecate`'s identifier check and reST
template, with docutils' inline-literal recognition).

Main statements
  content_safe / attr_safe / encode_safe   escaped forms contain no `<`, `>` (`"`), every `&` starts an emitted entity
  text_roundtrip / attr_roundtrip          XML reading of the escaped form = the original string (all strings)
  encode_roundtrip / attval_roundtrip      same for docutils — except U+00A0 (`&nbsp;`; counterexample theorem)
  comment_safe                             an escaped comment cannot end early
  flatten_render / flatten_error_iff       bytes written = rendering of the token stream; raises iff a name is not ASCII
  flatten_balanced / flatten_safe          token stream is Dyck over tag names; every token is metachar-free
  flatten_text                             text tokens decode to the tree's text
  double_path(_param)                      text → encode → html2stan → flatten decodes to the text with `\xNN`/LF substitutions
  identifier_clean                         accepted identifiers contain no reST metacharacter
  identifier_guard (full) + sanitise_guard       the sanitised replacement always stays in its literal (historical counterexamples kept)
-/
import PdModel.Escape

set_option linter.unusedSimpArgs false
set_option linter.unusedVariables false

namespace Escape


/-! ## A. single-character replacement is a `flatMap` -/

theorem replaceChar_cons (c : Char) (r : List Char) (x : Char) (xs : List Char) :
    replaceChar c r (x :: xs) = (if x = c then r else [x]) ++ replaceChar c r xs := by
  by_cases h : x = c <;> simp [replaceChar, h]

theorem replaceChar_append (c : Char) (r a b : List Char) :
    replaceChar c r (a ++ b) = replaceChar c r a ++ replaceChar c r b := by
  induction a with
  | nil => simp [replaceChar]
  | cons x xs ih => simp [replaceChar_cons, ih]

/-- one pass of `escapeForContent` -/
def escChar (c : Char) : List Char :=
  if c = '&' then amp else if c = '<' then lt else if c = '>' then gt else [c]

/-- one pass of the attribute escaping -/
def escAttrChar (c : Char) : List Char :=
  if c = '"' then quot else escChar c

theorem escapeForContent_cons (x : Char) (xs : List Char) :
    escapeForContent (x :: xs) = escChar x ++ escapeForContent xs := by
  unfold escapeForContent escChar
  by_cases h1 : x = '&'
  · subst h1; simp [replaceChar_cons, amp, replaceChar]
  · by_cases h2 : x = '<'
    · subst h2; simp [replaceChar_cons, lt, replaceChar]
    · by_cases h3 : x = '>'
      · subst h3; simp [replaceChar_cons, gt, replaceChar]
      · simp [replaceChar_cons, h1, h2, h3]

/-- the three sequential `replace` calls are one pass over the characters -/
theorem escapeForContent_eq_flatMap (s : List Char) : escapeForContent s = s.flatMap escChar := by
  induction s with
  | nil => simp [escapeForContent, replaceChar]
  | cons x xs ih => rw [escapeForContent_cons, ih]; simp

theorem escapeAttr_cons (x : Char) (xs : List Char) :
    escapeAttr (x :: xs) = escAttrChar x ++ escapeAttr xs := by
  unfold escapeAttr escAttrChar
  rw [escapeForContent_cons, replaceChar_append]
  congr 1
  unfold escChar
  by_cases h0 : x = '"'
  · subst h0; simp [replaceChar, quot]
  · by_cases h1 : x = '&'
    · subst h1; simp [amp, replaceChar]
    · by_cases h2 : x = '<'
      · subst h2; simp [lt, replaceChar]
      · by_cases h3 : x = '>'
        · subst h3; simp [gt, replaceChar]
        · simp [h0, h1, h2, h3, replaceChar]

theorem escapeAttr_eq_flatMap (s : List Char) : escapeAttr s = s.flatMap escAttrChar := by
  induction s with
  | nil => simp [escapeAttr, escapeForContent, replaceChar]
  | cons x xs ih => rw [escapeAttr_cons, ih]; simp


/-! ## B. safety of the escaped forms -/

theorem contains_false_of_forall_ne {c : Char} {s : List Char} (h : ∀ x ∈ s, x ≠ c) :
    s.contains c = false := by
  simp only [List.contains_eq_mem, decide_eq_false_iff_not]
  intro hm; exact h c hm rfl

theorem mem_escChar {c x : Char} (h : x ∈ escChar c) : x ≠ '<' ∧ x ≠ '>' := by
  unfold escChar at h
  split at h
  · simp [amp] at h; rcases h with h | h | h | h | h <;> subst h <;> decide
  · split at h
    · simp [lt] at h; rcases h with h | h | h | h <;> subst h <;> decide
    · split at h
      · simp [gt] at h; rcases h with h | h | h | h <;> subst h <;> decide
      · simp at h; subst h; constructor <;> assumption

theorem mem_escAttrChar {c x : Char} (h : x ∈ escAttrChar c) : x ≠ '<' ∧ x ≠ '>' ∧ x ≠ '"' := by
  unfold escAttrChar at h
  split at h
  · simp [quot] at h; rcases h with h | h | h | h | h | h <;> subst h <;> decide
  · rename_i hq
    have := mem_escChar h
    refine ⟨this.1, this.2, ?_⟩
    unfold escChar at h
    split at h
    · simp [amp] at h; rcases h with h | h | h | h | h <;> subst h <;> decide
    · split at h
      · simp [lt] at h; rcases h with h | h | h | h <;> subst h <;> decide
      · split at h
        · simp [gt] at h; rcases h with h | h | h | h <;> subst h <;> decide
        · simp at h; subst h; exact hq

theorem ampOk_cons_ne {c : Char} (r : List Char) (h : c ≠ '&') : ampOk (c :: r) = ampOk r := by
  simp [ampOk, h]

theorem ampOk_escChar (c : Char) (r : List Char) : ampOk (escChar c ++ r) = ampOk r := by
  unfold escChar
  split
  · simp [amp, ampOk, startsWith]
  · split
    · simp [lt, ampOk, startsWith]
    · split
      · simp [gt, ampOk, startsWith]
      · rename_i h _ _; simp [ampOk, h]

theorem ampOk_escAttrChar (c : Char) (r : List Char) : ampOk (escAttrChar c ++ r) = ampOk r := by
  unfold escAttrChar
  split
  · simp [quot, ampOk, startsWith]
  · exact ampOk_escChar c r

theorem ampOk_flatMap_escChar (s : List Char) : ampOk (s.flatMap escChar) = true := by
  induction s with
  | nil => simp [ampOk]
  | cons x xs ih => simp [List.flatMap_cons, ampOk_escChar, ih]

theorem ampOk_flatMap_escAttrChar (s : List Char) : ampOk (s.flatMap escAttrChar) = true := by
  induction s with
  | nil => simp [ampOk]
  | cons x xs ih => simp [List.flatMap_cons, ampOk_escAttrChar, ih]

/-- **C10 / content_safe.** For every string, what `escapeForContent` writes contains no `<`, no
`>`, and every `&` in it starts one of the entities the escaping emits. -/
theorem content_safe (s : List Char) : contentSafe (escapeForContent s) = true := by
  rw [escapeForContent_eq_flatMap]
  have h : ∀ x ∈ s.flatMap escChar, x ≠ '<' ∧ x ≠ '>' := by
    intro x hx
    obtain ⟨c, _, hc⟩ := List.mem_flatMap.mp hx
    exact mem_escChar hc
  have h1 := contains_false_of_forall_ne (c := '<') (fun x hx => (h x hx).1)
  have h2 := contains_false_of_forall_ne (c := '>') (fun x hx => (h x hx).2)
  unfold contentSafe
  rw [h1, h2, ampOk_flatMap_escChar]; rfl

/-- **C10 / content_safe for attribute values**: additionally no `"` (the delimiter twisted uses). -/
theorem attr_safe (s : List Char) : attrSafe (escapeAttr s) = true := by
  rw [escapeAttr_eq_flatMap]
  have h : ∀ x ∈ s.flatMap escAttrChar, x ≠ '<' ∧ x ≠ '>' ∧ x ≠ '"' := by
    intro x hx
    obtain ⟨c, _, hc⟩ := List.mem_flatMap.mp hx
    exact mem_escAttrChar hc
  have h1 := contains_false_of_forall_ne (c := '<') (fun x hx => (h x hx).1)
  have h2 := contains_false_of_forall_ne (c := '>') (fun x hx => (h x hx).2.1)
  have h3 := contains_false_of_forall_ne (c := '"') (fun x hx => (h x hx).2.2)
  unfold attrSafe
  rw [h1, h2, h3, ampOk_flatMap_escAttrChar]; rfl

example : contentSafe ['a', '<', 'b'] = false := by decide
example : escapeForContent ['<', '&', 'l', 't', ';', '>'] =
    ['&', 'l', 't', ';', '&', 'a', 'm', 'p', ';', 'l', 't', ';', '&', 'g', 't', ';'] := by decide
example : attrSafe ['"'] = false := by decide

/-! ## C. reading back -/

theorem unescapeGo_cons_plain {c : Char} (r : List Char) (h1 : c ≠ '&') (h2 : c ≠ '<') :
    unescapeGo none (c :: r) = (unescapeGo none r).map (c :: ·) := by
  simp [unescapeGo, h1, h2]

theorem unescapeGo_amp (r : List Char) :
    unescapeGo none (amp ++ r) = (unescapeGo none r).map ('&' :: ·) := by
  simp [amp, unescapeGo, decodeEntity]
theorem unescapeGo_lt (r : List Char) :
    unescapeGo none (lt ++ r) = (unescapeGo none r).map ('<' :: ·) := by
  simp [lt, unescapeGo, decodeEntity]
theorem unescapeGo_gt (r : List Char) :
    unescapeGo none (gt ++ r) = (unescapeGo none r).map ('>' :: ·) := by
  simp [gt, unescapeGo, decodeEntity]
theorem unescapeGo_quot (r : List Char) :
    unescapeGo none (quot ++ r) = (unescapeGo none r).map ('"' :: ·) := by
  simp [quot, unescapeGo, decodeEntity]

theorem unescapeGo_escChar (c : Char) (r : List Char) :
    unescapeGo none (escChar c ++ r) = (unescapeGo none r).map (c :: ·) := by
  unfold escChar
  split
  · rename_i h; subst h; exact unescapeGo_amp r
  · split
    · rename_i h; subst h; exact unescapeGo_lt r
    · split
      · rename_i h; subst h; exact unescapeGo_gt r
      · rename_i h1 h2 _; exact unescapeGo_cons_plain r h1 h2

theorem unescapeGo_escAttrChar (c : Char) (r : List Char) :
    unescapeGo none (escAttrChar c ++ r) = (unescapeGo none r).map (c :: ·) := by
  unfold escAttrChar
  split
  · rename_i h; subst h; exact unescapeGo_quot r
  · exact unescapeGo_escChar c r

/-- **C10 / text_roundtrip (content).** Reading the escaped form as XML character data gives the
original string back, for every string (`<`, `&`, entity look-alikes, `]]>`, controls included). -/
theorem text_roundtrip (s : List Char) : unescape (escapeForContent s) = some s := by
  rw [escapeForContent_eq_flatMap]
  unfold unescape
  induction s with
  | nil => simp [unescapeGo]
  | cons x xs ih => simp [List.flatMap_cons, unescapeGo_escChar, ih]

/-- **C10 / text_roundtrip (attribute values)**, both quote characters included. -/
theorem attr_roundtrip (s : List Char) : unescape (escapeAttr s) = some s := by
  rw [escapeAttr_eq_flatMap]
  unfold unescape
  induction s with
  | nil => simp [unescapeGo]
  | cons x xs ih => simp [List.flatMap_cons, unescapeGo_escAttrChar, ih]

example : unescape ['&', 'l', 't'] = none := by decide
example : unescape ['&', 'a', 'm', 'p', ';', 'l', 't', ';'] = some ['&', 'l', 't', ';'] := by decide
example : unescape (escapeAttr ['"', '\'', '<']) = some ['"', '\'', '<'] := by decide


/-! ## D. docutils `encode` / `attval` -/

def nbspChar : Char := Char.ofNat 160

theorem mem_encodeChar {c x : Char} (h : x ∈ encodeChar c) : x ≠ '<' ∧ x ≠ '>' ∧ x ≠ '"' := by
  unfold encodeChar at h
  split at h
  · simp [amp] at h; rcases h with h | h | h | h | h <;> subst h <;> decide
  · split at h
    · simp [lt] at h; rcases h with h | h | h | h <;> subst h <;> decide
    · split at h
      · simp [quot] at h; rcases h with h | h | h | h | h | h <;> subst h <;> decide
      · split at h
        · simp [gt] at h; rcases h with h | h | h | h <;> subst h <;> decide
        · split at h
          · simp [at64] at h; rcases h with h | h | h | h | h <;> subst h <;> decide
          · split at h
            · simp [nbsp] at h; rcases h with h | h | h | h | h | h <;> subst h <;> decide
            · simp at h; subst h; refine ⟨?_, ?_, ?_⟩ <;> assumption

theorem ampOk_encodeChar (c : Char) (r : List Char) : ampOk (encodeChar c ++ r) = ampOk r := by
  unfold encodeChar
  split
  · simp [amp, ampOk, startsWith]
  · split
    · simp [lt, ampOk, startsWith]
    · split
      · simp [quot, ampOk, startsWith]
      · split
        · simp [gt, ampOk, startsWith]
        · split
          · simp [at64, ampOk, startsWith]
          · split
            · simp [nbsp, ampOk, startsWith]
            · rename_i h _ _ _ _ _; simp [ampOk, h]

theorem ampOk_flatMap_encodeChar (s : List Char) : ampOk (s.flatMap encodeChar) = true := by
  induction s with
  | nil => simp [ampOk]
  | cons x xs ih => rw [List.flatMap_cons, ampOk_encodeChar]; exact ih

/-- **C10 / content_safe for the docutils path**: `encode` leaves no `<`, `>`, `"` and every `&`
starts an emitted entity (`&amp; &lt; &gt; &quot; &#64; &nbsp;`). -/
theorem encode_safe (s : List Char) : attrSafe (encode s) = true := by
  unfold encode
  have h : ∀ x ∈ s.flatMap encodeChar, x ≠ '<' ∧ x ≠ '>' ∧ x ≠ '"' := by
    intro x hx
    obtain ⟨c, _, hc⟩ := List.mem_flatMap.mp hx
    exact mem_encodeChar hc
  have h1 := contains_false_of_forall_ne (c := '<') (fun x hx => (h x hx).1)
  have h2 := contains_false_of_forall_ne (c := '>') (fun x hx => (h x hx).2.1)
  have h3 := contains_false_of_forall_ne (c := '"') (fun x hx => (h x hx).2.2)
  unfold attrSafe
  rw [h1, h2, h3, ampOk_flatMap_encodeChar]; rfl

theorem unescapeGo_at64 (r : List Char) :
    unescapeGo none (at64 ++ r) = (unescapeGo none r).map ('@' :: ·) := by
  have h : decodeEntity ['#', '6', '4'] = some '@' := by decide
  simp [at64, unescapeGo, h]

theorem unescapeGo_encodeChar (c : Char) (r : List Char) (hc : c ≠ nbspChar) :
    unescapeGo none (encodeChar c ++ r) = (unescapeGo none r).map (c :: ·) := by
  unfold encodeChar
  split
  · rename_i h; subst h; exact unescapeGo_amp r
  · split
    · rename_i h; subst h; exact unescapeGo_lt r
    · split
      · rename_i h; subst h; exact unescapeGo_quot r
      · split
        · rename_i h; subst h; exact unescapeGo_gt r
        · split
          · rename_i h; subst h; exact unescapeGo_at64 r
          · split
            · rename_i h
              exfalso; apply hc
              apply Char.ext
              have : c.val.toNat = 160 := h
              apply UInt32.toNat_inj.mp
              simpa [nbspChar] using this
            · rename_i h1 h2 _ _ _ _; exact unescapeGo_cons_plain r h1 h2

/-- full statement, false of the code as it is (html4css1 turns U+00A0 into `&nbsp;`, which XML
does not know; `html2stan` then raises and the docstring is shown as plain text):
`theorem encode_roundtrip_full (s) : unescape (encode s) = some s` -/
theorem encode_roundtrip (s : List Char) (h : nbspChar ∉ s) : unescape (encode s) = some s := by
  unfold unescape encode
  induction s with
  | nil => simp [unescapeGo]
  | cons x xs ih =>
    have hx : x ≠ nbspChar := fun e => h (by simp [e])
    have hxs : nbspChar ∉ xs := fun e => h (by simp [e])
    simp [List.flatMap_cons, unescapeGo_encodeChar _ _ hx, ih hxs]

theorem encode_nbsp_counterexample : unescape (encode [nbspChar]) = none := by decide

theorem attval_roundtrip (s : List Char) (h : nbspChar ∉ s) :
    unescape (attval s) = some (s.map attvalWs) := by
  unfold attval
  apply encode_roundtrip
  intro hm
  obtain ⟨c, hc, he⟩ := List.mem_map.mp hm
  unfold attvalWs at he
  split at he
  · exact absurd he (by decide)
  · subst he; exact h hc

example : unescape (encode ['<', '@', '"']) = some ['<', '@', '"'] := by decide

/-! ### directive arguments and options: the attribute-value writer of docutils' `starttag` -/

/-- whatever text reaches an attribute through `attval` (image `alt`/`uri`/`target`, `class`,
`name`, `title` — the arguments and options of reST directives): no `<`, `>`, `"` survives and every
`&` starts an emitted entity. -/
theorem attval_safe (s : List Char) : attrSafe (attval s) = true := by
  unfold attval; exact encode_safe _

theorem attval_no_markup (s : List Char) : ∀ c ∈ attval s, c ≠ '<' ∧ c ≠ '>' ∧ c ≠ '"' := by
  intro c hc
  unfold attval encode at hc
  obtain ⟨y, _, hy⟩ := List.mem_flatMap.mp hc
  exact mem_encodeChar hy

/-- **C10 / starttag_attr_safe.** A start tag written by `starttag` with a directive argument as
attribute value is the rendering of the tokens `open tag, attr name (attval value), startEnd`, and
the attribute token is clean: the argument cannot close the value, the tag, or open another. -/
theorem starttag_attr_safe (tag name value : List Char) (hn : validName name = true) :
    starttag1 tag name value = render [.open tag, .attr name (attval value), .startEnd] ∧
    tokSafe (.attr name (attval value)) = true ∧
    nested st false ([.open tag, .attr name (attval value), .startEnd] ++ r) = nested (tag :: st) false r := by
  refine ⟨?_, ?_, ?_⟩
  · simp [starttag1, starttagAttr, render, renderTok]
  · simp [tokSafe, hn, attval_safe]
  · simp [nested]

/-- what the attribute writer protects against: the same argument pasted by hand into
`<pre class="rst-language-…">` (no `attval`) is not a clean attribute value -/
theorem handbuilt_attr_counterexample :
    attrSafe ['x', '"', '>', '<', 'b', '>'] = false ∧ attrSafe (attval ['x', '"', '>', '<', 'b', '>']) = true := by
  decide

example : starttag1 ['i', 'm', 'g'] ['a', 'l', 't'] ['"', '<'] =
    ['<', 'i', 'm', 'g', ' ', 'a', 'l', 't', '=', '"', '&', 'q', 'u', 'o', 't', ';', '&', 'l', 't', ';', '"', '>'] := by decide


/-! ## comments -/

theorem replaceCommentEnd_head (s : List Char) : (replaceCommentEnd s).head? = s.head? := by
  fun_cases replaceCommentEnd s <;> simp

theorem replaceCommentEnd_prefix2 (s : List Char) :
    List.isPrefixOf ['-', '>'] (replaceCommentEnd s) = true → List.isPrefixOf ['-', '>'] s = true := by
  fun_cases replaceCommentEnd s
  · intro h; simp [List.isPrefixOf] at h
  · rename_i c r hne
    intro h
    have hh := replaceCommentEnd_head r
    cases hr : replaceCommentEnd r with
    | nil => rw [hr] at h; simp [List.isPrefixOf] at h
    | cons a b =>
      rw [hr] at hh h
      cases r with
      | nil => simp at hh
      | cons a' b' =>
        simp only [List.head?_cons, Option.some.injEq] at hh
        subst hh
        simp only [List.isPrefixOf, Bool.and_eq_true, beq_iff_eq, and_true] at h ⊢
        exact h
  · intro h; simp [List.isPrefixOf] at h

theorem replaceCommentEnd_clean (s : List Char) :
    containsSub ['-', '-', '>'] (replaceCommentEnd s) = false := by
  fun_induction replaceCommentEnd s with
  | case1 r ih => simp [containsSub, startsWith, List.isPrefixOf, ih]
  | case2 c r hne ih =>
    simp only [containsSub, ih, Bool.or_false]
    cases hsw : startsWith ['-', '-', '>'] (c :: replaceCommentEnd r) with
    | false => rfl
    | true =>
      exfalso
      simp only [startsWith, List.isPrefixOf, Bool.and_eq_true, beq_iff_eq] at hsw
      have h2 := replaceCommentEnd_prefix2 r hsw.2
      cases r with
      | nil => simp [List.isPrefixOf] at h2
      | cons a b =>
        cases b with
        | nil => simp [List.isPrefixOf] at h2
        | cons a2 b2 =>
          simp only [List.isPrefixOf, Bool.and_eq_true, beq_iff_eq, and_true] at h2
          exact hne b2 hsw.1.symm (by rw [← h2.1, ← h2.2])
  | case3 => simp [containsSub]

theorem containsSub_snoc_space (d : List Char) :
    containsSub ['-', '-', '>'] (d ++ [' ']) = containsSub ['-', '-', '>'] d := by
  induction d with
  | nil => simp [containsSub, startsWith, List.isPrefixOf]
  | cons c r ih =>
    simp only [List.cons_append, containsSub, ih]
    congr 1
    cases r with
    | nil => simp [startsWith, List.isPrefixOf]
    | cons a r2 =>
      cases r2 with
      | nil => simp [startsWith, List.isPrefixOf]
      | cons b r3 => simp [startsWith, List.isPrefixOf]

/-- `escapedComment`: the escaped data can neither contain `-->` nor end in `-`, so the comment
ends exactly where the flattener ends it. -/
theorem comment_safe (s : List Char) : commentSafe (escapedComment s) = true := by
  unfold escapedComment commentSafe
  simp only
  split
  · simp [containsSub_snoc_space, replaceCommentEnd_clean]
  · rename_i h
    simp [replaceCommentEnd_clean, h]

example : escapedComment ['a', '-', '-', '>', '-'] = ['a', '-', '-', '&', 'g', 't', ';', '-', ' '] := by decide
example : commentSafe ['-', '-', '>'] = false := by decide


/-! ## E. the flattener -/

mutual
/-- every name the flattener has to `.encode("ascii")` is ASCII (attributes of a transparent tag are
never looked at) -/
def asciiNames : Stan → Bool
  | .tag name attrs children =>
    if name.isEmpty then asciiNamesList children
    else isAscii name && attrs.all (fun kv => isAscii kv.1) && asciiNamesList children
  | _ => true
def asciiNamesList : List Stan → Bool
  | [] => true
  | t :: ts => asciiNames t && asciiNamesList ts
end

mutual
/-- the characters a reader gets from text nodes and character references -/
def textOf : Stan → List Char
  | .text s => s
  | .charref n => [Char.ofNat n]
  | .tag _ _ children => textOfList children
  | _ => []
def textOfList : List Stan → List Char
  | [] => []
  | t :: ts => textOf t ++ textOfList ts
end

theorem render_append (a b : List Tok) : render (a ++ b) = render a ++ render b := by
  simp [render]

theorem render_cons (a : Tok) (b : List Tok) : render (a :: b) = renderTok a ++ render b := by
  simp [render]

theorem flattenAttrs_eq (attrs : List (List Char × List Char)) :
    flattenAttrs attrs =
      if attrs.all (fun kv => isAscii kv.1) then .ok (render (attrToks attrs))
      else .error .unicodeEncodeError := by
  induction attrs with
  | nil => simp [flattenAttrs, attrToks, render]
  | cons kv r ih =>
    obtain ⟨k, v⟩ := kv
    by_cases hk : isAscii k = true
    · by_cases hr : r.all (fun kv => isAscii kv.1) = true
      · simp [flattenAttrs, hk, ih, hr, attrToks, render_cons, renderTok]
      · simp [flattenAttrs, hk, ih, hr]
    · simp [flattenAttrs, hk]

mutual
theorem flattenStr_eq : (t : Stan) →
    flattenStr t = if asciiNames t then .ok (render (toks t)) else .error .unicodeEncodeError
  | .text s => by simp [flattenStr, asciiNames, toks, render, renderTok]
  | .comment s => by simp [flattenStr, asciiNames, toks, render, renderTok]
  | .cdata s => by simp [flattenStr, asciiNames, toks, render, renderTok]
  | .charref n => by simp [flattenStr, asciiNames, toks, render, renderTok]
  | .tag name attrs children => by
    have ihc := flattenList_eq children
    by_cases hn : name.isEmpty = true
    · simp [flattenStr, asciiNames, toks, hn, ihc]
    · by_cases ha : isAscii name = true
      · by_cases hat : attrs.all (fun kv => isAscii kv.1) = true
        · by_cases hv : writesEndTag name children = true
          · by_cases hc : asciiNamesList children = true
            · simp [flattenStr, asciiNames, toks, hn, ha, flattenAttrs_eq, hat, hv, ihc, hc,
                render_cons, render_append, renderTok, render]
            · simp [flattenStr, asciiNames, toks, hn, ha, flattenAttrs_eq, hat, hv, ihc, hc]
          · have hce : children = [] := by
              cases children with
              | nil => rfl
              | cons a b => simp [writesEndTag] at hv
            subst hce
            simp [flattenStr, asciiNames, asciiNamesList, toks, hn, ha, flattenAttrs_eq, hat, hv,
              render_cons, render_append, renderTok, render]
        · simp [flattenStr, asciiNames, hn, ha, flattenAttrs_eq, hat]
      · simp [flattenStr, asciiNames, hn, ha]
theorem flattenList_eq : (ts : List Stan) →
    flattenList ts = if asciiNamesList ts then .ok (render (toksList ts)) else .error .unicodeEncodeError
  | [] => by simp [flattenList, asciiNamesList, toksList, render]
  | t :: ts => by
    have h1 := flattenStr_eq t
    have h2 := flattenList_eq ts
    by_cases a : asciiNames t = true
    · by_cases b : asciiNamesList ts = true
      · simp [flattenList, asciiNamesList, toksList, h1, h2, a, b, render_append]
      · simp [flattenList, asciiNamesList, h1, h2, a, b]
    · simp [flattenList, asciiNamesList, h1, a]
end

/-- **C10 / flatten_render.** What the flattener writes is exactly the concatenation of the token
stream (so statements about the tokens are statements about the bytes written). -/
theorem flatten_render (t : Stan) (h : asciiNames t = true) :
    flattenStr t = .ok (render (toks t)) := by
  rw [flattenStr_eq, h]; rfl

/-- the flattener raises (UnicodeEncodeError inside FlattenerError) exactly when a tag or attribute
name is not ASCII -/
theorem flatten_error_iff (t : Stan) :
    flattenStr t = .error .unicodeEncodeError ↔ asciiNames t = false := by
  rw [flattenStr_eq]
  cases asciiNames t <;> simp

/-- **C10 / page_bytes.** The bytes `flattenToFile` puts on disk are the DOCTYPE followed by the
rendering of the token stream, character for character: every statement about the tokens
(`flatten_balanced`, `flatten_safe`, `flatten_text`) is a statement about the written file. -/
theorem page_bytes (doctype : List Char) (t : Stan) (h : asciiNames t = true) :
    flattenToFile doctype t = .ok (doctype ++ render (toks t)) := by
  unfold flattenToFile
  rw [flatten_render t h]

theorem nested_attrToks (st : List (List Char)) (attrs : List (List Char × List Char)) (r : List Tok) :
    nested st true (attrToks attrs ++ r) = nested st true r := by
  induction attrs with
  | nil => simp [attrToks]
  | cons kv a ih => obtain ⟨k, v⟩ := kv; simp [attrToks, nested, ih]

mutual
theorem nested_toks : (t : Stan) → (st : List (List Char)) → (r : List Tok) →
    nested st false (toks t ++ r) = nested st false r
  | .text s, st, r => by simp [toks, nested]
  | .comment s, st, r => by simp [toks, nested]
  | .cdata s, st, r => by simp [toks, nested]
  | .charref n, st, r => by simp [toks, nested]
  | .tag name attrs children, st, r => by
    by_cases hn : name.isEmpty = true
    · simp [toks, hn, nested_toksList children st r]
    · by_cases hv : writesEndTag name children = true
      · have := nested_toksList children (name :: st) (.close name :: r)
        simp [toks, hn, hv, nested, nested_attrToks, List.append_assoc, this]
      · simp [toks, hn, hv, nested, nested_attrToks, List.append_assoc]
theorem nested_toksList : (ts : List Stan) → (st : List (List Char)) → (r : List Tok) →
    nested st false (toksList ts ++ r) = nested st false r
  | [], st, r => by simp [toksList]
  | t :: ts, st, r => by
    simp [toksList, List.append_assoc, nested_toks t st, nested_toksList ts st r]
end

theorem attrToks_safe (attrs : List (List Char × List Char))
    (h : attrs.all (fun kv => validName kv.1) = true) : ∀ tok ∈ attrToks attrs, tokSafe tok = true := by
  induction attrs with
  | nil => simp [attrToks]
  | cons kv a ih =>
    obtain ⟨k, v⟩ := kv
    simp only [List.all_cons, Bool.and_eq_true] at h
    intro tok htok
    simp only [attrToks, List.mem_cons] at htok
    rcases htok with htok | htok
    · subst htok; simp [tokSafe, h.1, attr_safe]
    · exact ih h.2 tok htok

mutual
theorem toks_safe : (t : Stan) → namesValid t = true → ∀ tok ∈ toks t, tokSafe tok = true
  | .text s, _ => by simp [toks, tokSafe, content_safe]
  | .comment s, _ => by simp [toks, tokSafe, comment_safe]
  | .cdata s, _ => by simp [toks, tokSafe]
  | .charref n, _ => by simp [toks, tokSafe]
  | .tag name attrs children, h => by
    by_cases hn : name.isEmpty = true
    · simp only [namesValid, hn, if_true] at h
      simpa [toks, hn] using toksList_safe children h
    · simp only [namesValid, hn, Bool.false_eq_true, if_false, Bool.and_eq_true] at h
      obtain ⟨⟨hv, hattrs⟩, hch⟩ := h
      have ihc := toksList_safe children hch
      have iha := attrToks_safe attrs hattrs
      intro tok htok
      by_cases hvoid : writesEndTag name children = true
      · simp [toks, hn, hvoid] at htok
        rcases htok with h | h | h | h | h
        · subst h; simp [tokSafe, hv]
        · exact iha tok h
        · subst h; simp [tokSafe]
        · exact ihc tok h
        · subst h; simp [tokSafe, hv]
      · simp [toks, hn, hvoid] at htok
        rcases htok with h | h | h
        · subst h; simp [tokSafe, hv]
        · exact iha tok h
        · subst h; simp [tokSafe]
theorem toksList_safe : (ts : List Stan) → namesValidList ts = true → ∀ tok ∈ toksList ts, tokSafe tok = true
  | [], _ => by simp [toksList]
  | t :: ts, h => by
    simp only [namesValidList, Bool.and_eq_true] at h
    intro tok htok
    simp only [toksList, List.mem_append] at htok
    rcases htok with htok | htok
    · exact toks_safe t h.1 tok htok
    · exact toksList_safe ts h.2 tok htok
end

/-- **C10 / flatten_balanced.** For every stan tree the token stream the flattener writes is
properly nested: start tags are followed by their attributes and closed, every end tag closes the
element opened last with the same name (Dyck over tag names), nothing is left open. -/
theorem flatten_balanced (t : Stan) : nested [] false (toks t) = true := by
  have := nested_toks t [] []
  simpa [nested] using this

/-- **C10 / flatten_safe** (the model's "well formed"): with valid tag/attribute names every
token is clean — names are XML names, every attribute value is free of `<`, `>`, `"`, every text
token free of `<`, `>`, each `&` starts an emitted entity, no comment can end early. -/
theorem flatten_safe (t : Stan) (h : namesValid t = true) : (toks t).all tokSafe = true := by
  rw [List.all_eq_true]
  exact toks_safe t h

theorem decodeToks_append (a b : List Tok) :
    decodeToks (a ++ b) = (decodeToks a).bind fun x => (decodeToks b).map (x ++ ·) := by
  induction a with
  | nil => cases h : decodeToks b <;> simp [h, decodeToks]
  | cons tok a ih =>
    cases tok with
    | text s =>
      simp only [List.cons_append, decodeToks, ih]
      cases unescape s <;> cases decodeToks a <;> cases decodeToks b <;> simp
    | charref n =>
      simp only [List.cons_append, decodeToks, ih]
      cases decodeToks a <;> cases decodeToks b <;> simp
    | _ => simp only [List.cons_append, decodeToks, ih]

theorem decodeToks_attrToks (attrs : List (List Char × List Char)) : decodeToks (attrToks attrs) = some [] := by
  induction attrs with
  | nil => simp [attrToks, decodeToks]
  | cons kv a ih => obtain ⟨k, v⟩ := kv; simp [attrToks, decodeToks, ih]

mutual
theorem decodeToks_toks : (t : Stan) → decodeToks (toks t) = some (textOf t)
  | .text s => by simp [toks, decodeToks, textOf, text_roundtrip]
  | .comment s => by simp [toks, decodeToks, textOf]
  | .cdata s => by simp [toks, decodeToks, textOf]
  | .charref n => by simp [toks, decodeToks, textOf]
  | .tag name attrs children => by
    have ih := decodeToks_toksList children
    by_cases hn : name.isEmpty = true
    · simp [toks, hn, textOf, ih]
    · by_cases hv : writesEndTag name children = true
      · simp [toks, hn, hv, textOf, decodeToks, decodeToks_append, decodeToks_attrToks, ih]
      · have hce : children = [] := by
          cases children with
          | nil => rfl
          | cons a b => simp [writesEndTag] at hv
        subst hce
        simp [toks, hn, hv, textOf, textOfList, decodeToks, decodeToks_append, decodeToks_attrToks]
theorem decodeToks_toksList : (ts : List Stan) → decodeToks (toksList ts) = some (textOfList ts)
  | [] => by simp [toksList, decodeToks, textOfList]
  | t :: ts => by
    simp [toksList, textOfList, decodeToks_append, decodeToks_toks t, decodeToks_toksList ts]
end

/-- **C10 / flatten_text.** Reading the text tokens back (XML unescaping, character references)
gives exactly the characters of the tree's text nodes, in order: text stays text. -/
theorem flatten_text (t : Stan) : decodeToks (toks t) = some (textOf t) := decodeToks_toks t

example : namesValid (.tag ['p'] [(['i', 'd'], ['"'])] [.text ['<']]) = true := by decide
example : toks (.tag ['b', 'r'] [] []) = [.open ['b', 'r'], .voidEnd] := by decide
example : nested [] false [.open ['a'], .startEnd, .close ['b']] = false := by decide
example : asciiNames (.tag ['é'] [] []) = false := by decide


/-! ## F. the double path: text → docutils `encode` → `html2stan` → flatten -/

/-- source characters for which the double path is proved: everything except form feed, U+FFFE,
U+FFFF (not XML characters: `XMLString` refuses the document) and U+00A0 (html4css1 writes
`&nbsp;`, which `XMLString` does not know). -/
def srcOk (c : Char) : Bool :=
  c.toNat != 12 && c.toNat != 0xFFFE && c.toNat != 0xFFFF && c.toNat != 160

theorem escByte_encode : ∀ n, n < 32 → (escByte n).flatMap encodeChar = escByte n := by decide

theorem escByte_printable : ∀ n, n < 32 →
    (escByte n).all (fun y => 32 ≤ y.toNat && y.toNat < 127) = true := by decide

theorem toNat_lt_of_isControl {c : Char} (h : isControl c = true) : c.toNat < 32 := by
  simp [isControl] at h; exact h.1.1.1.1

theorem encodeChar_of_lt32 {c : Char} (h : c.toNat < 32) : encodeChar c = [c] := by
  have h1 : c ≠ '&' := by intro e; subst e; simp at h
  have h2 : c ≠ '<' := by intro e; subst e; simp at h
  have h3 : c ≠ '"' := by intro e; subst e; simp at h
  have h4 : c ≠ '>' := by intro e; subst e; simp at h
  have h5 : c ≠ '@' := by intro e; subst e; simp at h
  have h6 : c.toNat ≠ 160 := by omega
  simp [encodeChar, h1, h2, h3, h4, h5, h6]

theorem neutralise_entities :
    amp.flatMap neutraliseChar = amp ∧ lt.flatMap neutraliseChar = lt ∧ gt.flatMap neutraliseChar = gt ∧
    quot.flatMap neutraliseChar = quot ∧ at64.flatMap neutraliseChar = at64 ∧
    nbsp.flatMap neutraliseChar = nbsp := by decide

theorem neutralise_encodeChar (c : Char) :
    (encodeChar c).flatMap neutraliseChar = (neutraliseChar c).flatMap encodeChar := by
  by_cases hc : isControl c = true
  · have hlt := toNat_lt_of_isControl hc
    rw [encodeChar_of_lt32 hlt]
    simp [neutraliseChar, hc, escByte_encode _ hlt]
  · have hn : neutraliseChar c = [c] := by simp [neutraliseChar, hc]
    rw [hn]
    simp only [List.flatMap_cons, List.flatMap_nil, List.append_nil]
    obtain ⟨e1, e2, e3, e4, e5, e6⟩ := neutralise_entities
    unfold encodeChar
    split
    · exact e1
    · split
      · exact e2
      · split
        · exact e4
        · split
          · exact e3
          · split
            · exact e5
            · split
              · exact e6
              · simp [hn]

/-- the control-character substitution of `html2stan` commutes with docutils' `encode` -/
theorem neutralise_encode (s : List Char) : neutralise (encode s) = encode (neutralise s) := by
  unfold neutralise encode
  induction s with
  | nil => simp
  | cons x xs ih =>
    simp only [List.flatMap_cons, List.flatMap_append, ih, neutralise_encodeChar]

theorem xmlCharOk_of_plain (c : Char) (h1 : isControl c = false) (h2 : srcOk c = true) :
    xmlCharOk c.toNat = true := by
  have hv := c.valid
  simp only [UInt32.isValidChar, Nat.isValidChar] at hv
  have : c.val.toNat = c.toNat := rfl
  rw [this] at hv
  simp only [isControl, srcOk, Bool.and_eq_true, bne_iff_ne, ne_eq, decide_eq_true_eq,
    Bool.and_eq_false_iff, decide_eq_false_iff_not, Bool.not_eq_true, bne_eq_false_iff_eq] at h1 h2
  simp only [xmlCharOk, Bool.or_eq_true, beq_iff_eq, Bool.and_eq_true, decide_eq_true_eq]
  omega

theorem mem_neutralise {s : List Char} (hs : s.all srcOk = true) {y : Char} (hy : y ∈ neutralise s) :
    xmlCharOk y.toNat = true ∧ y ≠ nbspChar := by
  obtain ⟨c, hc, hyc⟩ := List.mem_flatMap.mp hy
  have hok : srcOk c = true := List.all_eq_true.mp hs c hc
  unfold neutraliseChar at hyc
  split at hyc
  · rename_i hctl
    have := List.all_eq_true.mp (escByte_printable _ (toNat_lt_of_isControl hctl)) y hyc
    simp only [Bool.and_eq_true, decide_eq_true_eq] at this
    constructor
    · simp only [xmlCharOk, Bool.or_eq_true, beq_iff_eq, Bool.and_eq_true, decide_eq_true_eq]; omega
    · intro e; subst e; simp [nbspChar] at this
  · rename_i hctl
    simp only [List.mem_singleton] at hyc
    subst hyc
    constructor
    · exact xmlCharOk_of_plain y (by simpa using hctl) hok
    · intro e; subst e; simp [srcOk, nbspChar] at hok

theorem mem_of_containsSub {p l : List Char} (h : containsSub p l = true) : ∀ x ∈ p, x ∈ l := by
  induction l with
  | nil =>
    simp only [containsSub, List.isEmpty_iff] at h
    subst h; simp
  | cons c r ih =>
    simp only [containsSub, Bool.or_eq_true] at h
    rcases h with h | h
    · intro x hx
      exact (List.isPrefixOf_iff_prefix.mp h).subset hx
    · intro x hx; exact List.mem_cons_of_mem _ (ih h x hx)

theorem lineNorm_cons_ne {c : Char} (r : List Char) (h : c ≠ '\r') : lineNorm (c :: r) = c :: lineNorm r := by
  rw [lineNorm]
  · intro r' e _; exact h e
  · intro e; exact h e

theorem lineNorm_append_noCR (a b : List Char) (h : ∀ x ∈ a, x ≠ '\r') :
    lineNorm (a ++ b) = a ++ lineNorm b := by
  induction a with
  | nil => simp
  | cons x xs ih =>
    rw [List.cons_append, lineNorm_cons_ne _ (h x (by simp)), ih (fun y hy => h y (by simp [hy]))]
    simp

theorem encodeChar_noCR {c : Char} (hc : c ≠ '\r') : ∀ x ∈ encodeChar c, x ≠ '\r' := by
  intro x hx
  unfold encodeChar at hx
  split at hx
  · simp [amp] at hx; rcases hx with h | h | h | h | h <;> subst h <;> decide
  · split at hx
    · simp [lt] at hx; rcases hx with h | h | h | h <;> subst h <;> decide
    · split at hx
      · simp [quot] at hx; rcases hx with h | h | h | h | h | h <;> subst h <;> decide
      · split at hx
        · simp [gt] at hx; rcases hx with h | h | h | h <;> subst h <;> decide
        · split at hx
          · simp [at64] at hx; rcases hx with h | h | h | h | h <;> subst h <;> decide
          · split at hx
            · simp [nbsp] at hx; rcases hx with h | h | h | h | h | h <;> subst h <;> decide
            · simp at hx; subst hx; exact hc

theorem encodeChar_head (a : Char) : ∃ h t, encodeChar a = h :: t ∧ (h = '&' ∨ h = a) := by
  unfold encodeChar
  split
  · exact ⟨'&', _, rfl, Or.inl rfl⟩
  · split
    · exact ⟨'&', _, rfl, Or.inl rfl⟩
    · split
      · exact ⟨'&', _, rfl, Or.inl rfl⟩
      · split
        · exact ⟨'&', _, rfl, Or.inl rfl⟩
        · split
          · exact ⟨'&', _, rfl, Or.inl rfl⟩
          · split
            · exact ⟨'&', _, rfl, Or.inl rfl⟩
            · exact ⟨a, [], rfl, Or.inr rfl⟩

theorem encode_cons (c : Char) (r : List Char) : encode (c :: r) = encodeChar c ++ encode r := by
  simp [encode]

theorem lineNorm_cr_ne (r : List Char) (h : ∀ r', r = '\n' :: r' → False) :
    lineNorm ('\r' :: r) = '\n' :: lineNorm r := by
  rw [lineNorm]
  intro r' e; cases e; exact h r' rfl

/-- line-end normalisation commutes with `encode` (which neither emits nor touches CR/LF) -/
theorem lineNorm_encode (u : List Char) : lineNorm (encode u) = encode (lineNorm u) := by
  fun_induction lineNorm u with
  | case1 r ih =>
    have e1 : encodeChar '\r' = ['\r'] := by decide
    have e2 : encodeChar '\n' = ['\n'] := by decide
    simp only [encode_cons, e1, e2, List.cons_append, List.nil_append]
    rw [lineNorm, ih]
  | case2 r hne ih =>
    have e1 : encodeChar '\r' = ['\r'] := by decide
    have e2 : encodeChar '\n' = ['\n'] := by decide
    simp only [encode_cons, e1, e2, List.cons_append, List.nil_append]
    rw [lineNorm_cr_ne, ih]
    intro r' e
    cases r with
    | nil => simp [encode] at e
    | cons a r2 =>
      obtain ⟨h, t, he, hh⟩ := encodeChar_head a
      rw [encode_cons, he] at e
      simp only [List.cons_append, List.cons.injEq] at e
      rcases hh with hh | hh
      · rw [hh] at e; exact absurd e.1 (by decide)
      · rw [hh] at e; exact hne r2 (by rw [e.1])
  | case3 c r h1 h2 ih =>
    have hc : c ≠ '\r' := h2
    rw [encode_cons, lineNorm_append_noCR _ _ (encodeChar_noCR hc), ih, encode_cons]
  | case4 => simp [encode, lineNorm]

theorem mem_lineNorm {u : List Char} {x : Char} (h : x ∈ lineNorm u) : x ∈ u ∨ x = '\n' := by
  fun_induction lineNorm u with
  | case1 r ih =>
    simp only [List.mem_cons] at h ⊢
    rcases h with h | h
    · exact Or.inr h
    · rcases ih h with h | h
      · exact Or.inl (Or.inr (Or.inr h))
      · exact Or.inr h
  | case2 r hne ih =>
    simp only [List.mem_cons] at h ⊢
    rcases h with h | h
    · exact Or.inr h
    · rcases ih h with h | h
      · exact Or.inl (Or.inr h)
      · exact Or.inr h
  | case3 c r h1 h2 ih =>
    simp only [List.mem_cons] at h ⊢
    rcases h with h | h
    · exact Or.inl (Or.inl h)
    · rcases ih h with h | h
      · exact Or.inl (Or.inr h)
      · exact Or.inr h
  | case4 => simp at h

/-- the contract assumed of `XMLString`, proved of the model `xmlText`: on the encoding of a text
made of XML characters without U+00A0 it returns that text with line ends normalised. -/
theorem xmlText_contract (u : List Char)
    (hu : ∀ c ∈ u, xmlCharOk c.toNat = true ∧ c ≠ nbspChar) :
    xmlText (encode u) = some (lineNorm u) := by
  have hall : (encode u).all (fun c => xmlCharOk c.toNat) = true := by
    rw [List.all_eq_true]
    intro x hx
    obtain ⟨y, hy, hxy⟩ := List.mem_flatMap.mp hx
    unfold encodeChar at hxy
    split at hxy
    · simp [amp] at hxy; rcases hxy with h | h | h | h | h <;> subst h <;> decide
    · split at hxy
      · simp [lt] at hxy; rcases hxy with h | h | h | h <;> subst h <;> decide
      · split at hxy
        · simp [quot] at hxy; rcases hxy with h | h | h | h | h | h <;> subst h <;> decide
        · split at hxy
          · simp [gt] at hxy; rcases hxy with h | h | h | h <;> subst h <;> decide
          · split at hxy
            · simp [at64] at hxy; rcases hxy with h | h | h | h | h <;> subst h <;> decide
            · split at hxy
              · simp [nbsp] at hxy; rcases hxy with h | h | h | h | h | h <;> subst h <;> decide
              · simp at hxy; subst hxy; exact (hu x hy).1
  have hsub : containsSub [']', ']', '>'] (encode u) = false := by
    cases hcs : containsSub [']', ']', '>'] (encode u) with
    | false => rfl
    | true =>
      exfalso
      have hm := mem_of_containsSub hcs '>' (by simp)
      obtain ⟨y, _, hxy⟩ := List.mem_flatMap.mp hm
      exact (mem_encodeChar hxy).2.1 rfl
  unfold xmlText
  rw [hall, hsub, lineNorm_encode]
  simp only [Bool.not_false, Bool.and_self, if_true]
  apply encode_roundtrip
  intro hm
  rcases mem_lineNorm hm with h | h
  · exact (hu _ h).2 rfl
  · exact absurd h (by decide)

/-- **C10 / double_path, `XMLString` as a parameter.** Whatever parser is used, if it reads the
`encode`d form of legal text back as that text (line ends normalised), then text → `encode` →
control-character substitution → parse → stan text → flatten → read as XML yields the original
text with the documented substitutions (`\xNN` for C0 controls, LF for CR/CRLF) and nothing else. -/
theorem double_path_param (parse : List Char → Option (List Char))
    (hparse : ∀ u, (∀ c ∈ u, xmlCharOk c.toNat = true ∧ c ≠ nbspChar) → parse (encode u) = some (lineNorm u))
    (s : List Char) (hs : s.all srcOk = true) :
    (parse (neutralise (encode s))).bind (fun t => unescape (escapeForContent t)) =
      some (lineNorm (neutralise s)) := by
  rw [neutralise_encode, hparse _ (fun c hc => mem_neutralise hs hc)]
  simp [text_roundtrip]

/-- **C10 / double_path** with the model of `XMLString` (`xmlText`, tied to expat by the
`html2stan`/`doublepath` correspondence streams).
Full statement (all `s`) is false of the code: for `s` containing FF, U+FFFE, U+FFFF or U+00A0
`html2stanText (encode s) = none` (`SAXParseException`; the docstring degrades to plain text). -/
theorem double_path (s : List Char) (hs : s.all srcOk = true) :
    (html2stanText (encode s)).bind (fun t => unescape (escapeForContent t)) =
      some (lineNorm (neutralise s)) :=
  double_path_param xmlText xmlText_contract s hs

theorem double_path_counterexample_ff : html2stanText (encode [Char.ofNat 12]) = none := by decide
theorem double_path_counterexample_nbsp : html2stanText (encode [nbspChar]) = none := by decide

example : [Char.ofNat 1, '<', '\r', '\n', 'x'].all srcOk = true := by decide
example : lineNorm (neutralise [Char.ofNat 1, '<', '\r', '\n', 'x']) = ['\\', 'x', '0', '1', '<', '\n', 'x'] := by decide



/-! ## H. markup that pydoctor itself builds from strings (model section 7) -/

/-- the text path of `html2stan` on `encode`d text, without the final flatten -/
theorem html2stan_encode (u : List Char) (h : u.all srcOk = true) :
    html2stanText (encode u) = some (lineNorm (neutralise u)) := by
  unfold html2stanText
  rw [neutralise_encode]
  exact xmlText_contract _ (fun c hc => mem_neutralise h hc)

/-- **C10 / sig_default_safe.** For *every* string default value the signature that is written is
either the constant `(...)` or the two constant quote spans around a text that contains no `<`,
`>` and only emitted entities: the value never contributes markup. -/
theorem sig_default_safe (s : List Char) :
    formatSigDefault s = sigBroken ∨
    ∃ t, formatSigDefault s = sigOpen ++ escapeForContent t ++ sigClose ∧
      contentSafe (escapeForContent t) = true ∧ unescape (escapeForContent t) = some t := by
  unfold formatSigDefault
  cases html2stanText (encode (strEscape s)) with
  | none => exact Or.inl rfl
  | some t => exact Or.inr ⟨t, rfl, content_safe t, text_roundtrip t⟩

theorem mem_strEscapeChar {c x : Char} (h : x ∈ strEscapeChar c) :
    (x = c ∧ c ≠ Char.ofNat 12) ∨ (32 ≤ x.toNat ∧ x.toNat < 127) := by
  unfold strEscapeChar at h
  split at h
  · simp at h; rcases h with e | e <;> subst e <;> exact Or.inr (by decide)
  · split at h
    · simp at h; rcases h with e | e <;> subst e <;> exact Or.inr (by decide)
    · split at h
      · simp at h; rcases h with e | e <;> subst e <;> exact Or.inr (by decide)
      · split at h
        · simp at h; rcases h with e | e <;> subst e <;> exact Or.inr (by decide)
        · split at h
          · simp at h; rcases h with e | e <;> subst e <;> exact Or.inr (by decide)
          · split at h
            · simp at h; rcases h with e | e <;> subst e <;> exact Or.inr (by decide)
            · split at h
              · simp at h; subst h; exact Or.inr (by decide)
              · split at h
                · simp at h; rcases h with e | e | e <;> subst e <;> exact Or.inr (by decide)
                · rename_i _ _ _ _ hff _ _ _
                  simp at h; subst h; exact Or.inl ⟨rfl, hff⟩

theorem strEscape_srcOk (s : List Char)
    (h : ∀ c ∈ s, c.toNat ≠ 160 ∧ c.toNat ≠ 0xFFFE ∧ c.toNat ≠ 0xFFFF) : (strEscape s).all srcOk = true := by
  rw [List.all_eq_true]
  intro x hx
  obtain ⟨c, hc, hxc⟩ := List.mem_flatMap.mp hx
  have hcs := h c hc
  rcases mem_strEscapeChar hxc with ⟨e, hff⟩ | hr
  · subst e
    have hne : x.toNat ≠ 12 := by
      intro e; apply hff; apply Char.ext; apply UInt32.toNat_inj.mp; simpa using e
    simp [srcOk, hcs.1, hcs.2.1, hcs.2.2, hne]
  · simp only [srcOk, Bool.and_eq_true, bne_iff_ne, ne_eq]
    omega

/-- **C10 / sig_default_text.** Unless the value contains U+00A0, U+FFFE or U+FFFF the signature
shows exactly the escaped value (`_str_escape`, then `\xNN` for the remaining C0 controls). -/
theorem sig_default_text (s : List Char)
    (h : ∀ c ∈ s, c.toNat ≠ 160 ∧ c.toNat ≠ 0xFFFE ∧ c.toNat ≠ 0xFFFF) :
    formatSigDefault s =
      sigOpen ++ escapeForContent (lineNorm (neutralise (strEscape s))) ++ sigClose := by
  unfold formatSigDefault
  rw [html2stan_encode _ (strEscape_srcOk s h)]

/-- … and with U+00A0 the whole signature is replaced by `(...)` (the known `&nbsp;` defect, C09) -/
theorem sig_default_nbsp_counterexample : formatSigDefault ['a', nbspChar] = sigBroken := by decide

example : formatSigDefault ['<', '\''] =
    sigOpen ++ ['&', 'l', 't', ';', '\\', '\''] ++ sigClose := by decide

/-! ### URLs -/

/-- what `quote` can emit -/
def urlChar (c : Char) : Bool :=
  quoteSafe c || c = '%' || (65 ≤ c.toNat && c.toNat ≤ 70)

theorem hexUp_urlChar : ∀ n, n < 16 → urlChar (hexUp n) = true := by decide

theorem utf8Bytes_lt (n : Nat) (hn : n < 0x110000) : ∀ b ∈ utf8Bytes n, b < 256 := by
  intro b hb
  unfold utf8Bytes at hb
  split at hb
  · simp at hb; omega
  · split at hb
    · simp at hb; omega
    · split at hb
      · simp at hb; omega
      · simp at hb; omega

theorem char_toNat_lt (c : Char) : c.toNat < 0x110000 := by
  have hv := c.valid
  simp only [UInt32.isValidChar, Nat.isValidChar] at hv
  have : c.val.toNat = c.toNat := rfl
  omega

theorem quote_clean (s : List Char) : ∀ c ∈ quote s, urlChar c = true := by
  intro c hc
  obtain ⟨x, _, hcx⟩ := List.mem_flatMap.mp hc
  unfold quoteChar at hcx
  split at hcx
  · simp only [List.mem_singleton] at hcx; subst hcx
    rename_i h; simp [urlChar, h]
  · obtain ⟨b, hb, hcb⟩ := List.mem_flatMap.mp hcx
    have hlt := utf8Bytes_lt _ (char_toNat_lt x) b hb
    simp only [List.mem_cons, List.mem_nil_iff, or_false] at hcb
    rcases hcb with e | e | e
    · subst e; decide
    · subst e; exact hexUp_urlChar _ (by omega)
    · subst e; exact hexUp_urlChar _ (by omega)

theorem urlChar_plain {c : Char} (h : urlChar c = true) :
    c ≠ '&' ∧ c ≠ '<' ∧ c ≠ '>' ∧ c ≠ '"' ∧ c ≠ '\'' ∧ c ≠ ' ' ∧ c ≠ '#' := by
  refine ⟨?_, ?_, ?_, ?_, ?_, ?_, ?_⟩ <;> (intro e; subst e; revert h; decide)

theorem escapeAttr_id (s : List Char) (h : ∀ c ∈ s, c ≠ '&' ∧ c ≠ '<' ∧ c ≠ '>' ∧ c ≠ '"') :
    escapeAttr s = s := by
  rw [escapeAttr_eq_flatMap]
  induction s with
  | nil => rfl
  | cons x r ih =>
    have hx := h x (by simp)
    simp [List.flatMap_cons, escAttrChar, escChar, hx.1, hx.2.1, hx.2.2.1, hx.2.2.2,
      ih (fun c hc => h c (by simp [hc]))]

theorem docUrl_chars (root : Bool) (p : List Char) (a : Option (List Char)) :
    ∀ c ∈ docUrl root p a, urlChar c = true ∨ c = '#' := by
  have hidx : ∀ c ∈ indexHtml, urlChar c = true := by decide
  have hdot : ∀ c ∈ dotHtml, urlChar c = true := by decide
  have hpage : ∀ c ∈ (if root then indexHtml else quote p ++ dotHtml), urlChar c = true := by
    intro c hc
    cases root
    · simp only [Bool.false_eq_true, if_false, List.mem_append] at hc
      rcases hc with hc | hc
      · exact quote_clean p c hc
      · exact hdot c hc
    · exact hidx c (by simpa using hc)
  intro c hc
  unfold docUrl at hc
  cases a with
  | none => exact Or.inl (hpage c (by simpa using hc))
  | some n =>
    simp only [List.mem_append, List.mem_cons] at hc
    rcases hc with hc | hc | hc
    · exact Or.inl (hpage c hc)
    · exact Or.inr hc
    · exact Or.inl (quote_clean n c hc)

/-- **C10 / url_href_verbatim.** Whatever the (module file, class, member) names are,
`Documentable.url` consists of unreserved ASCII, `/`, `%XX` and at most one `#`: the flattener writes
it into `href="…"` unchanged, it needs no escaping and cannot end the attribute; the same for the
same-page form `taglink` uses. -/
theorem url_href_verbatim (root : Bool) (p : List Char) (a : Option (List Char)) (cur : List Char) :
    escapeAttr (docUrl root p a) = docUrl root p a ∧ attrSafe (docUrl root p a) = true ∧
    escapeAttr (taglinkHref cur (docUrl root p a)) = taglinkHref cur (docUrl root p a) := by
  have hch := docUrl_chars root p a
  have hplain : ∀ c ∈ docUrl root p a, c ≠ '&' ∧ c ≠ '<' ∧ c ≠ '>' ∧ c ≠ '"' := by
    intro c hc
    rcases hch c hc with h | h
    · have := urlChar_plain h; exact ⟨this.1, this.2.1, this.2.2.1, this.2.2.2.1⟩
    · subst h; decide
  refine ⟨escapeAttr_id _ hplain, ?_, ?_⟩
  · have := attr_safe (docUrl root p a)
    rwa [escapeAttr_id _ hplain] at this
  · apply escapeAttr_id
    intro c hc
    unfold taglinkHref at hc
    split at hc
    · exact hplain c (List.mem_of_mem_drop hc)
    · exact hplain c hc

example : docUrl false ['p', '.', '<', 'é'] (some ['"']) =
    ['p', '.', '%', '3', 'C', '%', 'C', '3', '%', 'A', '9', '.', 'h', 't', 'm', 'l', '#', '%', '2', '2'] := by decide

/-! ### `node2stan.HTMLTranslator.starttag`, `_valid_identifier` -/

def starttagClassToks (tag v : List Char) : List Tok :=
  let v1 := rstPrefix v
  let v2 := if isHeadingTag tag then ['h', 'e', 'a', 'd', 'i', 'n', 'g'] else v1
  let ws := splitWords v2
  let cls := classWords ws []
  [.open tag] ++
    (if cls.isEmpty then [] else [.attr ['c', 'l', 'a', 's', 's'] (attval (joinSp cls))]) ++
    (match languages ws with | [] => [] | l :: _ => [.attr ['l', 'a', 'n', 'g'] (attval l)]) ++ [.startEnd]

def starttagHrefToks (v : List Char) : List Tok :=
  [.open ['a'], .attr ['h', 'r', 'e', 'f'] (attval (mungeHref v).1)] ++
    (if (mungeHref v).2 then [.attr ['t', 'a', 'r', 'g', 'e', 't'] (attval ['_', 't', 'o', 'p'])] else []) ++ [.startEnd]

/-- **C10 / node2stan_starttag_safe.** The start tags pydoctor's translator writes for a class
value or an href (after its `rst-` munging, docutils' word splitting, `language-` handling) are
renderings of token streams whose attribute tokens are all clean — whatever the value. -/
theorem node2stan_starttag_safe (tag v : List Char) :
    starttagClass tag v = render (starttagClassToks tag v) ∧
    (starttagClassToks tag v).tail.all tokSafe = true ∧
    starttagHref v = render (starttagHrefToks v) ∧
    (starttagHrefToks v).tail.all tokSafe = true := by
  have k1 : validName ['c', 'l', 'a', 's', 's'] = true := by decide
  have k2 : validName ['l', 'a', 'n', 'g'] = true := by decide
  have k3 : validName ['h', 'r', 'e', 'f'] = true := by decide
  have k4 : validName ['t', 'a', 'r', 'g', 'e', 't'] = true := by decide
  refine ⟨?_, ?_, ?_, ?_⟩
  · unfold starttagClass starttagClassToks
    simp only
    generalize classWords _ [] = cls
    generalize languages _ = langs
    cases hc : cls.isEmpty <;> cases langs <;>
      simp [hc, render, renderTok, starttagAttr]
  · unfold starttagClassToks
    simp only
    generalize classWords _ [] = cls
    generalize languages _ = langs
    cases hc : cls.isEmpty <;> cases langs <;> simp [hc, tokSafe, attval_safe, k1, k2]
  · unfold starttagHref starttagHrefToks
    cases h2 : (mungeHref v).2 <;> simp [h2, render, renderTok, starttagAttr]
  · unfold starttagHrefToks
    cases h2 : (mungeHref v).2 <;> simp [h2, tokSafe, attval_safe, k3, k4]

theorem rstPrefix_prefixed (v : List Char) : rstDash.isPrefixOf (rstPrefix v) = true := by
  unfold rstPrefix
  split
  · assumption
  · simp [rstDash, List.isPrefixOf]

/-- a fragment link always points at an `rst-` anchor (ids are prefixed the same way) -/
theorem mungeHref_fragment (h : List Char) :
    (['#'] ++ rstDash).isPrefixOf (mungeHref ('#' :: h)).1 = true ∧ (mungeHref ('#' :: h)).2 = false := by
  unfold mungeHref
  simp only
  split
  · rename_i hp
    have : h = rstDash ++ h.drop 4 := by
      have := List.isPrefixOf_iff_prefix.mp hp
      obtain ⟨t, ht⟩ := this
      rw [← ht]; simp [rstDash]
    rw [this]; simp [rstDash, List.isPrefixOf]
  · simp [rstDash, List.isPrefixOf]

theorem validIdentifierCss_clean (s : List Char) :
    ∀ c ∈ validIdentifierCss s, (isLetter c || isDigit c || c = '_') = true := by
  intro c hc
  exact (List.mem_filter.mp hc).2

example : starttagClass ['d', 'i', 'v'] ['x', '"', '>', ' ', 'l', 'a', 'n', 'g', 'u', 'a', 'g', 'e', '-', 'p', 'y'] =
    ['<', 'd', 'i', 'v', ' ', 'c', 'l', 'a', 's', 's', '=', '"', 'r', 's', 't', '-', 'x', '&', 'q', 'u', 'o', 't', ';', '&', 'g', 't', ';', '"',
     ' ', 'l', 'a', 'n', 'g', '=', '"', 'p', 'y', '"', '>'] := by decide



/-! ### the math filter (9d87f54) and introspected signatures (cac0f25) -/

mutual
/-- the (non-transparent) elements of a fragment: name and attributes -/
def elementsOf : Stan → List (List Char × List (List Char × List Char))
  | .tag name attrs children =>
    if name.isEmpty then elementsOfList children else (name, attrs) :: elementsOfList children
  | _ => []
def elementsOfList : List Stan → List (List Char × List (List Char × List Char))
  | [] => []
  | t :: ts => elementsOf t ++ elementsOfList ts
end

mutual
theorem isMathHtml_elements : (t : Stan) → isMathHtml t = true → ∀ e ∈ elementsOf t,
    mathTags.contains e.1 = true ∧ e.2.all (fun kv => mathAttrs.contains kv.1) = true ∧
      scriptHref (hrefOf e.2) = false
  | .text _, _ => by simp [elementsOf]
  | .comment _, _ => by simp [elementsOf]
  | .cdata _, _ => by simp [elementsOf]
  | .charref _, _ => by simp [elementsOf]
  | .tag name attrs children, h => by
    by_cases hn : name.isEmpty = true
    · simp only [isMathHtml, hn, if_true] at h
      simpa [elementsOf, hn] using isMathHtmlList_elements children h
    · simp only [isMathHtml, hn, Bool.false_eq_true, if_false, Bool.and_eq_true, Bool.not_eq_true'] at h
      obtain ⟨⟨⟨h1, h2⟩, h3⟩, h4⟩ := h
      intro e he
      simp only [elementsOf, hn, Bool.false_eq_true, if_false, List.mem_cons] at he
      rcases he with he | he
      · subst he; exact ⟨h1, h2, h3⟩
      · exact isMathHtmlList_elements children h4 e he
theorem isMathHtmlList_elements : (ts : List Stan) → isMathHtmlList ts = true → ∀ e ∈ elementsOfList ts,
    mathTags.contains e.1 = true ∧ e.2.all (fun kv => mathAttrs.contains kv.1) = true ∧
      scriptHref (hrefOf e.2) = false
  | [], _ => by simp [elementsOfList]
  | t :: ts, h => by
    simp only [isMathHtmlList, Bool.and_eq_true] at h
    intro e he
    simp only [elementsOfList, List.mem_append] at he
    rcases he with he | he
    · exact isMathHtml_elements t h.1 e he
    · exact isMathHtmlList_elements ts h.2 e he
end

/-- **C10 / math_filter_safe.** Whatever docutils' math2html produced for a formula (`html`, with
its parse `parsed`), what `visit_math` puts on the page is either that HTML — and then every element
of it is one of math2html's seventeen, carries only `class`/`style`/`href`/`name`, no `href` starts
with `javascript:`/`data:`/`vbscript:` (a string-prefix test, not a URL filter), and it holds no comment
or CDATA section (`math_kept_html_escaped`) — or the start tag of `<tt>`/`<pre>`, the LaTeX source
`encode`d (no `<`, `>`, `"`, every `&` an emitted entity), and the end tag. -/
theorem math_filter_safe (html : List Char) (parsed : Option Stan) (src : List Char) (isBlock : Bool) :
    (visitMath html parsed src isBlock = html ∧ ∃ t, parsed = some t ∧ ∀ e ∈ elementsOf t,
        mathTags.contains e.1 = true ∧ e.2.all (fun kv => mathAttrs.contains kv.1) = true ∧
          scriptHref (hrefOf e.2) = false) ∨
    (∃ tag, visitMath html parsed src isBlock =
        starttagClass tag ['m', 'a', 't', 'h'] ++ encode src ++ ['<', '/'] ++ tag ++ ['>'] ∧
      attrSafe (encode src) = true) := by
  unfold visitMath
  cases parsed with
  | none => exact Or.inr ⟨if isBlock then ['p', 'r', 'e'] else ['t', 't'], by simp, encode_safe src⟩
  | some t =>
    by_cases h : isMathHtml t = true
    · exact Or.inl ⟨by simp [h], t, rfl, isMathHtml_elements t h⟩
    · exact Or.inr ⟨if isBlock then ['p', 'r', 'e'] else ['t', 't'], by simp [h], encode_safe src⟩

/-- history (9d87f54 … 00f0a02~1, finding `marker-markup-unescaped:math-cdata` / `:math-comment`, fixed by
00f0a02): the walk looked at elements only, so a CDATA section or a comment inside math2html's HTML was
accepted — and the flattener writes both verbatim, `<`, `>`, `"` of the formula's text unescaped (for an
HTML reader `<![CDATA[>` and `<!-->` end at once and what follows is live markup). The walk as it is
refuses both (last two conjuncts). -/
theorem math_filter_cdata_counterexample :
    isMathHtmlOld (.tag [] [] [.tag ['s', 'p', 'a', 'n'] [] [.cdata ['>', '<', 'i', 'm', 'g', '/', '>']]]) = true ∧
    isMathHtmlOld (.tag [] [] [.tag ['s', 'p', 'a', 'n'] [] [.comment ['>', '<', 'i', 'm', 'g', '/', '>']]]) = true ∧
    (toks (.cdata ['>', '<', 'i', 'm', 'g', '/', '>'])) = [.cdata ['>', '<', 'i', 'm', 'g', '/', '>']] ∧
    renderTok (.comment ['>', '<', 'i', 'm', 'g', '/', '>']) =
      ['<', '!', '-', '-', '>', '<', 'i', 'm', 'g', '/', '>', '-', '-', '>'] ∧
    isMathHtml (.tag [] [] [.tag ['s', 'p', 'a', 'n'] [] [.cdata ['>', '<', 'i', 'm', 'g', '/', '>']]]) = false ∧
    isMathHtml (.tag [] [] [.tag ['s', 'p', 'a', 'n'] [] [.comment ['>', '<', 'i', 'm', 'g', '/', '>']]]) = false := by
  decide

theorem mathTags_valid : ∀ n ∈ mathTags, validName n = true := by decide
theorem mathAttrs_valid : ∀ n ∈ mathAttrs, validName n = true := by decide

/-- a token the flattener writes without escaping its data -/
def rawTok : Tok → Bool
  | .comment _ => true
  | .cdata _ => true
  | _ => false

theorem attrToks_notRaw (attrs : List (List Char × List Char)) : ∀ tok ∈ attrToks attrs, rawTok tok = false := by
  induction attrs with
  | nil => simp [attrToks]
  | cons kv r ih =>
    obtain ⟨k, v⟩ := kv
    intro tok ht
    simp only [attrToks, List.mem_cons] at ht
    rcases ht with ht | ht
    · subst ht; rfl
    · exact ih tok ht

mutual
theorem isMathHtml_clean : (t : Stan) → isMathHtml t = true →
    namesValid t = true ∧ ∀ tok ∈ toks t, rawTok tok = false
  | .text _, _ => by simp [namesValid, toks, rawTok]
  | .charref _, _ => by simp [namesValid, toks, rawTok]
  | .comment _, h => by simp [isMathHtml] at h
  | .cdata _, h => by simp [isMathHtml] at h
  | .tag name attrs children, h => by
    by_cases hn : name.isEmpty = true
    · simp only [isMathHtml, hn, if_true] at h
      have ih := isMathHtmlList_clean children h
      refine ⟨by simp [namesValid, hn, ih.1], ?_⟩
      simpa [toks, hn] using ih.2
    · simp only [isMathHtml, hn, Bool.false_eq_true, if_false, Bool.and_eq_true, Bool.not_eq_true'] at h
      obtain ⟨⟨⟨h1, h2⟩, _⟩, h4⟩ := h
      have ih := isMathHtmlList_clean children h4
      have hv : validName name = true := mathTags_valid name (by simpa using h1)
      have ha : attrs.all (fun kv => validName kv.1) = true := by
        rw [List.all_eq_true] at h2 ⊢
        intro kv hkv
        exact mathAttrs_valid kv.1 (by simpa using h2 kv hkv)
      refine ⟨by simp [namesValid, hv, ha, ih.1], ?_⟩
      intro tok htok
      have hattr : ∀ tok ∈ attrToks attrs, rawTok tok = false := attrToks_notRaw attrs
      by_cases hw : writesEndTag name children = true
      · simp [toks, hn, hw] at htok
        rcases htok with e | e | e | e | e
        · subst e; rfl
        · exact hattr tok e
        · subst e; rfl
        · exact ih.2 tok e
        · subst e; rfl
      · simp [toks, hn, hw] at htok
        rcases htok with e | e | e
        · subst e; rfl
        · exact hattr tok e
        · subst e; rfl
theorem isMathHtmlList_clean : (ts : List Stan) → isMathHtmlList ts = true →
    namesValidList ts = true ∧ ∀ tok ∈ toksList ts, rawTok tok = false
  | [], _ => by simp [namesValidList, toksList]
  | t :: ts, h => by
    simp only [isMathHtmlList, Bool.and_eq_true] at h
    have h1 := isMathHtml_clean t h.1
    have h2 := isMathHtmlList_clean ts h.2
    refine ⟨by simp [namesValidList, h1.1, h2.1], ?_⟩
    intro tok htok
    simp only [toksList, List.mem_append] at htok
    rcases htok with e | e
    · exact h1.2 tok e
    · exact h2.2 tok e
end

/-- **C10 / math_kept_html_escaped.** HTML that the math filter keeps has no comment and no CDATA
section, and when it is flattened every token is clean (`flatten_safe`): every character of the
formula's text is written escaped — there is no place left where it is copied verbatim. -/
theorem math_kept_html_escaped (t : Stan) (h : isMathHtml t = true) :
    (toks t).all tokSafe = true ∧ (∀ tok ∈ toks t, rawTok tok = false) ∧ nested [] false (toks t) = true :=
  ⟨flatten_safe t (isMathHtml_clean t h).1, (isMathHtml_clean t h).2, flatten_balanced t⟩


/-- the payloads of the finding `source-text-became-markup:math-*` are refused by the walk: an
element that is not math2html's, an event-handler attribute, a script URL -/
theorem math_filter_rejects :
    isMathHtml (.tag [] [] [.tag ['s', 'c', 'r', 'i', 'p', 't'] [] [.text ['x']]]) = false ∧
    isMathHtml (.tag [] [] [.tag ['b'] [(['o', 'n', 'c', 'l', 'i', 'c', 'k'], ['x'])] []]) = false ∧
    isMathHtml (.tag [] [] [.tag ['a'] [(['h', 'r', 'e', 'f'], [' ', 'J', 'a', 'v', 'a', 'S', 'c', 'r', 'i', 'p', 't', ':', 'x'])] []]) = false ∧
    isMathHtml (.tag [] [] [.tag ['s', 'p', 'a', 'n'] [(['c', 'l', 'a', 's', 's'], ['t', 'e', 'x', 't'])] [.tag ['i'] [] [.text ['a']]]]) = true := by
  decide

/-- **C10 / introspected_sig_safe.** For every repr text the signature of an introspected function
is `(...)` or `(a=` + clean text + `)`: a default value cannot contribute markup. -/
theorem introspected_sig_safe (r : List Char) :
    formatSigIntrospected r = sigBroken ∨
    ∃ t, formatSigIntrospected r = ['(', 'a', '='] ++ escapeForContent t ++ [')'] ∧
      contentSafe (escapeForContent t) = true ∧ unescape (escapeForContent t) = some t := by
  unfold formatSigIntrospected
  cases html2stanText (escapeForContent r) with
  | none => exact Or.inl rfl
  | some t => exact Or.inr ⟨t, rfl, content_safe t, text_roundtrip t⟩

/-- history (before cac0f25): the repr went to the XML parser as it was — a `<` in a default value
was markup for it (here: refused by the text reader; the real parser built an element) -/
theorem introspected_sigOld_counterexample :
    formatSigIntrospectedOld ['\'', '<', 'b', '>', '\''] = none ∧
    formatSigIntrospected ['\'', '<', 'b', '>', '\''] =
      ['(', 'a', '=', '\'', '&', 'l', 't', ';', 'b', '&', 'g', 't', ';', '\'', ')'] := by
  decide



/-! ### `stanutils._refuse_template_directives` (8cc9d33) -/

mutual
/-- every node of a loaded tree -/
def tnodesOf : TNode → List TNode
  | .tag name r a children => .tag name r a children :: tnodesOfList children
  | n => [n]
def tnodesOfList : List TNode → List TNode
  | [] => []
  | t :: ts => tnodesOf t ++ tnodesOfList ts
end

/-- a node that twisted would run as a template directive when the page is written -/
def isDirective : TNode → Bool
  | .slot => true
  | .tag name r a _ => r || name.isEmpty || !a
  | _ => false

mutual
theorem directiveFree_spec : (t : TNode) → directiveFree t = true → ∀ n ∈ tnodesOf t, isDirective n = false
  | .text, _ => by simp [tnodesOf, isDirective]
  | .other, _ => by simp [tnodesOf, isDirective]
  | .slot, h => by simp [directiveFree] at h
  | .tag name r a children, h => by
    simp only [directiveFree, Bool.and_eq_true, Bool.not_eq_true'] at h
    obtain ⟨⟨⟨h1, h2⟩, h3⟩, h4⟩ := h
    intro n hn
    simp only [tnodesOf, List.mem_cons] at hn
    rcases hn with hn | hn
    · subst hn; simp [isDirective, h1, h2, h3]
    · exact directiveFreeList_spec children h4 n hn
theorem directiveFreeList_spec : (ts : List TNode) → directiveFreeList ts = true →
    ∀ n ∈ tnodesOfList ts, isDirective n = false
  | [], _ => by simp [tnodesOfList]
  | t :: ts, h => by
    simp only [directiveFreeList, Bool.and_eq_true] at h
    intro n hn
    simp only [tnodesOfList, List.mem_append] at hn
    rcases hn with hn | hn
    · exact directiveFree_spec t h.1 n hn
    · exact directiveFreeList_spec ts h.2 n hn
end

/-- **C10 / html2stan_directive_free.** A tree that `html2stan` returns (the walk did not raise)
contains, anywhere, no renderer, no slot, no transparent tag and no attribute that is not text:
nothing in HTML *data* is run as a template directive when the page is written — and conversely a
tree with such a node at its root or directly below is refused. -/
theorem html2stan_directive_free (t : TNode) (h : directiveFree t = true) :
    ∀ n ∈ tnodesOf t, isDirective n = false := directiveFree_spec t h

theorem directive_refused :
    directiveFree (.tag ['d', 'i', 'v'] false true [.tag ['s', 'p', 'a', 'n'] true true [.text]]) = false ∧
    directiveFree (.tag ['d', 'i', 'v'] false true [.slot]) = false ∧
    directiveFree (.tag ['d', 'i', 'v'] false true [.tag [] false true [.text]]) = false ∧
    directiveFree (.tag ['d', 'i', 'v'] false true [.tag ['a'] false false []]) = false ∧
    directiveFree (.tag ['d', 'i', 'v'] false true [.other, .tag ['b'] false true [.text]]) = true := by
  decide


/-! ## G. `deprecate`: what is interpolated into the reST template -/

/-- characters with a meaning in reST inline markup or in the line structure of the directive -/
def restMeta (c : Char) : Bool :=
  c = '`' || isPySpace c || isLineBreak c || c = '<' || c = '>' || c = '*' || c = '|' || c = '\\' ||
  c = ':' || c.toNat == 0

theorem mem_splitDot_parts (s : List Char) : ∀ p ∈ splitDot s, ∀ c ∈ p, c ∈ s ∧ c ≠ '.' := by
  induction s with
  | nil => simp [splitDot]
  | cons x xs ih =>
    intro p hp c hc
    simp only [splitDot] at hp
    cases hsp : splitDot xs with
    | nil =>
      rw [hsp] at hp
      simp at hp; subst hp; simp at hc
    | cons q qs =>
      rw [hsp] at hp ih
      by_cases hx : x = '.'
      · simp only [hx, if_true, List.mem_cons] at hp
        rcases hp with hp | hp
        · subst hp; simp at hc
        · have := ih p (by simpa using hp) c hc
          exact ⟨List.mem_cons_of_mem _ this.1, this.2⟩
      · simp only [hx, if_false, List.mem_cons] at hp
        rcases hp with hp | hp
        · subst hp
          simp only [List.mem_cons] at hc
          rcases hc with hc | hc
          · subst hc; exact ⟨by simp, hx⟩
          · have := ih q (by simp) c hc
            exact ⟨List.mem_cons_of_mem _ this.1, this.2⟩
        · have := ih p (by simp [hp]) c hc
          exact ⟨List.mem_cons_of_mem _ this.1, this.2⟩

theorem splitDot_cover (s : List Char) : ∀ c ∈ s, c = '.' ∨ ∃ p ∈ splitDot s, c ∈ p := by
  induction s with
  | nil => simp
  | cons x xs ih =>
    intro c hc
    simp only [splitDot]
    cases hsp : splitDot xs with
    | nil =>
      -- `splitDot` never returns the empty list
      exfalso
      cases xs with
      | nil => simp [splitDot] at hsp
      | cons y ys =>
        simp only [splitDot] at hsp
        cases h2 : splitDot ys <;> rw [h2] at hsp <;> simp at hsp
        split at hsp <;> simp at hsp
    | cons q qs =>
      rw [hsp] at ih
      simp only [List.mem_cons] at hc
      by_cases hx : x = '.'
      · rcases hc with hc | hc
        · left; rw [hc, hx]
        · rcases ih c hc with h | ⟨p, hp, hcp⟩
          · left; exact h
          · right; exact ⟨p, by simp only [hx, if_true]; exact List.mem_cons_of_mem _ hp, hcp⟩
      · simp only [hx, if_false]
        rcases hc with hc | hc
        · right; exact ⟨x :: q, by simp, by simp [hc]⟩
        · rcases ih c hc with h | ⟨p, hp, hcp⟩
          · left; exact h
          · right
            simp only [List.mem_cons] at hp
            rcases hp with hp | hp
            · subst hp; exact ⟨x :: p, by simp, by simp [hcp]⟩
            · exact ⟨p, by simp [hp], hcp⟩

theorem isIdentifier_chars (T : IdTables) (hS : ∀ c, T.start c = true → T.cont c = true)
    (p : List Char) (h : isIdentifier T p = true) : ∀ c ∈ p, T.cont c = true := by
  cases p with
  | nil => simp [isIdentifier] at h
  | cons x xs =>
    simp only [isIdentifier, Bool.and_eq_true, List.all_eq_true] at h
    intro c hc
    simp only [List.mem_cons] at hc
    rcases hc with hc | hc
    · subst hc; exact hS _ h.1
    · exact h.2 c hc

/-- **C10 / identifier_guard, first disjunct.** A string accepted by `validate_identifier` consists
of `.` and identifier characters only; with identifier tables that contain no reST metacharacter
(true of Unicode's XID_Continue) it therefore contains no backtick, white space, line break, `<`,
`>`, `*`, `|`, backslash, `:` or NUL. (A trailing `_`, which reST reads as a reference, *is*
accepted — see `identifier_underscore_accepted`.) -/
theorem identifier_clean (T : IdTables) (hS : ∀ c, T.start c = true → T.cont c = true)
    (hM : ∀ c, T.cont c = true → restMeta c = false)
    (s : List Char) (h : validateIdentifier T s = true) : ∀ c ∈ s, restMeta c = false := by
  intro c hc
  rcases splitDot_cover s c hc with h1 | ⟨p, hp, hcp⟩
  · subst h1; decide
  · have hid : isIdentifier T p = true := by
      simp only [validateIdentifier, List.all_eq_true] at h
      exact h p hp
    exact hM c (isIdentifier_chars T hS p hid c hcp)

/-- the ASCII part of CPython's tables (`tablesOf [] []`) satisfies the hypotheses -/
theorem ascii_tables_clean : (∀ c, (tablesOf [] []).start c = true → (tablesOf [] []).cont c = true) ∧
    (∀ c, (tablesOf [] []).cont c = true → restMeta c = false) := by
  constructor
  · intro c h
    simp only [tablesOf] at h ⊢
    split at h
    · rename_i hlt
      simp only [hlt, if_true]
      simp only [asciiIdStart, asciiIdCont, Bool.or_eq_true] at h ⊢
      exact Or.inl h
    · simp at h
  · intro c h
    simp only [tablesOf] at h
    split at h
    · simp only [asciiIdCont, isLetter, isDigit, Bool.or_eq_true, Bool.and_eq_true, decide_eq_true_eq] at h
      have hne : ∀ d : Char, c.toNat ≠ d.toNat → c ≠ d := fun d hd e => hd (by rw [e])
      have hn : (65 ≤ c.toNat ∧ c.toNat ≤ 90) ∨ (97 ≤ c.toNat ∧ c.toNat ≤ 122) ∨ c.toNat = 95 ∨
          (48 ≤ c.toNat ∧ c.toNat ≤ 57) := by
        rcases h with (h | h) | h
        · rcases h with h | h
          · exact Or.inl h
          · exact Or.inr (Or.inl h)
        · right; right; left; rw [h]; rfl
        · exact Or.inr (Or.inr (Or.inr h))
      have e1 : c ≠ '`' := hne _ (by simp; omega)
      have e2 : c ≠ '<' := hne _ (by simp; omega)
      have e3 : c ≠ '>' := hne _ (by simp; omega)
      have e4 : c ≠ '*' := hne _ (by simp; omega)
      have e5 : c ≠ '|' := hne _ (by simp; omega)
      have e6 : c ≠ '\\' := hne _ (by simp; omega)
      have e7 : c ≠ ':' := hne _ (by simp; omega)
      have e8 : isPySpace c = false := by
        simp only [isPySpace, Bool.or_eq_false_iff, Bool.and_eq_false_iff, decide_eq_false_iff_not,
          beq_eq_false_iff_ne, ne_eq]
        omega
      have e9 : isLineBreak c = false := by
        simp only [isLineBreak, Bool.or_eq_false_iff, Bool.and_eq_false_iff, decide_eq_false_iff_not,
          beq_eq_false_iff_ne, ne_eq]
        omega
      have e10 : (c.toNat == 0) = false := by simp; omega
      simp [restMeta, e1, e2, e3, e4, e5, e6, e7, e8, e9, e10]
    · simp at h

example : validateIdentifier (tablesOf [] []) ['a', '.', 'b', '_', '1'] = true := by decide
example : validateIdentifier (tablesOf [] []) ['a', '.', '.', 'b'] = false := by decide
/-- accepted although reST reads a trailing underscore as a hyperlink reference: in the template
the replacement sits in interpreted text and the package name produces at most an
"Unknown target name" warning, no element (observed on the real code). -/
theorem identifier_underscore_accepted :
    validateIdentifier (tablesOf [] []) ['f', 'o', 'o', '_'] = true := by decide

/-! ### second disjunct: the wrapped replacement inside its inline literal -/

theorem escape2null_id (x : List Char) (h : ∀ c ∈ x, c ≠ '\\') : escape2null x = x := by
  induction x with
  | nil => simp [escape2null]
  | cons c r ih =>
    have hc : c ≠ '\\' := h c (by simp)
    have hr := ih (fun d hd => h d (by simp [hd]))
    rw [escape2null]
    · rw [hr]
    · intro d r' e _; exact hc e
    · intro e _; exact hc e

theorem restoreBackslashes_id (x : List Char) (h : ∀ c ∈ x, c.toNat ≠ 0) : restoreBackslashes x = x := by
  unfold restoreBackslashes
  induction x with
  | nil => simp
  | cons c r ih =>
    have hc := h c (by simp)
    simp [hc, ih (fun d hd => h d (by simp [hd]))]

theorem tailText_no_backslash : ∀ c ∈ tailText, c ≠ '\\' := by decide

theorem literalSearch_tail (p : Char) (hp : isPySpace p = false) :
    literalSearch (some p) tailText = some ([], [' ', 'i', 'n', 's', 't', 'e', 'a', 'd', '.']) := by
  have e : isEndSuffix ' ' = true := by decide
  simp [literalSearch, tailText, hp, e]

/-- no backtick inside, and the character before the closing "``" is not white space: the first
end-string found is the one the template appended -/
theorem literalSearch_hold (xs : List Char) (hbt : ∀ c ∈ xs, c ≠ '`') :
    ∀ prev : Option Char,
      (xs = [] → ∃ p, prev = some p ∧ isPySpace p = false) →
      (∀ l, xs.getLast? = some l → isPySpace l = false) →
      literalSearch prev (xs ++ tailText) = some (xs, [' ', 'i', 'n', 's', 't', 'e', 'a', 'd', '.']) := by
  induction xs with
  | nil =>
    intro prev h _
    obtain ⟨p, hp, hs⟩ := h rfl
    subst hp
    simpa using literalSearch_tail p hs
  | cons x r ih =>
    intro prev _ hl
    have hx : x ≠ '`' := hbt x (by simp)
    have hr := ih (fun d hd => hbt d (by simp [hd])) (some x)
      (by intro e; subst e; exact ⟨x, rfl, hl x (by simp)⟩)
      (by
        intro l hlr
        cases r with
        | nil => simp at hlr
        | cons y r2 => exact hl l (by rw [List.getLast?_cons_cons]; exact hlr))
    simp only [List.cons_append, literalSearch, hx, decide_false, Bool.false_and, Bool.false_eq_true,
      if_false, hr]

theorem literalSafe_spec {r : List Char} (h : literalSafe r = true) :
    r ≠ [] ∧ (∀ c ∈ r, c ≠ '`') ∧ (∀ c ∈ r, c ≠ '\\') ∧ (∀ c ∈ r, c.toNat ≠ 0) ∧
    r.any isLineBreak = false ∧ (∀ c ∈ r, c.toNat ≠ 9 ∧ c.toNat ≠ 11 ∧ c.toNat ≠ 12) ∧
    (∃ c, r.head? = some c ∧ isPySpace c = false) ∧ (∃ c, r.getLast? = some c ∧ isPySpace c = false) := by
  simp only [literalSafe, Bool.and_eq_true, Bool.not_eq_true', List.contains_eq_mem,
    decide_eq_false_iff_not, List.any_eq_false, beq_iff_eq, Bool.or_eq_true, not_or,
    List.isEmpty_eq_false_iff] at h
  obtain ⟨⟨⟨⟨⟨⟨⟨h1, h2⟩, h3⟩, h4⟩, h5⟩, h6⟩, h7⟩, h8⟩ := h
  refine ⟨h1, fun c hc e => h2 (e ▸ hc), fun c hc e => h3 (e ▸ hc), h4, ?_, ?_, ?_, ?_⟩
  · simp only [List.any_eq_false]; exact h5
  · intro c hc; have := h6 c hc; exact ⟨this.1.1, this.1.2, this.2⟩
  · cases hh : r.head? with
    | none => rw [hh] at h7; simp at h7
    | some c => rw [hh] at h7; exact ⟨c, rfl, by simpa using h7⟩
  · cases hh : r.getLast? with
    | none => rw [hh] at h8; simp at h8
    | some c => rw [hh] at h8; exact ⟨c, rfl, by simpa using h8⟩

/-- under `literalSafe`, docutils reads the wrapped replacement as one inline literal whose text
is the replacement, followed by the rest of the template -/
theorem literal_holds (r : List Char) (h : literalSafe r = true) :
    interpolatedLiteral r = .lit r [' ', 'i', 'n', 's', 't', 'e', 'a', 'd', '.'] := by
  obtain ⟨hne, hbt, hbs, hnul, hlb, hws, ⟨c0, hc0, hs0⟩, ⟨cl, hcl, hsl⟩⟩ := literalSafe_spec h
  have hmap : (r.map rstPreprocess).map convertWs = r := by
    rw [List.map_map]
    conv => rhs; rw [← List.map_id r]
    apply List.map_congr_left
    intro c hc
    have := hws c hc
    have hnb : isLineBreak c = false := by
      rw [List.any_eq_false] at hlb
      simpa using hlb c hc
    have hpre : rstPreprocess c = c := by
      simp only [isLineBreak, Bool.or_eq_false_iff, Bool.and_eq_false_iff, decide_eq_false_iff_not,
        beq_eq_false_iff_ne, ne_eq] at hnb
      unfold rstPreprocess
      simp only
      split
      · omega
      · rfl
    simp [hpre, convertWs, this]
  have hstart : literalStartOk (r ++ tailText) = true := by
    cases r with
    | nil => exact absurd rfl hne
    | cons a b => simp at hc0; subst hc0; simp [literalStartOk, hs0]
  have he2n : escape2null (r ++ tailText) = r ++ tailText := by
    apply escape2null_id
    intro c hc
    rcases List.mem_append.mp hc with hm | hm
    · exact hbs c hm
    · exact tailText_no_backslash c hm
  have hsearch := literalSearch_hold r hbt none (fun e => absurd e hne)
    (by intro l hl; rw [hcl] at hl; cases hl; exact hsl)
  unfold interpolatedLiteral
  simp only [hmap, hlb, Bool.false_eq_true, if_false, hstart, Bool.not_true, literalParse, he2n, hsearch]
  cases r with
  | nil => exact absurd rfl hne
  | cons a b => simp [restoreBackslashes_id _ hnul]

/-! ### the sanitiser of commit 50c0cec and what docutils makes of its result -/

def NUL : Char := Char.ofNat 0

/-- a character the sanitiser can leave: a blank, or anything that is neither white space, NUL nor
a backtick -/
def cleanChar (c : Char) : Prop := (c = ' ' ∨ isPySpace c = false) ∧ c ≠ '`' ∧ c.toNat ≠ 0

theorem mem_collapseGo (st : CState) (s : List Char) :
    ∀ c ∈ collapseGo st s, c = ' ' ∨ (c ∈ s ∧ isPySpace c = false) := by
  induction s generalizing st with
  | nil => cases st <;> simp [collapseGo]
  | cons x r ih =>
    intro c hc
    have lift : ∀ st', c ∈ collapseGo st' r → c = ' ' ∨ (c ∈ x :: r ∧ isPySpace c = false) := by
      intro st' h
      rcases ih st' c h with h | h
      · exact Or.inl h
      · exact Or.inr ⟨List.mem_cons_of_mem _ h.1, h.2⟩
    by_cases hx : isPySpace x = true
    · cases st <;> simp only [collapseGo, hx, if_true] at hc <;> exact lift _ hc
    · have hx' : isPySpace x = false := by simpa using hx
      cases st <;> simp only [collapseGo, hx, Bool.false_eq_true, if_false, List.mem_cons] at hc
      · rcases hc with hc | hc
        · subst hc; exact Or.inr ⟨by simp, hx'⟩
        · exact lift _ hc
      · rcases hc with hc | hc
        · subst hc; exact Or.inr ⟨by simp, hx'⟩
        · exact lift _ hc
      · rcases hc with hc | hc | hc
        · exact Or.inl hc
        · subst hc; exact Or.inr ⟨by simp, hx'⟩
        · exact lift _ hc

theorem collapse_head (s : List Char) : ∀ c, (collapse s).head? = some c → isPySpace c = false := by
  unfold collapse
  induction s with
  | nil => simp [collapseGo]
  | cons x r ih =>
    intro c hc
    by_cases hx : isPySpace x = true
    · simp only [collapseGo, hx, if_true] at hc; exact ih c hc
    · simp only [collapseGo, hx, Bool.false_eq_true, if_false, List.head?_cons, Option.some.injEq] at hc
      subst hc; simpa using hx

theorem mem_rstrip (p : Char → Bool) (s : List Char) : ∀ c ∈ rstrip p s, c ∈ s := by
  induction s with
  | nil => simp [rstrip]
  | cons x r ih =>
    intro c hc
    simp only [rstrip] at hc
    cases hr : rstrip p r with
    | nil =>
      rw [hr] at hc
      by_cases hp : p x = true
      · simp [hp] at hc
      · simp [hp] at hc; subst hc; simp
    | cons a b =>
      rw [hr] at hc ih
      simp only [List.mem_cons] at hc
      rcases hc with hc | hc
      · subst hc; simp
      · exact List.mem_cons_of_mem _ (ih c (by simp [List.mem_cons] at hc ⊢; exact hc))

theorem rstrip_head (p : Char → Bool) (s : List Char) (h : rstrip p s ≠ []) :
    (rstrip p s).head? = s.head? := by
  cases s with
  | nil => simp [rstrip] at h
  | cons x r =>
    simp only [rstrip] at h ⊢
    cases hr : rstrip p r with
    | nil =>
      rw [hr] at h
      by_cases hp : p x = true
      · simp [hp] at h
      · simp [hp]
    | cons a b => simp

theorem rstrip_last (p : Char → Bool) (s : List Char) :
    ∀ l, (rstrip p s).getLast? = some l → p l = false := by
  induction s with
  | nil => simp [rstrip]
  | cons x r ih =>
    intro l hl
    simp only [rstrip] at hl
    cases hr : rstrip p r with
    | nil =>
      rw [hr] at hl
      by_cases hp : p x = true
      · simp [hp] at hl
      · simp [hp] at hl; subst hl; simpa using hp
    | cons a b =>
      rw [hr] at hl ih
      rw [List.getLast?_cons_cons] at hl
      exact ih l hl

theorem isLineBreak_isPySpace (c : Char) (h : isLineBreak c = true) : isPySpace c = true := by
  simp only [isLineBreak, isPySpace, Bool.or_eq_true, Bool.and_eq_true, decide_eq_true_eq, beq_iff_eq] at h ⊢
  omega

/-- the hypothesis under which the wrapped text is proved to be read as one literal; backslashes
are allowed anywhere -/
structure LitOk (x : List Char) : Prop where
  ne : x ≠ []
  clean : ∀ c ∈ x, cleanChar c
  head : ∀ c, x.head? = some c → isPySpace c = false
  last : ∀ c, x.getLast? = some c → isPySpace c = false

/-- **what the sanitiser guarantees, character by character**: the result is not empty, contains
no backtick, no NUL, no white space other than single blanks (so no line break, tab, VT, FF), and
does not begin with a blank -/
theorem sanitise_chars (sb : Bool) (r : List Char) :
    sanitise sb r ≠ [] ∧ (∀ c ∈ sanitise sb r, cleanChar c) ∧
    (∀ c, (sanitise sb r).head? = some c → isPySpace c = false) ∧
    (∀ c, (sanitise sb r).getLast? = some c → c ≠ '\\' ∧ (sb = true → c ≠ ' ')) := by
  unfold sanitise
  simp only
  generalize hb : (collapse (r.map nulToSpace)).map (fun c => if c = '`' then '\'' else c) = b
  have hbclean : ∀ c ∈ b, cleanChar c := by
    intro c hc
    rw [← hb] at hc
    obtain ⟨d, hd, hdc⟩ := List.mem_map.mp hc
    have hd' := mem_collapseGo .start _ d hd
    by_cases hbt : d = '`'
    · simp only [hbt, if_true] at hdc; subst hdc
      exact ⟨Or.inr (by decide), by decide, by decide⟩
    · simp only [hbt, if_false] at hdc; subst hdc
      rcases hd' with h | ⟨hm, hs⟩
      · subst h; exact ⟨Or.inl rfl, by decide, by decide⟩
      · refine ⟨Or.inr hs, hbt, ?_⟩
        obtain ⟨e, _, he⟩ := List.mem_map.mp hm
        unfold nulToSpace at he
        split at he
        · subst he; decide
        · subst he; assumption
  have hbhead : ∀ c, b.head? = some c → isPySpace c = false := by
    intro c hc
    rw [← hb] at hc
    cases hcol : collapse (r.map nulToSpace) with
    | nil => rw [hcol] at hc; simp at hc
    | cons d t =>
      have := collapse_head (r.map nulToSpace) d (by rw [hcol]; rfl)
      rw [hcol] at hc
      simp only [List.map_cons, List.head?_cons, Option.some.injEq] at hc
      by_cases hbt : d = '`'
      · simp only [hbt, if_true] at hc; subst hc; decide
      · simp only [hbt, if_false] at hc; subst hc; exact this
  generalize hp : (fun c => c = '\\' || (sb && c = ' ') : Char → Bool) = p
  by_cases he : (rstrip p b).isEmpty = true
  · simp only [he, if_true]
    refine ⟨by simp, ?_, ?_, ?_⟩
    · intro c hc
      simp only [List.mem_cons, List.mem_nil_iff, or_false, or_self] at hc
      subst hc; exact ⟨Or.inr (by decide), by decide, by decide⟩
    · intro c hc; simp at hc; subst hc; decide
    · intro c hc; simp at hc; subst hc; exact ⟨by decide, fun _ => by decide⟩
  · simp only [he, Bool.false_eq_true, if_false]
    have hne : rstrip p b ≠ [] := by intro e; rw [e] at he; simp at he
    refine ⟨hne, fun c hc => hbclean c (mem_rstrip p b c hc), ?_, ?_⟩
    · intro c hc; rw [rstrip_head p b hne] at hc; exact hbhead c hc
    · intro c hc
      have := rstrip_last p b c hc
      rw [← hp] at this
      simp only [Bool.or_eq_false_iff, decide_eq_false_iff_not, Bool.and_eq_false_iff] at this
      refine ⟨this.1, fun hsb => ?_⟩
      rcases this.2 with h | h
      · rw [hsb] at h; exact absurd h (by decide)
      · exact h

/-- `escape2null` changes nothing but backslashes, which it may turn into NUL -/
def relE : List Char → List Char → Prop
  | [], [] => True
  | a :: as, b :: bs => (b = a ∨ (a = '\\' ∧ b = NUL)) ∧ relE as bs
  | _, _ => False

theorem relE_escape2null (x : List Char) : relE x (escape2null x) := by
  fun_induction escape2null x with
  | case1 c r ih => exact ⟨Or.inr ⟨rfl, rfl⟩, Or.inl rfl, ih⟩
  | case2 => exact ⟨Or.inr ⟨rfl, rfl⟩, trivial⟩
  | case3 c r _ _ ih => exact ⟨Or.inl rfl, ih⟩
  | case4 => trivial

theorem relE_tail (z : List Char) (h : relE tailText z) : z = tailText := by
  have hno : ∀ c ∈ tailText, c ≠ '\\' := tailText_no_backslash
  generalize tailText = t at h hno
  induction t generalizing z with
  | nil => cases z with
    | nil => rfl
    | cons _ _ => simp [relE] at h
  | cons a r ih =>
    cases z with
    | nil => simp [relE] at h
    | cons b bs =>
      simp only [relE] at h
      obtain ⟨h1, h2⟩ := h
      have hb : b = a := by
        rcases h1 with h1 | h1
        · exact h1
        · exact absurd h1.1 (hno a (by simp))
      rw [hb, ih bs h2 (fun c hc => hno c (by simp [hc]))]

theorem NUL_not_space : isPySpace NUL = false := by decide

/-- `literalSearch` on the null-escaped text: the first end-string found is the appended one -/
theorem literalSearch_rel (xs : List Char) (hcl : ∀ c ∈ xs, cleanChar c) :
    ∀ (z : List Char) (prev : Option Char), relE (xs ++ tailText) z →
      (xs = [] → ∃ p, prev = some p ∧ isPySpace p = false) →
      (∀ l, xs.getLast? = some l → isPySpace l = false) →
      ∃ z1, relE xs z1 ∧
        literalSearch prev z = some (z1, [' ', 'i', 'n', 's', 't', 'e', 'a', 'd', '.']) := by
  induction xs with
  | nil =>
    intro z prev hrel hp _
    obtain ⟨p, hp1, hp2⟩ := hp rfl
    subst hp1
    have := relE_tail z (by simpa using hrel)
    subst this
    exact ⟨[], trivial, literalSearch_tail p hp2⟩
  | cons x r ih =>
    intro z prev hrel _ hl
    cases z with
    | nil => simp [relE] at hrel
    | cons b bs =>
      simp only [List.cons_append, relE] at hrel
      obtain ⟨hb, hrest⟩ := hrel
      have hxc := hcl x (by simp)
      have hbne : b ≠ '`' := by
        rcases hb with hb | hb
        · rw [hb]; exact hxc.2.1
        · rw [hb.2]; decide
      have hbsp : r = [] → isPySpace b = false := by
        intro hr
        rcases hb with hb | hb
        · rw [hb]; exact hl x (by rw [hr]; rfl)
        · rw [hb.2]; exact NUL_not_space
      obtain ⟨z1, hz1, hs⟩ := ih (fun c hc => hcl c (by simp [hc])) bs (some b) hrest
        (fun e => ⟨b, rfl, hbsp e⟩)
        (by
          intro l hlr
          cases r with
          | nil => simp at hlr
          | cons y r2 => exact hl l (by rw [List.getLast?_cons_cons]; exact hlr))
      refine ⟨b :: z1, ⟨hb, hz1⟩, ?_⟩
      simp only [literalSearch, hbne, decide_false, Bool.false_and, Bool.false_eq_true, if_false, hs]

theorem restore_relE (xs z1 : List Char) (h : relE xs z1) (hn : ∀ c ∈ xs, c.toNat ≠ 0) :
    restoreBackslashes z1 = xs := by
  unfold restoreBackslashes
  induction xs generalizing z1 with
  | nil => cases z1 with
    | nil => rfl
    | cons _ _ => simp [relE] at h
  | cons a r ih =>
    cases z1 with
    | nil => simp [relE] at h
    | cons b bs =>
      simp only [relE] at h
      obtain ⟨h1, h2⟩ := h
      simp only [List.map_cons, List.cons.injEq]
      refine ⟨?_, ih bs h2 (fun c hc => hn c (by simp [hc]))⟩
      rcases h1 with h1 | h1
      · rw [h1]; simp [hn a (by simp)]
      · rw [h1.2, h1.1]; decide

/-- docutils reads "``x`` instead." as one inline literal holding exactly `x`, for every `x` that
is `LitOk` — backslashes included, wherever they are -/
theorem literal_holds_ok (x : List Char) (h : LitOk x) :
    interpolatedLiteral x = .lit x [' ', 'i', 'n', 's', 't', 'e', 'a', 'd', '.'] := by
  have hcw : ∀ c ∈ x, convertWs c = c := by
    intro c hc
    have := (h.clean c hc).1
    unfold convertWs
    split
    · rename_i h11
      exfalso
      rcases this with hs | hs
      · subst hs; revert h11; decide
      · simp only [isPySpace, Bool.or_eq_false_iff, Bool.and_eq_false_iff, decide_eq_false_iff_not,
          beq_eq_false_iff_ne, ne_eq] at hs
        omega
    · rfl
  have hpre : ∀ c ∈ x, rstPreprocess c = c := by
    intro c hc
    have := (h.clean c hc).1
    unfold rstPreprocess
    simp only
    split
    · rename_i h6
      exfalso
      rcases this with hs | hs
      · subst hs; revert h6; decide
      · simp only [isPySpace, Bool.or_eq_false_iff, Bool.and_eq_false_iff, decide_eq_false_iff_not,
          beq_eq_false_iff_ne, ne_eq] at hs
        omega
    · rfl
  have hmap : (x.map rstPreprocess).map convertWs = x := by
    rw [List.map_map]
    conv => rhs; rw [← List.map_id x]
    exact List.map_congr_left (fun c hc => by simp [hpre c hc, hcw c hc])
  have hlb : x.any isLineBreak = false := by
    rw [List.any_eq_false]
    intro c hc hb
    have hsp := isLineBreak_isPySpace c hb
    rcases (h.clean c hc).1 with hs | hs
    · subst hs; revert hb; decide
    · rw [hsp] at hs; exact absurd hs (by decide)
  have hstart : literalStartOk (x ++ tailText) = true := by
    cases hx : x with
    | nil => exact absurd hx h.ne
    | cons a b => simp [literalStartOk, h.head a (by rw [hx]; rfl)]
  obtain ⟨z1, hz1, hs⟩ := literalSearch_rel x h.clean (escape2null (x ++ tailText)) none
    (relE_escape2null _) (fun e => absurd e h.ne) h.last
  have hrest := restore_relE x z1 hz1 (fun c hc => (h.clean c hc).2.2)
  unfold interpolatedLiteral
  simp only [hmap, hlb, Bool.false_eq_true, if_false, hstart, Bool.not_true, literalParse, hs]
  cases hz : z1 with
  | nil =>
    rw [hz] at hz1
    cases hx : x with
    | nil => exact absurd hx h.ne
    | cons a b => rw [hx] at hz1; simp [relE] at hz1
  | cons a b => simp [← hz, hrest]

/-- **C10 / sanitise_guard.** Whatever the replacement string is, the sanitised text (the code as
it is since 782581b, `.rstrip('\\ ')`) is read by docutils as one inline literal holding exactly
it: nothing in it can end the literal or the directive. -/
theorem sanitise_guard (r : List Char) :
    interpolatedLiteral (sanitise true r) =
      .lit (sanitise true r) [' ', 'i', 'n', 's', 't', 'e', 'a', 'd', '.'] := by
  obtain ⟨hne, hcl, hhd, hlast⟩ := sanitise_chars true r
  apply literal_holds_ok
  refine ⟨hne, hcl, hhd, ?_⟩
  intro c hc
  have hsp := (hlast c hc).2 rfl
  have hcm : c ∈ sanitise true r := List.mem_of_getLast? hc
  rcases (hcl c hcm).1 with h | h
  · exact absurd h hsp
  · exact h

/-- history (the code between 50c0cec and 782581b, `.rstrip('\\')`): the same held only when the
sanitised text did not end in a blank. -/
theorem sanitise_guard_partial (r : List Char) (h : (sanitise false r).getLast? ≠ some ' ') :
    interpolatedLiteral (sanitise false r) =
      .lit (sanitise false r) [' ', 'i', 'n', 's', 't', 'e', 'a', 'd', '.'] := by
  obtain ⟨hne, hcl, hhd, _⟩ := sanitise_chars false r
  apply literal_holds_ok
  refine ⟨hne, hcl, hhd, ?_⟩
  intro c hc
  have hcm : c ∈ sanitise false r := List.mem_of_getLast? hc
  rcases (hcl c hcm).1 with hs | hs
  · subst hs; exact absurd hc h
  · exact hs

/-- … and before 782581b it could end in a blank: a replacement that ends in blank + backslash.
`rstrip('\\')` ran after the blanks were collapsed and uncovered one; the end-string was then not
recognised and the text parsed as reST (`*b*` became `<em>`). Found by the proof attempt, confirmed
on /repo, fixed by 782581b (third conjunct: the code as it is holds it). -/
theorem sanitise_guard_counterexample :
    sanitise false ['*', 'b', '*', ' ', '\\'] = ['*', 'b', '*', ' '] ∧
    interpolatedLiteral (sanitise false ['*', 'b', '*', ' ', '\\']) = .nolit ∧
    interpolatedLiteral (sanitise true ['*', 'b', '*', ' ', '\\']) =
      .lit ['*', 'b', '*'] [' ', 'i', 'n', 's', 't', 'e', 'a', 'd', '.'] := by
  decide

/-- **C10 / identifier_guard (full).** Every string `deprecatedToUsefulText` interpolates for
`replacement=` is either accepted by the identifier recogniser — then it is put between single
backticks as it is and contains no reST metacharacter — or it is sanitised and put between double
backticks; the sanitised text has no backtick, NUL, line break or tab, and docutils reads it as
one inline literal holding exactly it. No hypothesis on the string. -/
theorem identifier_guard (T : IdTables) (hS : ∀ c, T.start c = true → T.cont c = true)
    (hM : ∀ c, T.cont c = true → restMeta c = false)
    (name pkg ver r : List Char) (hpkg : validateIdentifier T pkg = true) :
    let pre := ['`', '`'] ++ name ++ ['`', '`', ' ', 'w', 'a', 's', ' ', 'd', 'e', 'p', 'r', 'e', 'c', 'a', 't', 'e', 'd', ' ', 'i', 'n', ' '] ++
      pkg ++ [' '] ++ ver ++ [';', ' ', 'p', 'l', 'e', 'a', 's', 'e', ' ', 'u', 's', 'e', ' ', '`']
    let post := ['`', ' ', 'i', 'n', 's', 't', 'e', 'a', 'd', '.']
    let r' := sanitise true r
    (validateIdentifier T r = true ∧
      deprecationText T name pkg ver (some r) = .ok (pre ++ r ++ post) ∧
      ∀ c ∈ r, restMeta c = false) ∨
    (validateIdentifier T r = false ∧
      deprecationText T name pkg ver (some r) = .ok (pre ++ ('`' :: r' ++ ['`']) ++ post) ∧
      (∀ c ∈ r', cleanChar c) ∧
      interpolatedLiteral r' = .lit r' [' ', 'i', 'n', 's', 't', 'e', 'a', 'd', '.']) := by
  intro pre post r'
  by_cases hv : validateIdentifier T r = true
  · left
    refine ⟨hv, ?_, identifier_clean T hS hM r hv⟩
    simp [deprecationText, hpkg, wrapReplacement, hv, pre, post]
  · right
    have hv' : validateIdentifier T r = false := by simpa using hv
    refine ⟨hv', ?_, (sanitise_chars true r).2.1, sanitise_guard r⟩
    simp [deprecationText, hpkg, wrapReplacement, hv', pre, post, r']

example : validateIdentifier (tablesOf [] []) ['a', ' ', 'b'] = false := by decide

/-! regression: the three ways a replacement left its literal before 50c0cec (facts about
docutils on the *unsanitised* string), and what the sanitiser makes of them -/

/-- the input of DESIGN §8-16, unsanitised: the embedded "`` " closes the literal after `a`; the rest
is parsed as reST and becomes a link. Sanitised, it is held. -/
theorem identifier_guard_counterexample :
    interpolatedLiteral
      ['a', '`', '`', ' ', '`', 'c', 'l', 'i', 'c', 'k', ' ', '<', 'j', 's', ':', 'x', '>', '`', '_', ' ', '`', '`', 'b'] =
      .lit ['a'] [' ', '`', 'c', 'l', 'i', 'c', 'k', ' ', '<', 'j', 's', ':', 'x', '>', '`', '_', ' ', '`', '`', 'b', '`', '`', ' ', 'i', 'n', 's', 't', 'e', 'a', 'd', '.'] ∧
    sanitise true
      ['a', '`', '`', ' ', '`', 'c', 'l', 'i', 'c', 'k', ' ', '<', 'j', 's', ':', 'x', '>', '`', '_', ' ', '`', '`', 'b'] =
      ['a', '\'', '\'', ' ', '\'', 'c', 'l', 'i', 'c', 'k', ' ', '<', 'j', 's', ':', 'x', '>', '\'', '_', ' ', '\'', '\'', 'b'] := by
  decide

/-- leading white space, unsanitised: the start-string is not recognised -/
theorem identifier_guard_counterexample_space :
    interpolatedLiteral [' ', '*', 'b', '*'] = .nolit ∧ sanitise true [' ', '*', 'b', '*'] = ['*', 'b', '*'] := by
  decide

/-- a carriage return, unsanitised: the directive ends inside the replacement -/
theorem identifier_guard_counterexample_cr :
    interpolatedLiteral ['x', '\r', 'A'] = .broken ∧ sanitise true ['x', '\r', 'A'] = ['x', ' ', 'A'] := by
  decide

example : literalSafe ['a', ' ', '<', 'b', '>'] = true := by decide
example : interpolatedLiteral ['a', ' ', '<', 'b', '>'] =
    .lit ['a', ' ', '<', 'b', '>'] [' ', 'i', 'n', 's', 't', 'e', 'a', 'd', '.'] := by decide
example : sanitise true [Char.ofNat 0, '\\'] = ['\'', '\''] := by decide
example : (sanitise false ['a', ' ', '\\', 'b']).getLast? ≠ some ' ' := by decide

end Escape
