/-
C04, inherited members: soundness of `resolveName` for dotted names whose attribute steps go through
an INHERITED member of a class, for the decidable sub-class `classImportsUnique` of `WF`.

Why no reasoning about the ORDER of the MRO (nor about how the bases are resolved) is needed: names of
definitions are globally unique (`namesUnique`), and `classImportsUnique` makes the class that binds a
name by an import unique too — so "some class binds `y`" determines the binding.  `Step` is the
over-approximation of Python's `type.__getattribute__`: the attribute is found in the class's own
namespace, or in the namespace of SOME class.  pydoctor's `classLookup` walks ITS linearisation and
finds the name in the contents / alias map of some class object; both finds are the same binding.
-/
import PdProps.C04Base

namespace Imports
open Registry

/-! ## the sub-class: imports in class bodies -/

theorem classImports_here {m : Nat} {cp : List Name} (hcp : cp ≠ []) : ∀ {body : List Stmt} {st : Stmt} {x : Name},
    st ∈ body → st.defName = none → x ∈ explicitNames st → ((m, cp), x) ∈ classImports m cp body
  | [], _, _, h, _, _ => by cases h
  | s0 :: rest, st, x, h, hd, hx => by
    simp only [classImports, List.mem_append]
    rcases List.mem_cons.1 h with rfl | h'
    · left
      have hne : cp.isEmpty = false := by cases cp <;> simp_all
      cases st <;> simp_all [Stmt.defName, classImportsStmt]
    · right; exact classImports_here hcp h' hd hx

theorem classImports_class {m : Nat} {pre : List Name} {c : Name} {bs : List Path} {b1 : List Stmt} :
    ∀ {body : List Stmt}, Stmt.classDef c bs b1 ∈ body → ∀ {e}, e ∈ classImports m (pre ++ [c]) b1 →
      e ∈ classImports m pre body
  | [], h, _, _ => by cases h
  | x :: xs, h, e, he => by
    simp only [classImports, List.mem_append]
    rcases List.mem_cons.1 h with rfl | h'
    · left; simp only [classImportsStmt]; exact he
    · right; exact classImports_class h' he

theorem classImports_mem {m : Nat} : ∀ {cs pre : List Name} {body b : List Stmt} {st : Stmt} {x : Name},
    bodyAt body cs = some b → st ∈ b → st.defName = none → x ∈ explicitNames st → pre ++ cs ≠ [] →
      ((m, pre ++ cs), x) ∈ classImports m pre body
  | [], pre, body, b, st, x, hb, hst, hd, hx, hne => by
    simp only [bodyAt, Option.some.injEq] at hb; subst hb
    simp only [List.append_nil] at hne ⊢
    exact classImports_here hne hst hd hx
  | c :: cs, pre, body, b, st, x, hb, hst, hd, hx, _ => by
    simp only [bodyAt] at hb
    cases hf : findClass body c with
    | none => simp [hf] at hb
    | some b1 =>
      simp only [hf] at hb
      obtain ⟨bs, hm⟩ := findClass_mem hf
      have := classImports_mem (m := m) (pre := pre ++ [c]) hb hst hd hx (by simp)
      have e : pre ++ [c] ++ cs = pre ++ c :: cs := by simp
      rw [e] at this
      exact classImports_class hm this

theorem classImportList_mem {proj : Project} {S : Site} {b : List Stmt} (hb : siteBody proj S = some b) (hS : S.2 ≠ [])
    {st : Stmt} {x : Name} (hst : st ∈ b) (hd : st.defName = none) (hx : x ∈ explicitNames st) :
    (S, x) ∈ classImportList proj := by
  obtain ⟨m, cp⟩ := S
  unfold classImportList
  rw [List.mem_flatMap]
  refine ⟨m, List.mem_range.2 (siteBody_lt hb), ?_⟩
  have := classImports_mem (m := m) (pre := []) (siteBody_bodyAt hb) hst hd hx (by simpa using hS)
  simpa using this

/-- what `classImportsUnique` says -/
structure CIU (proj : Project) : Prop where
  fresh : ∀ S x, (S, x) ∈ classImportList proj → isRootName proj x = true ∨
    ∀ E ∈ entities proj, (sitePath proj E).getLast? ≠ some x
  one : ∀ S S' x, (S, x) ∈ classImportList proj → (S', x) ∈ classImportList proj → S = S'

theorem CIU.of {proj : Project} (h : classImportsUnique proj = true) : CIU proj := by
  unfold classImportsUnique at h
  simp only [List.all_eq_true, Bool.and_eq_true, Bool.or_eq_true, Bool.not_eq_true', bne_iff_ne, ne_eq,
    beq_iff_eq, Prod.forall] at h
  constructor
  · intro S x hm
    obtain ⟨m, cp⟩ := S
    rcases (h m cp x hm).1 with hr | hn
    · exact Or.inl hr
    · right
      intro E hE heq
      have : (List.map (fun S => (sitePath proj S).getLast?) (entities proj)).contains (some x) = true := by
        rw [List.contains_iff_mem]
        exact List.mem_map.2 ⟨E, hE, heq⟩
      rw [this] at hn; cases hn
  · intro S S' x hm hm'
    obtain ⟨m, cp⟩ := S
    obtain ⟨m', cp'⟩ := S'
    rcases (h m cp x hm).2 m' cp' x hm' with hne | heq
    · exact absurd rfl hne
    · exact heq

/-! ## bindings in class bodies -/

/-- a class-level binding is a definition of the class or an import in its body -/
theorem jpy_class_inv {proj : Project} {rank : List Nat} (wf : WFacts proj rank) {A : Site} (hA : A.2 ≠ []) {y : Name}
    {w : SVal} (h : Jpy proj A [y] w) :
    ∃ b st, siteBody proj A = some b ∧ st ∈ b ∧ y ∈ explicitNames st ∧
      ((st.defName = some y ∧ w = .dfn A.1 (A.2 ++ [y])) ∨ st.defName = none) := by
  rcases jpy_inv wf h with ⟨h0, _⟩ | ⟨b, st, hb, hst, hxs, hJ⟩
  · exact absurd h0 hA
  · have hex : y ∈ explicitNames st := explicit_of_stmtNames (fun lvl M hst' => hA (wf.nostar hb (hst' ▸ hst))) hxs
    refine ⟨b, st, hb, hst, hex, ?_⟩
    cases st <;> simp_all [Stmt.defName, StmtJ, explicitNames]

theorem def_static {proj : Project} {A : Site} {b : List Stmt} {st : Stmt} {y : Name} (hb : siteBody proj A = some b)
    (hst : st ∈ b) (hd : st.defName = some y) : StaticSite proj (A.1, A.2 ++ [y]) :=
  ⟨(siteBody_lt hb : A.1 < proj.length), Or.inr ⟨A.2, y, b, st, rfl, hb, hst, hd⟩⟩

theorem def_last (proj : Project) (A : Site) (y : Name) : (sitePath proj (A.1, A.2 ++ [y])).getLast? = some y := by
  simp [sitePath, ← List.append_assoc]

theorem root_static {proj : Project} {y : Name} (hr : isRootName proj y = true) :
    ∃ root, StaticSite proj (root, []) ∧ sitePath proj (root, []) = [y] := by
  unfold isRootName at hr
  cases hm : modIdx proj [y] with
  | none => simp [hm] at hr
  | some root =>
    obtain ⟨hlt, hp⟩ := modIdx_spec hm
    exact ⟨root, ⟨hlt, Or.inl rfl⟩, by simp [sitePath, hp]⟩

/-- a name that a class body binds by an import is not the name of a definition -/
theorem def_import_absurd {proj : Project} {rank : List Nat} (wf : WFacts proj rank) (ciu : CIU proj) {S : Site}
    {b : List Stmt} {st : Stmt} {y : Name} (hb : siteBody proj S = some b) (hst : st ∈ b) (hd : st.defName = some y)
    {A : Site} (hm : (A, y) ∈ classImportList proj) : False := by
  have hE := def_static hb hst hd
  rcases ciu.fresh A y hm with hr | hn
  · obtain ⟨root, hrs, hrp⟩ := root_static hr
    have := site_unique_last wf hE hrs (by rw [def_last, hrp]; rfl)
    injection this with _ h2
    simp at h2
  · exact hn _ (static_mem_entities hE) (def_last proj S y)

/-- with `classImportsUnique`, the class-level bindings of a name all over the project agree -/
theorem class_bind_same {proj : Project} {rank : List Nat} (wf : WFacts proj rank) (ciu : CIU proj) {S A : Site}
    (hS : S.2 ≠ []) (hA : A.2 ≠ []) {y : Name} {v w : SVal} (h1 : Jpy proj S [y] v) (h2 : Jpy proj A [y] w) : v = w := by
  obtain ⟨b1, st1, hb1, hst1, hx1, hc1⟩ := jpy_class_inv wf hS h1
  obtain ⟨b2, st2, hb2, hst2, hx2, hc2⟩ := jpy_class_inv wf hA h2
  rcases hc1 with ⟨hd1, hv⟩ | hd1 <;> rcases hc2 with ⟨hd2, hw⟩ | hd2
  · have := site_unique_last wf (def_static hb1 hst1 hd1) (def_static hb2 hst2 hd2) (by rw [def_last, def_last])
    injection this with e1 e2
    rw [hv, hw, e1, e2]
  · exact (def_import_absurd wf ciu hb1 hst1 hd1 (classImportList_mem hb2 hA hst2 hd2 hx2)).elim
  · exact (def_import_absurd wf ciu hb2 hst2 hd2 (classImportList_mem hb1 hS hst1 hd1 hx1)).elim
  · have := ciu.one S A y (classImportList_mem hb1 hS hst1 hd1 hx1) (classImportList_mem hb2 hA hst2 hd2 hx2)
    subst this
    exact jpy_fun wf h1 h2

/-- an entity called `y` that is registered below another object, and a class-level binding of `y`:
the binding is that entity -/
theorem entity_is_binding {proj : Project} {rank : List Nat} (wf : WFacts proj rank) (ciu : CIU proj) {Sc : Site}
    (hSc : StaticSite proj Sc) {q : Path} (hq : q ≠ []) {y : Name} (hp : sitePath proj Sc = q ++ [y])
    {A : Site} (hA : A.2 ≠ []) {w : SVal} (hj : Jpy proj A [y] w) : w = svalOf Sc := by
  have hlast : (sitePath proj Sc).getLast? = some y := by rw [hp]; simp
  obtain ⟨b, st, hb, hst, hx, hc⟩ := jpy_class_inv wf hA hj
  rcases hc with ⟨hd, hw⟩ | hd
  · have := site_unique_last wf hSc (def_static hb hst hd) (by rw [hlast, def_last])
    subst this
    rw [hw]; simp [svalOf]
  · exfalso
    rcases ciu.fresh A y (classImportList_mem hb hA hst hd hx) with hr | hn
    · obtain ⟨root, hrs, hrp⟩ := root_static hr
      have := site_unique_last wf hSc hrs (by rw [hlast, hrp]; rfl)
      subst this
      rw [hrp] at hp
      have hl := congrArg List.length hp
      simp only [List.length_append, List.length_singleton, List.length_cons, List.length_nil] at hl
      exact hq (List.eq_nil_of_length_eq_zero (by omega))
    · exact hn _ (static_mem_entities hSc) hlast

/-! ## attribute access with inheritance -/

/-- one step of a dotted name: the binding of `y` in scope `S` itself, or — for an attribute of a
class (not the first component) — in the body of SOME class (over-approximation of the MRO walk) -/
def Step (proj : Project) (f : Bool) (S : Site) (y : Name) (w : SVal) : Prop :=
  Jpy proj S [y] w ∨ (f = false ∧ IsClassSite proj S ∧ ∃ A : Site, A.2 ≠ [] ∧ Jpy proj A [y] w)

/-- `Jpy` with inherited attribute steps -/
inductive JpyI (proj : Project) : Bool → Site → List Name → SVal → Prop
  | one {f : Bool} {S : Site} {y : Name} {v : SVal} : Step proj f S y v → JpyI proj f S [y] v
  | cons {f : Bool} {S : Site} {y y2 : Name} {ys : List Name} {w v : SVal} :
      Step proj f S y w → JpyI proj false (scopeOf w) (y2 :: ys) v → JpyI proj f S (y :: y2 :: ys) v

theorem Step.weaken {proj : Project} {f : Bool} {S : Site} {y : Name} {w : SVal} (h : Step proj f S y w) :
    Step proj false S y w := by
  rcases h with h | ⟨_, h⟩
  · exact Or.inl h
  · exact Or.inr ⟨rfl, h⟩

theorem Step.ofMod {proj : Project} {f g : Bool} {S : Site} (hS : S.2 = []) {y : Name} {w : SVal}
    (h : Step proj f S y w) : Step proj g S y w := by
  rcases h with h | ⟨_, h, _⟩
  · exact Or.inl h
  · exact absurd hS h.ne

theorem JpyI.one_inv {proj : Project} {f : Bool} {S : Site} {y : Name} {v : SVal} (h : JpyI proj f S [y] v) :
    Step proj f S y v := by
  cases h with
  | one h => exact h

theorem JpyI.cons_inv {proj : Project} {f : Bool} {S : Site} {y y2 : Name} {ys : List Name} {v : SVal}
    (h : JpyI proj f S (y :: y2 :: ys) v) : ∃ w, Step proj f S y w ∧ JpyI proj false (scopeOf w) (y2 :: ys) v := by
  cases h with
  | cons h1 h2 => exact ⟨_, h1, h2⟩

theorem JpyI.weaken {proj : Project} {f : Bool} {S : Site} {ys : List Name} {v : SVal} (h : JpyI proj f S ys v) :
    JpyI proj false S ys v := by
  cases h with
  | one h => exact .one h.weaken
  | cons h1 h2 => exact .cons h1.weaken h2

theorem JpyI.ofMod {proj : Project} {f g : Bool} {S : Site} (hS : S.2 = []) {ys : List Name} {v : SVal}
    (h : JpyI proj f S ys v) : JpyI proj g S ys v := by
  cases h with
  | one h => exact .one (h.ofMod hS)
  | cons h1 h2 => exact .cons (h1.ofMod hS) h2

/-- a derivation without inherited steps is one with -/
theorem JpyI.ofJpy {proj : Project} (f : Bool) : ∀ {ys : List Name} {S : Site} {v : SVal}, Jpy proj S ys v → ys ≠ [] →
    JpyI proj f S ys v
  | [], _, _, _, hne => absurd rfl hne
  | [y], _, _, h, _ => .one (Or.inl h)
  | y :: y2 :: ys, S, v, h, _ => by
    obtain ⟨w, h1, h2⟩ := jpy_cons_inv h
    exact .cons (Or.inl h1) (JpyI.ofJpy false h2 (by simp))

theorem jpy_ne_nil {proj : Project} {S : Site} {ys : List Name} {v : SVal} (h : Jpy proj S ys v) : ys ≠ [] := by
  cases h <;> simp

theorem JpyI.append {proj : Project} : ∀ {xs : List Name} {f : Bool} {S : Site} {w v : SVal} {y : Name} {ys : List Name},
    JpyI proj f S xs w → JpyI proj false (scopeOf w) (y :: ys) v → JpyI proj f S (xs ++ y :: ys) v
  | [], _, _, _, _, _, _, h1, _ => by cases h1
  | [x], _, _, _, _, _, _, h1, h2 => .cons h1.one_inv h2
  | x :: x2 :: xs, f, S, w, v, y, ys, h1, h2 => by
    obtain ⟨w1, ha, hb⟩ := h1.cons_inv
    exact .cons ha (JpyI.append (xs := x2 :: xs) hb h2)

/-- a step from a scope in which the plain derivation binds the name gives the same value -/
theorem step_fun {proj : Project} {rank : List Nat} (wf : WFacts proj rank) (ciu : CIU proj) {f : Bool} {S : Site}
    {y : Name} {v w : SVal} (h1 : Jpy proj S [y] v) (h2 : Step proj f S y w) : v = w := by
  rcases h2 with h2 | ⟨_, hS, A, hA, h2⟩
  · exact jpy_fun wf h1 h2
  · exact class_bind_same wf ciu hS.ne hA h1 h2

/-- **functionality**: what the derivation with inherited steps gives for a name that the plain
derivation binds is the same value -/
theorem jpyI_fun {proj : Project} {rank : List Nat} (wf : WFacts proj rank) (ciu : CIU proj) :
    ∀ {ys : List Name} {f : Bool} {S : Site} {v w : SVal}, Jpy proj S ys v → JpyI proj f S ys w → v = w
  | [], _, _, _, _, h, _ => absurd rfl (jpy_ne_nil h)
  | [y], _, _, _, _, h1, h2 => step_fun wf ciu h1 h2.one_inv
  | y :: y2 :: ys, _, _, _, _, h1, h2 => by
    obtain ⟨w1, ha, hb⟩ := jpy_cons_inv h1
    obtain ⟨w2, hc, hd⟩ := h2.cons_inv
    have := step_fun wf ciu ha hc
    subst this
    exact jpyI_fun wf ciu hb hd

/-! ## absolute names, with inherited steps -/

/-- the absolute dotted name `p` denotes `v` (inherited attribute steps allowed) if its first
component is a root module at all -/
def AbsDenIW (proj : Project) (p : Path) (v : SVal) : Prop :=
  ∀ r rest root, p = r :: rest → modIdx proj [r] = some root →
    ((rest = [] ∧ v = .mod root) ∨ (rest ≠ [] ∧ JpyI proj true (root, []) rest v))

theorem AbsDenW.toI {proj : Project} {p : Path} {v : SVal} (h : AbsDenW proj p v) : AbsDenIW proj p v := by
  intro r rest root hp hr
  rcases h r rest root hp hr with h | ⟨hne, hj⟩
  · exact Or.inl h
  · exact Or.inr ⟨hne, JpyI.ofJpy true hj hne⟩

theorem AbsDenIW.ext {proj : Project} {p : Path} {w v : SVal} {y : Name} {ys : List Name}
    (h : AbsDenIW proj p w) (hp : p ≠ []) (h2 : JpyI proj false (scopeOf w) (y :: ys) v) :
    AbsDenIW proj (p ++ y :: ys) v := by
  intro r rest root he hr
  cases p with
  | nil => exact absurd rfl hp
  | cons r0 rest0 =>
    simp only [List.cons_append] at he
    injection he with e1 e2; subst e1; subst e2
    refine Or.inr ⟨by simp, ?_⟩
    rcases h r0 rest0 root rfl hr with ⟨h0, hw⟩ | ⟨hne, hj⟩
    · subst h0; subst hw
      simpa [scopeOf] using (h2.ofMod (g := true) (by simp [scopeOf]))
    · exact JpyI.append hj h2

theorem AbsDenI.fun {proj : Project} {rank : List Nat} (wf : WFacts proj rank) (ciu : CIU proj) {p : Path} {v w : SVal}
    (h1 : AbsDen proj p v) (h2 : AbsDenIW proj p w) : v = w := by
  obtain ⟨r, rest, root, hp, hr, hv⟩ := h1
  rcases hv with ⟨h0, hv⟩ | ⟨hne, hj⟩ <;> rcases h2 r rest root hp hr with ⟨h0', hw⟩ | ⟨hne', hj'⟩
  · rw [hv, hw]
  · exact absurd h0 hne'
  · exact absurd h0' hne
  · exact jpyI_fun wf ciu hj hj'

end Imports

/-! ## Python: what `pyDenotes` answers is a `JpyI` derivation (no `pyOwn` needed) -/

namespace Imports
open Registry
open PyImp

theorem getAttr_jI {proj : Project} {s : PyImp.St} (hI : PyInv proj s) {v0 v1 : Val} {sv0 : SVal} {y : Name}
    (hs : svalV s v0 = some sv0) (h : getAttr s v0 y = some v1) :
    ∃ sv1, svalV s v1 = some sv1 ∧ Step proj false (scopeOf sv0) y sv1 := by
  cases v0 with
  | mod t =>
    simp only [svalV, Option.some.injEq] at hs; subst hs
    obtain ⟨sv1, h1, h2⟩ := hI.mods t y v1 h
    exact ⟨sv1, h1, Or.inl h2⟩
  | obj m cp => simp [getAttr] at h
  | cls hh =>
    simp only [svalV] at hs
    cases hc : s.heap[hh]? with
    | none => simp [hc] at hs
    | some co =>
      simp only [hc, Option.map_some, Option.some.injEq] at hs; subst hs
      simp only [getAttr] at h
      cases hm : PyImp.mroOf s hh with
      | none => simp [hm] at h
      | some l =>
        simp only [hm] at h
        obtain ⟨b, _, hb⟩ := List.exists_of_findSome?_eq_some h
        cases hcb : s.heap[b]? with
        | none => simp [hcb] at hb
        | some cb =>
          simp only [hcb] at hb
          obtain ⟨sv1, h1, h2⟩ := hI.heap b cb hcb y v1 hb
          exact ⟨sv1, h1, Or.inr ⟨rfl, hI.cls hh co hc, (cb.mod, cb.cp), (hI.cls b cb hcb).ne, h2⟩⟩

theorem getAttrs_jI {proj : Project} {s : PyImp.St} (hI : PyInv proj s) :
    ∀ (ys : List Name) (v0 v : Val) (sv0 : SVal), svalV s v0 = some sv0 → getAttrs s v0 ys = some v → ys ≠ [] →
      ∃ sv, svalV s v = some sv ∧ JpyI proj false (scopeOf sv0) ys sv
  | [], _, _, _, _, _, hne => absurd rfl hne
  | [y], v0, v, sv0, hs, h, _ => by
    simp only [getAttrs] at h
    cases ha : getAttr s v0 y with
    | none => simp [ha] at h
    | some w =>
      simp only [ha, getAttrs, Option.some.injEq] at h; subst h
      obtain ⟨sv, h1, h2⟩ := getAttr_jI hI hs ha
      exact ⟨sv, h1, .one h2⟩
  | y :: y2 :: ys, v0, v, sv0, hs, h, _ => by
    simp only [getAttrs] at h
    cases ha : getAttr s v0 y with
    | none => simp [ha] at h
    | some w =>
      simp only [ha] at h
      obtain ⟨sw, hsw, hjw⟩ := getAttr_jI hI hs ha
      obtain ⟨sv, hsv, hj⟩ := getAttrs_jI hI (y2 :: ys) w v sw hsw h (by simp)
      exact ⟨sv, hsv, .cons hjw hj⟩

theorem denoteIn_jI {proj : Project} {s : PyImp.St} (hI : PyInv proj s) {S : Site} {ns : Ns} (hns : NsOk proj s S ns)
    {name : Path} {v : Val} (h : denoteIn s ns name = some v) :
    ∃ sv, svalV s v = some sv ∧ JpyI proj true S name sv := by
  cases name with
  | nil => simp [denoteIn] at h
  | cons x rest =>
    simp only [denoteIn] at h
    cases hd : dget ns x with
    | none => simp [hd] at h
    | some v0 =>
      simp only [hd] at h
      obtain ⟨sv0, hs0, hj0⟩ := hns x v0 hd
      cases rest with
      | nil => simp only [getAttrs, Option.some.injEq] at h; subst h; exact ⟨sv0, hs0, .one (Or.inl hj0)⟩
      | cons y ys =>
        obtain ⟨sv, hsv, hj⟩ := getAttrs_jI hI (y :: ys) v0 v sv0 hs0 h (by simp)
        exact ⟨sv, hsv, .cons (Or.inl hj0) hj⟩

/-- **what Python's run answers is derivable**, inherited attribute steps included -/
theorem pyDenotes_jI {proj : Project} {rank : List Nat} (wf : WFacts proj rank) {order : List Nat} {m : Nat}
    {cp : List Name} {name : Path} {id : Ident} (h : pyDenotes proj order m cp name = some id) :
    ∃ S sv, ((cp = [] ∧ S = (m, [])) ∨ (cp ≠ [] ∧ Jpy proj (m, []) cp (.dfn S.1 S.2))) ∧
      JpyI proj true S name sv ∧ identSV proj sv = id := by
  have hI := run_py_ok wf order
  unfold pyDenotes denoteAt at h
  generalize PyImp.run proj order = s at hI h
  split at h
  · cases h
  · cases hw : walkNs s (nsOf s m) cp with
    | none => simp [hw] at h
    | some ns =>
      simp only [hw] at h
      cases hd : denoteIn s ns name with
      | none => simp [hd] at h
      | some v =>
        simp only [hd] at h
        obtain ⟨S, hns, hcase⟩ := walkNs_j hI cp _ ns (m, []) (hI.mods m) hw
        obtain ⟨sv, hsv, hj⟩ := denoteIn_jI hI hns hd
        rw [identOf_sval hsv] at h
        injection h with h
        exact ⟨S, sv, hcase, hj, h⟩

end Imports

/-! ## the members of pydoctor's linearisations are class objects -/

namespace Imports
open Registry

theorem pick_mem (ls : List (List Nat)) : ∀ (hs : List (Option Nat)) (h : Nat), Mro.pick ls hs = some h → some h ∈ hs
  | [], _, hp => by simp [Mro.pick] at hp
  | none :: hs, h, hp => by
    simp only [Mro.pick] at hp
    exact List.mem_cons_of_mem _ (pick_mem ls hs h hp)
  | some a :: hs, h, hp => by
    simp only [Mro.pick] at hp
    split at hp
    · exact List.mem_cons_of_mem _ (pick_mem ls hs h hp)
    · injection hp with hp; subst hp; exact List.mem_cons_self ..

theorem pop_subset (x : Nat) : ∀ (l : List Nat) (a : Nat), a ∈ Mro.pop x l → a ∈ l
  | [], _, h => by simp [Mro.pop] at h
  | h :: t, a, ha => by
    simp only [Mro.pop] at ha
    split at ha
    · exact List.mem_cons_of_mem _ ha
    · exact ha

theorem mergeFuel_mem' : ∀ (f : Nat) (ls : List (List Nat)) (out : List Nat),
    Mro.mergeFuel f ls = some out → ∀ x ∈ out, ∃ l ∈ ls, x ∈ l
  | 0, _, _, h => by simp [Mro.mergeFuel] at h
  | f+1, ls, out, h => by
    intro x hx
    simp only [Mro.mergeFuel] at h
    split at h
    · injection h with h; subst h; cases hx
    · cases hp : Mro.pick ls (ls.map Mro.head) with
      | none => simp [hp] at h
      | some hd =>
        simp only [hp] at h
        cases hm : Mro.mergeFuel f (Mro.remove hd ls) with
        | none => simp [hm] at h
        | some out' =>
          simp only [hm, Option.map_some, Option.some.injEq] at h; subst h
          rcases List.mem_cons.1 hx with rfl | hx'
          · have := pick_mem ls _ _ hp
            obtain ⟨l, hl, hh⟩ := List.mem_map.1 this
            refine ⟨l, hl, ?_⟩
            unfold Mro.head at hh
            exact List.mem_of_mem_head? hh
          · obtain ⟨l', hl', hxl⟩ := mergeFuel_mem' f _ _ hm x hx'
            simp only [Mro.remove, List.mem_map] at hl'
            obtain ⟨l, hl, rfl⟩ := hl'
            exact ⟨l, hl, pop_subset _ l x hxl⟩

theorem mapOpt_mem {α β : Type} (g : α → Option β) : ∀ (xs : List α) (ys : List β), Mro.mapOpt g xs = some ys →
    ∀ y ∈ ys, ∃ x ∈ xs, g x = some y
  | [], ys, h, y, hy => by simp only [Mro.mapOpt, Option.some.injEq] at h; subst h; cases hy
  | x :: xs, ys, h, y, hy => by
    simp only [Mro.mapOpt] at h
    cases hg : g x with
    | none => simp [hg] at h
    | some y0 =>
      simp only [hg] at h
      cases hm : Mro.mapOpt g xs with
      | none => simp [hm] at h
      | some ys0 =>
        simp only [hm, Option.some.injEq] at h; subst h
        rcases List.mem_cons.1 hy with rfl | hy'
        · exact ⟨x, List.mem_cons_self .., hg⟩
        · obtain ⟨x', hx', hgx⟩ := mapOpt_mem g xs ys0 hm y hy'
          exact ⟨x', List.mem_cons_of_mem _ hx', hgx⟩

/-- a member of a linearisation is the class itself or a base of some class -/
theorem mroFuel_mem' (bases : Nat → List Nat) : ∀ (f c : Nat) (l : List Nat), Mro.mroFuel bases f c = some l →
    ∀ x ∈ l, x = c ∨ ∃ d, x ∈ bases d
  | 0, _, _, h => by simp [Mro.mroFuel] at h
  | f+1, c, l, h => by
    intro x hx
    simp only [Mro.mroFuel] at h
    split at h
    · injection h with h; subst h
      simp only [List.mem_singleton] at hx; exact Or.inl hx
    · cases hm : Mro.mapOpt (Mro.mroFuel bases f) (bases c) with
      | none => simp [hm] at h
      | some lins =>
        simp only [hm] at h
        cases hp : Mro.merge (lins ++ [bases c]) with
        | none => simp [hp] at h
        | some t =>
          simp only [hp, Option.map_some, Option.some.injEq] at h; subst h
          rcases List.mem_cons.1 hx with rfl | hx'
          · exact Or.inl rfl
          · right
            obtain ⟨l', hl', hxl⟩ := mergeFuel_mem' _ _ _ hp x hx'
            rcases List.mem_append.1 hl' with hl' | hl'
            · obtain ⟨b, hb, hfb⟩ := mapOpt_mem _ _ _ hm l' hl'
              rcases mroFuel_mem' bases f b l' hfb x hxl with rfl | hd
              · exact ⟨c, hb⟩
              · exact hd
            · simp only [List.mem_singleton] at hl'; subst hl'
              exact ⟨c, hxl⟩

theorem allbasesFuel_mem (bases : Nat → List Nat) (ext : Nat → Bool) : ∀ (f c x : Nat),
    x ∈ Mro.allbasesFuel bases ext f c → x = c ∨ ∃ d, x ∈ bases d
  | 0, _, _, h => by simp [Mro.allbasesFuel] at h
  | f+1, c, x, h => by
    simp only [Mro.allbasesFuel, List.mem_cons, List.mem_flatMap, List.mem_filter] at h
    rcases h with h | ⟨b, ⟨hb, _⟩, hx⟩
    · exact Or.inl h
    · right
      rcases allbasesFuel_mem bases ext f b x hx with rfl | hd
      · exact ⟨c, hb⟩
      · exact hd

/-- the final bases of a class are class objects -/
theorem finalBases_class {proj : Project} {s : St} (hI : PdInv proj s) {c b : Nat} (hb : b ∈ finalBases s c) :
    ∃ o : Obj, s.reg.objs[b]? = some o ∧ o.cls = .cls := by
  have hcls : ∀ b, isClassObj s.reg b = true → ∃ o : Obj, s.reg.objs[b]? = some o ∧ o.cls = .cls := by
    intro b hcl
    unfold isClassObj at hcl
    cases hg : getObj s.reg b with
    | none => simp [hg] at hcl
    | some o =>
      simp only [hg, beq_iff_eq] at hcl
      exact ⟨o, hg, hcl⟩
  unfold finalBases at hb
  cases hd : dget s.cinfo c with
  | none => simp [hd] at hb
  | some ci =>
    simp only [hd, List.mem_filterMap] at hb
    obtain ⟨x, hx, hxb⟩ := hb
    cases hx2 : x.2 with
    | some b' =>
      simp only [hx2, Option.some.injEq] at hxb; subst hxb
      have hmem : some b' ∈ ci.objs := by
        have := (List.of_mem_zip (show (x.1, x.2) ∈ _ from hx)).2
        rw [hx2] at this; exact this
      exact hI.cbase (c, ci) (mem_of_dget hd) b' hmem
    | none =>
      simp only [hx2] at hxb
      split at hxb
      · rename_i b0 hb0
        injection hxb with hxb; subst hxb
        split at hb0
        · split at hb0
          · rename_i hcl; injection hb0 with hb0; subst hb0; exact hcls _ hcl
          · cases hb0
        · cases hb0
      · split at hxb
        · split at hxb
          · rename_i hcl; injection hxb with hxb; subst hxb; exact hcls _ hcl
          · cases hxb
        · cases hxb

/-- **every member of a final linearisation other than the class itself is a class object** -/
theorem mro_member_class {proj : Project} {s : St} (hI : PdInv proj s) {i b : Nat}
    (hb : b ∈ Names.mroOf (finalEnv s) i) : b = i ∨ ∃ o : Obj, s.reg.objs[b]? = some o ∧ o.cls = .cls := by
  unfold Names.mroOf finalEnv at hb
  simp only at hb
  cases hd : dget (finalMro s) i with
  | none => simp [hd] at hb; exact Or.inl hb
  | some v =>
    unfold finalMro at hd
    have := dget_map_key (fun c => match Mro.mroFuel (finalBases s) (s.reg.objs.length + 1) c with
      | some l => l
      | none => Mro.allbasesFuel (finalBases s) (fun _ => false) (s.reg.objs.length + 1) c) _ _ _ hd
    have hfm : dget (finalMro s) i = some v := by unfold finalMro; exact hd
    rw [hfm] at hb
    simp only [Option.getD_some, this] at hb
    have hor : b = i ∨ ∃ d, b ∈ finalBases s d := by
      cases hm : Mro.mroFuel (finalBases s) (s.reg.objs.length + 1) i with
      | some l => simp only [hm] at hb; exact mroFuel_mem' _ _ _ _ hm b hb
      | none => simp only [hm] at hb; exact allbasesFuel_mem _ _ _ _ _ hb
    rcases hor with h | ⟨d, hd'⟩
    · exact Or.inl h
    · exact Or.inr (finalBases_class hI hd')

end Imports
