/-
C04, inherited members: soundness of `resolveName` for dotted names whose attribute steps go through
an INHERITED member of a class, for the decidable sub-class `classImportsUnique` of `WF`.

Why no reasoning about the ORDER of the MRO (nor about how the bases are resolved) is needed: names of
definitions are globally unique (`namesUnique`), and `classImportsUnique` says that a name bound by an
import inside a class body is not the name of a definition made inside a class body and that the imports
binding it in other class bodies bind it to the same thing — so the BINDING of an attribute name is the
same in every class body that binds it (`class_bind_same`).  `Step` is the over-approximation of Python's
`type.__getattribute__`: the attribute is found in the class's own namespace, or in the namespace of SOME
class.  pydoctor's `classLookup` walks ITS linearisation and finds the name in the contents / alias map
of some class object; both finds are the same binding (`content_den`, `alias_den`).
-/
import PdProps.C04Base

namespace Imports
open Registry

/-! ## the sub-class: imports in class bodies -/

theorem classImports_here {proj : Project} {m : Nat} {cp : List Name} (hcp : cp ≠ []) :
    ∀ {body : List Stmt} {st : Stmt} {x : Name},
    st ∈ body → st.defName = none → x ∈ explicitNames st → ((m, cp), x, impKey proj m st) ∈ classImports proj m cp body
  | [], _, _, h, _, _ => by cases h
  | s0 :: rest, st, x, h, hd, hx => by
    simp only [classImports, List.mem_append]
    rcases List.mem_cons.1 h with rfl | h'
    · left
      have hne : cp.isEmpty = false := by cases cp <;> simp_all
      cases st <;> simp_all [Stmt.defName, classImportsStmt]
    · right; exact classImports_here hcp h' hd hx

theorem classImports_class {proj : Project} {m : Nat} {pre : List Name} {c : Name} {bs : List Path} {b1 : List Stmt} :
    ∀ {body : List Stmt}, Stmt.classDef c bs b1 ∈ body → ∀ {e}, e ∈ classImports proj m (pre ++ [c]) b1 →
      e ∈ classImports proj m pre body
  | [], h, _, _ => by cases h
  | x :: xs, h, e, he => by
    simp only [classImports, List.mem_append]
    rcases List.mem_cons.1 h with rfl | h'
    · left; simp only [classImportsStmt]; exact he
    · right; exact classImports_class h' he

theorem classImports_mem {proj : Project} {m : Nat} : ∀ {cs pre : List Name} {body b : List Stmt} {st : Stmt} {x : Name},
    bodyAt body cs = some b → st ∈ b → st.defName = none → x ∈ explicitNames st → pre ++ cs ≠ [] →
      ((m, pre ++ cs), x, impKey proj m st) ∈ classImports proj m pre body
  | [], pre, body, b, st, x, hb, hst, hd, hx, hne => by
    simp only [bodyAt, Option.some.injEq] at hb; subst hb
    simp only [List.append_nil] at hne ⊢
    exact classImports_here hne hst hd hx
  | c :: cs, pre, body, b, st, x, hb, hst, hd, hx, _ => by
    simp only [bodyAt] at hb
    cases hf : findClass body c with
    | none => simp [hf] at hb
    | some b1 =>
      simp only [hf] at hb
      obtain ⟨bs, hm⟩ := findClass_mem hf
      have := classImports_mem (proj := proj) (m := m) (pre := pre ++ [c]) hb hst hd hx (by simp)
      have e : pre ++ [c] ++ cs = pre ++ c :: cs := by simp
      rw [e] at this
      exact classImports_class hm this

theorem classImportList_mem {proj : Project} {S : Site} {b : List Stmt} (hb : siteBody proj S = some b) (hS : S.2 ≠ [])
    {st : Stmt} {x : Name} (hst : st ∈ b) (hd : st.defName = none) (hx : x ∈ explicitNames st) :
    (S, x, impKey proj S.1 st) ∈ classImportList proj := by
  obtain ⟨m, cp⟩ := S
  unfold classImportList
  rw [List.mem_flatMap]
  refine ⟨m, List.mem_range.2 (siteBody_lt hb), ?_⟩
  have := classImports_mem (proj := proj) (m := m) (pre := []) (siteBody_bodyAt hb) hst hd hx (by simpa using hS)
  simpa using this

/-- what `classImportsUnique` says -/
structure CIU (proj : Project) : Prop where
  fresh : ∀ S x k, (S, x, k) ∈ classImportList proj →
    ∀ E ∈ entities proj, 2 ≤ E.2.length → (sitePath proj E).getLast? ≠ some x
  one : ∀ S S' x k k', (S, x, k) ∈ classImportList proj → (S', x, k') ∈ classImportList proj → S = S' ∨ k = k'

theorem CIU.of {proj : Project} (h : classImportsUnique proj = true) : CIU proj := by
  unfold classImportsUnique at h
  simp only [List.all_eq_true, Bool.and_eq_true, Bool.or_eq_true, Bool.not_eq_true', bne_iff_ne, ne_eq,
    beq_iff_eq, Prod.forall] at h
  constructor
  · intro S x k hm E hE h2 heq
    obtain ⟨m, cp⟩ := S
    have hn := (h m cp x k hm).1
    have : (List.map (fun S => (sitePath proj S).getLast?)
        (List.filter (fun S => decide (2 ≤ S.2.length)) (entities proj))).contains (some x) = true := by
      rw [List.contains_iff_mem]
      exact List.mem_map.2 ⟨E, List.mem_filter.2 ⟨hE, by simpa using h2⟩, heq⟩
    rw [this] at hn; cases hn
  · intro S S' x k k' hm hm'
    obtain ⟨m, cp⟩ := S
    obtain ⟨m', cp'⟩ := S'
    rcases (h m cp x k hm).2 m' cp' x k' hm' with (hne | heq) | heq
    · exact absurd rfl hne
    · exact Or.inl heq
    · exact Or.inr heq

/-! ## bindings in class bodies -/

/-- a class-level binding is a definition of the class or an import in its body -/
theorem jpy_class_inv {proj : Project} {rank : List Nat} (wf : WFacts proj rank) {A : Site} (hA : A.2 ≠ []) {y : Name}
    {w : SVal} (h : Jpy proj A [y] w) :
    ∃ b st, siteBody proj A = some b ∧ st ∈ b ∧ y ∈ explicitNames st ∧ StmtJ proj A st y w ∧
      ((st.defName = some y ∧ w = .dfn A.1 (A.2 ++ [y])) ∨ st.defName = none) := by
  rcases jpy_inv wf h with ⟨h0, _⟩ | ⟨b, st, hb, hst, hxs, hJ⟩
  · exact absurd h0 hA
  · have hex : y ∈ explicitNames st := explicit_of_stmtNames (fun lvl M hst' => hA (wf.nostar hb (hst' ▸ hst))) hxs
    refine ⟨b, st, hb, hst, hex, hJ, ?_⟩
    cases st <;> simp_all [Stmt.defName, StmtJ, explicitNames]

theorem def_static {proj : Project} {A : Site} {b : List Stmt} {st : Stmt} {y : Name} (hb : siteBody proj A = some b)
    (hst : st ∈ b) (hd : st.defName = some y) : StaticSite proj (A.1, A.2 ++ [y]) :=
  ⟨(siteBody_lt hb : A.1 < proj.length), Or.inr ⟨A.2, y, b, st, rfl, hb, hst, hd⟩⟩

theorem def_last (proj : Project) (A : Site) (y : Name) : (sitePath proj (A.1, A.2 ++ [y])).getLast? = some y := by
  simp [sitePath, ← List.append_assoc]

/-- a name that a class body binds by an import is not the name of a definition made in a class body -/
theorem def_import_absurd {proj : Project} (ciu : CIU proj) {S : Site} (hS : S.2 ≠ [])
    {b : List Stmt} {st : Stmt} {y : Name} (hb : siteBody proj S = some b) (hst : st ∈ b) (hd : st.defName = some y)
    {A : Site} {k : ImpKey} (hm : (A, y, k) ∈ classImportList proj) : False := by
  have hE := def_static hb hst hd
  refine ciu.fresh A y k hm _ (static_mem_entities hE) ?_ (def_last proj S y)
  have : 1 ≤ S.2.length := by
    cases h : S.2 with
    | nil => exact absurd h hS
    | cons a as => simp
  simp only [List.length_append, List.length_singleton]
  omega

/-- two import statements in class bodies that bind `y` to the same thing: what the one gives, the
other gives too -/
theorem jpy_same_key {proj : Project} {S A : Site} {b1 : List Stmt} {st1 st2 : Stmt} {y : Name}
    (hb1 : siteBody proj S = some b1) (hst1 : st1 ∈ b1) (hx1 : y ∈ explicitNames st1) (hd1 : st1.defName = none)
    (hx2 : y ∈ explicitNames st2) (hd2 : st2.defName = none)
    (hk : impKey proj S.1 st1 = impKey proj A.1 st2) {w : SVal} (hJ : StmtJ proj A st2 y w) : Jpy proj S [y] w := by
  cases st2 with
  | importMod t2 a2 =>
    cases a2 with
    | none =>
      obtain ⟨r, top, ht, hm, hw⟩ := hJ
      subst ht; subst hw
      cases st1 with
      | importMod t1 a1 =>
        cases a1 with
        | none =>
          cases t1 with
          | nil => simp [explicitNames] at hx1
          | cons h1 r1 =>
            simp only [explicitNames, List.mem_singleton] at hx1; subst hx1
            exact Jpy.importTop hb1 hst1 hm
        | some a1 => simp [impKey] at hk
      | importFrom lvl M n a => simp [impKey] at hk
      | _ => simp [Stmt.defName, explicitNames] at hd1 hx1
    | some a2 =>
      obtain ⟨hya, h, r, top, ht, hm, hv⟩ := hJ
      subst hya; subst ht
      cases st1 with
      | importMod t1 a1 =>
        cases a1 with
        | none => cases t1 <;> simp [impKey] at hk
        | some a1 =>
          simp only [impKey, ImpKey.path.injEq] at hk; subst hk
          simp only [explicitNames, List.mem_singleton] at hx1; subst hx1
          rcases hv with ⟨hr, hw⟩ | ⟨y', ys, hr, hj⟩
          · subst hr; subst hw; exact Jpy.importAs1 hb1 hst1 hm
          · subst hr; exact Jpy.importAs hb1 hst1 hm hj
      | importFrom lvl M n a => simp [impKey] at hk
      | _ => simp [Stmt.defName, explicitNames] at hd1 hx1
  | importFrom lvl2 M2 n2 a2 =>
    obtain ⟨hya, t, ht, hj⟩ := hJ
    cases st1 with
    | importMod t1 a1 => cases a1 <;> cases t1 <;> simp [impKey] at hk
    | importFrom lvl M n a =>
      simp only [impKey, ImpKey.frm.injEq] at hk
      obtain ⟨hk1, hk2⟩ := hk
      subst hk2
      simp only [explicitNames, List.mem_singleton] at hx1
      rw [hx1]
      exact Jpy.from hb1 hst1 (by rw [hk1]; exact ht) hj
    | _ => simp [Stmt.defName, explicitNames] at hd1 hx1
  | _ => simp [Stmt.defName, explicitNames] at hd2 hx2

/-- with `classImportsUnique`, the class-level bindings of a name all over the project agree -/
theorem class_bind_same {proj : Project} {rank : List Nat} (wf : WFacts proj rank) (ciu : CIU proj) {S A : Site}
    (hS : S.2 ≠ []) (hA : A.2 ≠ []) {y : Name} {v w : SVal} (h1 : Jpy proj S [y] v) (h2 : Jpy proj A [y] w) : v = w := by
  obtain ⟨b1, st1, hb1, hst1, hx1, _, hc1⟩ := jpy_class_inv wf hS h1
  obtain ⟨b2, st2, hb2, hst2, hx2, hJ2, hc2⟩ := jpy_class_inv wf hA h2
  rcases hc1 with ⟨hd1, hv⟩ | hd1 <;> rcases hc2 with ⟨hd2, hw⟩ | hd2
  · have := site_unique_last wf (def_static hb1 hst1 hd1) (def_static hb2 hst2 hd2) (by rw [def_last, def_last])
    injection this with e1 e2
    rw [hv, hw, e1, e2]
  · exact (def_import_absurd ciu hS hb1 hst1 hd1 (classImportList_mem hb2 hA hst2 hd2 hx2)).elim
  · exact (def_import_absurd ciu hA hb2 hst2 hd2 (classImportList_mem hb1 hS hst1 hd1 hx1)).elim
  · rcases ciu.one S A y _ _ (classImportList_mem hb1 hS hst1 hd1 hx1) (classImportList_mem hb2 hA hst2 hd2 hx2) with h | h
    · subst h; exact jpy_fun wf h1 h2
    · exact jpy_fun wf h1 (jpy_same_key hb1 hst1 hx1 hd1 hx2 hd2 h hJ2)

/-- an entity called `y` defined in a class body, and a class-level binding of `y`: the binding is that entity -/
theorem entity_is_binding {proj : Project} {rank : List Nat} (wf : WFacts proj rank) (ciu : CIU proj) {Sc : Site}
    (hSc : StaticSite proj Sc) (h2 : 2 ≤ Sc.2.length) {y : Name} (hlast : (sitePath proj Sc).getLast? = some y)
    {A : Site} (hA : A.2 ≠ []) {w : SVal} (hj : Jpy proj A [y] w) : w = svalOf Sc := by
  obtain ⟨b, st, hb, hst, hx, _, hc⟩ := jpy_class_inv wf hA hj
  rcases hc with ⟨hd, hw⟩ | hd
  · have := site_unique_last wf hSc (def_static hb hst hd) (by rw [hlast, def_last])
    subst this
    rw [hw]; simp [svalOf]
  · exact (ciu.fresh A y _ (classImportList_mem hb hA hst hd hx) _ (static_mem_entities hSc) h2 hlast).elim

/-! ## attribute access with inheritance -/

/-- one step of a dotted name: the binding of `y` in scope `S` itself, or — for an attribute of a
class (not the first component) — in the body of SOME class (over-approximation of the MRO walk) -/
def Step (proj : Project) (f : Bool) (S : Site) (y : Name) (w : SVal) : Prop :=
  Jpy proj S [y] w ∨ (f = false ∧ IsClassSite proj S ∧ ∃ A : Site, A.2 ≠ [] ∧ Jpy proj A [y] w)

/-- `Jpy` with inherited attribute steps -/
inductive JpyI (proj : Project) : Bool → Site → List Name → SVal → Prop
  | one {f : Bool} {S : Site} {y : Name} {v : SVal} : Step proj f S y v → JpyI proj f S [y] v
  | cons {f : Bool} {S : Site} {y y2 : Name} {ys : List Name} {w v : SVal} :
      Step proj f S y w → JpyI proj false (scopeOf w) (y2 :: ys) v → JpyI proj f S (y :: y2 :: ys) v

theorem Step.weaken {proj : Project} {f : Bool} {S : Site} {y : Name} {w : SVal} (h : Step proj f S y w) :
    Step proj false S y w := by
  rcases h with h | ⟨_, h⟩
  · exact Or.inl h
  · exact Or.inr ⟨rfl, h⟩

theorem Step.ofMod {proj : Project} {f g : Bool} {S : Site} (hS : S.2 = []) {y : Name} {w : SVal}
    (h : Step proj f S y w) : Step proj g S y w := by
  rcases h with h | ⟨_, h, _⟩
  · exact Or.inl h
  · exact absurd hS h.ne

theorem JpyI.one_inv {proj : Project} {f : Bool} {S : Site} {y : Name} {v : SVal} (h : JpyI proj f S [y] v) :
    Step proj f S y v := by
  cases h with
  | one h => exact h

theorem JpyI.cons_inv {proj : Project} {f : Bool} {S : Site} {y y2 : Name} {ys : List Name} {v : SVal}
    (h : JpyI proj f S (y :: y2 :: ys) v) : ∃ w, Step proj f S y w ∧ JpyI proj false (scopeOf w) (y2 :: ys) v := by
  cases h with
  | cons h1 h2 => exact ⟨_, h1, h2⟩

theorem JpyI.weaken {proj : Project} {f : Bool} {S : Site} {ys : List Name} {v : SVal} (h : JpyI proj f S ys v) :
    JpyI proj false S ys v := by
  cases h with
  | one h => exact .one h.weaken
  | cons h1 h2 => exact .cons h1.weaken h2

theorem JpyI.ofMod {proj : Project} {f g : Bool} {S : Site} (hS : S.2 = []) {ys : List Name} {v : SVal}
    (h : JpyI proj f S ys v) : JpyI proj g S ys v := by
  cases h with
  | one h => exact .one (h.ofMod hS)
  | cons h1 h2 => exact .cons (h1.ofMod hS) h2

/-- a derivation without inherited steps is one with -/
theorem JpyI.ofJpy {proj : Project} (f : Bool) : ∀ {ys : List Name} {S : Site} {v : SVal}, Jpy proj S ys v → ys ≠ [] →
    JpyI proj f S ys v
  | [], _, _, _, hne => absurd rfl hne
  | [y], _, _, h, _ => .one (Or.inl h)
  | y :: y2 :: ys, S, v, h, _ => by
    obtain ⟨w, h1, h2⟩ := jpy_cons_inv h
    exact .cons (Or.inl h1) (JpyI.ofJpy false h2 (by simp))

theorem jpy_ne_nil {proj : Project} {S : Site} {ys : List Name} {v : SVal} (h : Jpy proj S ys v) : ys ≠ [] := by
  cases h <;> simp

theorem JpyI.append {proj : Project} : ∀ {xs : List Name} {f : Bool} {S : Site} {w v : SVal} {y : Name} {ys : List Name},
    JpyI proj f S xs w → JpyI proj false (scopeOf w) (y :: ys) v → JpyI proj f S (xs ++ y :: ys) v
  | [], _, _, _, _, _, _, h1, _ => by cases h1
  | [x], _, _, _, _, _, _, h1, h2 => .cons h1.one_inv h2
  | x :: x2 :: xs, f, S, w, v, y, ys, h1, h2 => by
    obtain ⟨w1, ha, hb⟩ := h1.cons_inv
    exact .cons ha (JpyI.append (xs := x2 :: xs) hb h2)

/-- a step from a scope in which the plain derivation binds the name gives the same value -/
theorem step_fun {proj : Project} {rank : List Nat} (wf : WFacts proj rank) (ciu : CIU proj) {f : Bool} {S : Site}
    {y : Name} {v w : SVal} (h1 : Jpy proj S [y] v) (h2 : Step proj f S y w) : v = w := by
  rcases h2 with h2 | ⟨_, hS, A, hA, h2⟩
  · exact jpy_fun wf h1 h2
  · exact class_bind_same wf ciu hS.ne hA h1 h2

/-- **functionality**: what the derivation with inherited steps gives for a name that the plain
derivation binds is the same value -/
theorem jpyI_fun {proj : Project} {rank : List Nat} (wf : WFacts proj rank) (ciu : CIU proj) :
    ∀ {ys : List Name} {f : Bool} {S : Site} {v w : SVal}, Jpy proj S ys v → JpyI proj f S ys w → v = w
  | [], _, _, _, _, h, _ => absurd rfl (jpy_ne_nil h)
  | [y], _, _, _, _, h1, h2 => step_fun wf ciu h1 h2.one_inv
  | y :: y2 :: ys, _, _, _, _, h1, h2 => by
    obtain ⟨w1, ha, hb⟩ := jpy_cons_inv h1
    obtain ⟨w2, hc, hd⟩ := h2.cons_inv
    have := step_fun wf ciu ha hc
    subst this
    exact jpyI_fun wf ciu hb hd

/-! ## absolute names, with inherited steps -/

/-- the absolute dotted name `p` denotes `v` (inherited attribute steps allowed) if its first
component is a root module at all -/
def AbsDenIW (proj : Project) (p : Path) (v : SVal) : Prop :=
  ∀ r rest root, p = r :: rest → modIdx proj [r] = some root →
    ((rest = [] ∧ v = .mod root) ∨ (rest ≠ [] ∧ JpyI proj true (root, []) rest v))

theorem AbsDenW.toI {proj : Project} {p : Path} {v : SVal} (h : AbsDenW proj p v) : AbsDenIW proj p v := by
  intro r rest root hp hr
  rcases h r rest root hp hr with h | ⟨hne, hj⟩
  · exact Or.inl h
  · exact Or.inr ⟨hne, JpyI.ofJpy true hj hne⟩

theorem AbsDenIW.ext {proj : Project} {p : Path} {w v : SVal} {y : Name} {ys : List Name}
    (h : AbsDenIW proj p w) (hp : p ≠ []) (h2 : JpyI proj false (scopeOf w) (y :: ys) v) :
    AbsDenIW proj (p ++ y :: ys) v := by
  intro r rest root he hr
  cases p with
  | nil => exact absurd rfl hp
  | cons r0 rest0 =>
    simp only [List.cons_append] at he
    injection he with e1 e2; subst e1; subst e2
    refine Or.inr ⟨by simp, ?_⟩
    rcases h r0 rest0 root rfl hr with ⟨h0, hw⟩ | ⟨hne, hj⟩
    · subst h0; subst hw
      simpa [scopeOf] using (h2.ofMod (g := true) (by simp [scopeOf]))
    · exact JpyI.append hj h2

theorem AbsDenI.fun {proj : Project} {rank : List Nat} (wf : WFacts proj rank) (ciu : CIU proj) {p : Path} {v w : SVal}
    (h1 : AbsDen proj p v) (h2 : AbsDenIW proj p w) : v = w := by
  obtain ⟨r, rest, root, hp, hr, hv⟩ := h1
  rcases hv with ⟨h0, hv⟩ | ⟨hne, hj⟩ <;> rcases h2 r rest root hp hr with ⟨h0', hw⟩ | ⟨hne', hj'⟩
  · rw [hv, hw]
  · exact absurd h0 hne'
  · exact absurd h0' hne
  · exact jpyI_fun wf ciu hj hj'

end Imports

/-! ## Python: what `pyDenotes` answers is a `JpyI` derivation (no `pyOwn` needed) -/

namespace Imports
open Registry
open PyImp

theorem getAttr_jI {proj : Project} {s : PyImp.St} (hI : PyInv proj s) {v0 v1 : Val} {sv0 : SVal} {y : Name}
    (hs : svalV s v0 = some sv0) (h : getAttr s v0 y = some v1) :
    ∃ sv1, svalV s v1 = some sv1 ∧ Step proj false (scopeOf sv0) y sv1 := by
  cases v0 with
  | mod t =>
    simp only [svalV, Option.some.injEq] at hs; subst hs
    obtain ⟨sv1, h1, h2⟩ := hI.mods t y v1 h
    exact ⟨sv1, h1, Or.inl h2⟩
  | obj m cp => simp [getAttr] at h
  | cls hh =>
    simp only [svalV] at hs
    cases hc : s.heap[hh]? with
    | none => simp [hc] at hs
    | some co =>
      simp only [hc, Option.map_some, Option.some.injEq] at hs; subst hs
      simp only [getAttr] at h
      cases hm : PyImp.mroOf s hh with
      | none => simp [hm] at h
      | some l =>
        simp only [hm] at h
        obtain ⟨b, _, hb⟩ := List.exists_of_findSome?_eq_some h
        cases hcb : s.heap[b]? with
        | none => simp [hcb] at hb
        | some cb =>
          simp only [hcb] at hb
          obtain ⟨sv1, h1, h2⟩ := hI.heap b cb hcb y v1 hb
          exact ⟨sv1, h1, Or.inr ⟨rfl, hI.cls hh co hc, (cb.mod, cb.cp), (hI.cls b cb hcb).ne, h2⟩⟩

theorem getAttrs_jI {proj : Project} {s : PyImp.St} (hI : PyInv proj s) :
    ∀ (ys : List Name) (v0 v : Val) (sv0 : SVal), svalV s v0 = some sv0 → getAttrs s v0 ys = some v → ys ≠ [] →
      ∃ sv, svalV s v = some sv ∧ JpyI proj false (scopeOf sv0) ys sv
  | [], _, _, _, _, _, hne => absurd rfl hne
  | [y], v0, v, sv0, hs, h, _ => by
    simp only [getAttrs] at h
    cases ha : getAttr s v0 y with
    | none => simp [ha] at h
    | some w =>
      simp only [ha, getAttrs, Option.some.injEq] at h; subst h
      obtain ⟨sv, h1, h2⟩ := getAttr_jI hI hs ha
      exact ⟨sv, h1, .one h2⟩
  | y :: y2 :: ys, v0, v, sv0, hs, h, _ => by
    simp only [getAttrs] at h
    cases ha : getAttr s v0 y with
    | none => simp [ha] at h
    | some w =>
      simp only [ha] at h
      obtain ⟨sw, hsw, hjw⟩ := getAttr_jI hI hs ha
      obtain ⟨sv, hsv, hj⟩ := getAttrs_jI hI (y2 :: ys) w v sw hsw h (by simp)
      exact ⟨sv, hsv, .cons hjw hj⟩

theorem denoteIn_jI {proj : Project} {s : PyImp.St} (hI : PyInv proj s) {S : Site} {ns : Ns} (hns : NsOk proj s S ns)
    {name : Path} {v : Val} (h : denoteIn s ns name = some v) :
    ∃ sv, svalV s v = some sv ∧ JpyI proj true S name sv := by
  cases name with
  | nil => simp [denoteIn] at h
  | cons x rest =>
    simp only [denoteIn] at h
    cases hd : dget ns x with
    | none => simp [hd] at h
    | some v0 =>
      simp only [hd] at h
      obtain ⟨sv0, hs0, hj0⟩ := hns x v0 hd
      cases rest with
      | nil => simp only [getAttrs, Option.some.injEq] at h; subst h; exact ⟨sv0, hs0, .one (Or.inl hj0)⟩
      | cons y ys =>
        obtain ⟨sv, hsv, hj⟩ := getAttrs_jI hI (y :: ys) v0 v sv0 hs0 h (by simp)
        exact ⟨sv, hsv, .cons (Or.inl hj0) hj⟩

/-- **what Python's run answers is derivable**, inherited attribute steps included -/
theorem pyDenotes_jI {proj : Project} {rank : List Nat} (wf : WFacts proj rank) {order : List Nat} {m : Nat}
    {cp : List Name} {name : Path} {id : Ident} (h : pyDenotes proj order m cp name = some id) :
    ∃ S sv, ((cp = [] ∧ S = (m, [])) ∨ (cp ≠ [] ∧ Jpy proj (m, []) cp (.dfn S.1 S.2))) ∧
      JpyI proj true S name sv ∧ identSV proj sv = id := by
  have hI := run_py_ok wf order
  unfold pyDenotes denoteAt at h
  generalize PyImp.run proj order = s at hI h
  split at h
  · cases h
  · cases hw : walkNs s (nsOf s m) cp with
    | none => simp [hw] at h
    | some ns =>
      simp only [hw] at h
      cases hd : denoteIn s ns name with
      | none => simp [hd] at h
      | some v =>
        simp only [hd] at h
        obtain ⟨S, hns, hcase⟩ := walkNs_j hI cp _ ns (m, []) (hI.mods m) hw
        obtain ⟨sv, hsv, hj⟩ := denoteIn_jI hI hns hd
        rw [identOf_sval hsv] at h
        injection h with h
        exact ⟨S, sv, hcase, hj, h⟩

end Imports

/-! ## the members of pydoctor's linearisations are class objects -/

namespace Imports
open Registry

theorem pick_mem (ls : List (List Nat)) : ∀ (hs : List (Option Nat)) (h : Nat), Mro.pick ls hs = some h → some h ∈ hs
  | [], _, hp => by simp [Mro.pick] at hp
  | none :: hs, h, hp => by
    simp only [Mro.pick] at hp
    exact List.mem_cons_of_mem _ (pick_mem ls hs h hp)
  | some a :: hs, h, hp => by
    simp only [Mro.pick] at hp
    split at hp
    · exact List.mem_cons_of_mem _ (pick_mem ls hs h hp)
    · injection hp with hp; subst hp; exact List.mem_cons_self ..

theorem pop_subset (x : Nat) : ∀ (l : List Nat) (a : Nat), a ∈ Mro.pop x l → a ∈ l
  | [], _, h => by simp [Mro.pop] at h
  | h :: t, a, ha => by
    simp only [Mro.pop] at ha
    split at ha
    · exact List.mem_cons_of_mem _ ha
    · exact ha

theorem mergeFuel_mem' : ∀ (f : Nat) (ls : List (List Nat)) (out : List Nat),
    Mro.mergeFuel f ls = some out → ∀ x ∈ out, ∃ l ∈ ls, x ∈ l
  | 0, _, _, h => by simp [Mro.mergeFuel] at h
  | f+1, ls, out, h => by
    intro x hx
    simp only [Mro.mergeFuel] at h
    split at h
    · injection h with h; subst h; cases hx
    · cases hp : Mro.pick ls (ls.map Mro.head) with
      | none => simp [hp] at h
      | some hd =>
        simp only [hp] at h
        cases hm : Mro.mergeFuel f (Mro.remove hd ls) with
        | none => simp [hm] at h
        | some out' =>
          simp only [hm, Option.map_some, Option.some.injEq] at h; subst h
          rcases List.mem_cons.1 hx with rfl | hx'
          · have := pick_mem ls _ _ hp
            obtain ⟨l, hl, hh⟩ := List.mem_map.1 this
            refine ⟨l, hl, ?_⟩
            unfold Mro.head at hh
            exact List.mem_of_mem_head? hh
          · obtain ⟨l', hl', hxl⟩ := mergeFuel_mem' f _ _ hm x hx'
            simp only [Mro.remove, List.mem_map] at hl'
            obtain ⟨l, hl, rfl⟩ := hl'
            exact ⟨l, hl, pop_subset _ l x hxl⟩

theorem mapOpt_mem {α β : Type} (g : α → Option β) : ∀ (xs : List α) (ys : List β), Mro.mapOpt g xs = some ys →
    ∀ y ∈ ys, ∃ x ∈ xs, g x = some y
  | [], ys, h, y, hy => by simp only [Mro.mapOpt, Option.some.injEq] at h; subst h; cases hy
  | x :: xs, ys, h, y, hy => by
    simp only [Mro.mapOpt] at h
    cases hg : g x with
    | none => simp [hg] at h
    | some y0 =>
      simp only [hg] at h
      cases hm : Mro.mapOpt g xs with
      | none => simp [hm] at h
      | some ys0 =>
        simp only [hm, Option.some.injEq] at h; subst h
        rcases List.mem_cons.1 hy with rfl | hy'
        · exact ⟨x, List.mem_cons_self .., hg⟩
        · obtain ⟨x', hx', hgx⟩ := mapOpt_mem g xs ys0 hm y hy'
          exact ⟨x', List.mem_cons_of_mem _ hx', hgx⟩

/-- a member of a linearisation is the class itself or a base of some class -/
theorem mroFuel_mem' (bases : Nat → List Nat) : ∀ (f c : Nat) (l : List Nat), Mro.mroFuel bases f c = some l →
    ∀ x ∈ l, x = c ∨ ∃ d, x ∈ bases d
  | 0, _, _, h => by simp [Mro.mroFuel] at h
  | f+1, c, l, h => by
    intro x hx
    simp only [Mro.mroFuel] at h
    split at h
    · injection h with h; subst h
      simp only [List.mem_singleton] at hx; exact Or.inl hx
    · cases hm : Mro.mapOpt (Mro.mroFuel bases f) (bases c) with
      | none => simp [hm] at h
      | some lins =>
        simp only [hm] at h
        cases hp : Mro.merge (lins ++ [bases c]) with
        | none => simp [hp] at h
        | some t =>
          simp only [hp, Option.map_some, Option.some.injEq] at h; subst h
          rcases List.mem_cons.1 hx with rfl | hx'
          · exact Or.inl rfl
          · right
            obtain ⟨l', hl', hxl⟩ := mergeFuel_mem' _ _ _ hp x hx'
            rcases List.mem_append.1 hl' with hl' | hl'
            · obtain ⟨b, hb, hfb⟩ := mapOpt_mem _ _ _ hm l' hl'
              rcases mroFuel_mem' bases f b l' hfb x hxl with rfl | hd
              · exact ⟨c, hb⟩
              · exact hd
            · simp only [List.mem_singleton] at hl'; subst hl'
              exact ⟨c, hxl⟩

theorem allbasesFuel_mem (bases : Nat → List Nat) (ext : Nat → Bool) : ∀ (f c x : Nat),
    x ∈ Mro.allbasesFuel bases ext f c → x = c ∨ ∃ d, x ∈ bases d
  | 0, _, _, h => by simp [Mro.allbasesFuel] at h
  | f+1, c, x, h => by
    simp only [Mro.allbasesFuel, List.mem_cons, List.mem_flatMap, List.mem_filter] at h
    rcases h with h | ⟨b, ⟨hb, _⟩, hx⟩
    · exact Or.inl h
    · right
      rcases allbasesFuel_mem bases ext f b x hx with rfl | hd
      · exact ⟨c, hb⟩
      · exact hd

/-- the final bases of a class are class objects -/
theorem finalBases_class {proj : Project} {s : St} (hI : PdInv proj s) {c b : Nat} (hb : b ∈ finalBases s c) :
    ∃ o : Obj, s.reg.objs[b]? = some o ∧ o.cls = .cls := by
  have hcls : ∀ b, isClassObj s.reg b = true → ∃ o : Obj, s.reg.objs[b]? = some o ∧ o.cls = .cls := by
    intro b hcl
    unfold isClassObj at hcl
    cases hg : getObj s.reg b with
    | none => simp [hg] at hcl
    | some o =>
      simp only [hg, beq_iff_eq] at hcl
      exact ⟨o, hg, hcl⟩
  unfold finalBases finalBasesIn at hb
  cases hd : dget s.cinfo c with
  | none => simp [hd] at hb
  | some ci =>
    simp only [hd, List.mem_filterMap] at hb
    obtain ⟨x, hx, hxb⟩ := hb
    cases hx2 : x.2 with
    | some b' =>
      simp only [hx2, Option.some.injEq] at hxb; subst hxb
      have hmem : some b' ∈ ci.objs := by
        have := (List.of_mem_zip (show (x.1, x.2) ∈ _ from hx)).2
        rw [hx2] at this; exact this
      exact hI.cbase (c, ci) (mem_of_dget hd) b' hmem
    | none =>
      simp only [hx2] at hxb
      split at hxb
      · rename_i b0 hb0
        injection hxb with hxb; subst hxb
        split at hb0
        · split at hb0
          · rename_i hcl; injection hb0 with hb0; subst hb0; exact hcls _ hcl
          · cases hb0
        · cases hb0
      · split at hxb
        · split at hxb
          · rename_i hcl; injection hxb with hxb; subst hxb; exact hcls _ hcl
          · cases hxb
        · cases hxb

/-- **every member of a final linearisation other than the class itself is a class object** -/
theorem mro_member_class {proj : Project} {s : St} (hI : PdInv proj s) {i b : Nat}
    (hb : b ∈ Names.mroOf (finalEnv s) i) : b = i ∨ ∃ o : Obj, s.reg.objs[b]? = some o ∧ o.cls = .cls := by
  unfold Names.mroOf finalEnv at hb
  simp only at hb
  cases hd : dget (finalMro s) i with
  | none => simp [hd] at hb; exact Or.inl hb
  | some v =>
    unfold finalMro at hd
    have := dget_map_key (fun c => match Mro.mroFuel (finalBases s) (s.reg.objs.length + 1) c with
      | some l => l
      | none => Mro.allbasesFuel (finalBases s) (fun _ => false) (s.reg.objs.length + 1) c) _ _ _ hd
    have hfm : dget (finalMro s) i = some v := by unfold finalMro; exact hd
    rw [hfm] at hb
    simp only [Option.getD_some, this] at hb
    have hor : b = i ∨ ∃ d, b ∈ finalBases s d := by
      cases hm : Mro.mroFuel (finalBases s) (s.reg.objs.length + 1) i with
      | some l => simp only [hm] at hb; exact mroFuel_mem' _ _ _ _ hm b hb
      | none => simp only [hm] at hb; exact allbasesFuel_mem _ _ _ _ _ hb
    rcases hor with h | ⟨d, hd'⟩
    · exact Or.inl h
    · exact Or.inr (finalBases_class hI hd')

end Imports

/-! ## pydoctor: `expandName` / `resolveName` with the inherited-member step -/

namespace Imports
open Registry

theorem classSite_kind {proj : Project} {rank : List Nat} (wf : WFacts proj rank) {S : Site} {c : Cls}
    (hk : ObjKind proj S c) (hc : IsClassSite proj S) : c = .cls := by
  obtain ⟨cp', n', bs, body, full, h2, hfull, hm⟩ := hc
  cases hk with
  | mod hm' => simp at h2
  | @dfn m cp b0 st n c hb0 hst hkind =>
    simp only at h2 hfull
    obtain ⟨e1, e2⟩ := List.append_inj' h2 rfl
    simp only [List.cons.injEq, and_true] at e2
    subst e1; subst e2
    rw [hb0] at hfull; injection hfull with hfull; subst hfull
    have := same_stmt wf hb0 hst hm (x := n) (stmtNames_of_explicit (defName_explicit (stKind_defName hkind)))
      (stmtNames_of_explicit (by simp [explicitNames]))
    subst this
    simp only [stKind, Option.some.injEq, Prod.mk.injEq] at hkind
    exact hkind.2.symm

theorem no_step_nonclass {proj : Project} {rank : List Nat} (wf : WFacts proj rank) {S : Site} {c : Cls}
    (hk : ObjKind proj S c) (hc : canContainImports c = false) {f : Bool} {y : Name} {w : SVal} : ¬ Step proj f S y w := by
  rintro (h | ⟨_, hS, _⟩)
  · exact no_jpy_nonclass wf hk hc h
  · rw [classSite_kind wf hk hS] at hc; simp [canContainImports] at hc

/-- the child of a class object is a definition made in a class body -/
theorem class_child_depth {proj : Project} {rank : List Nat} (wf : WFacts proj rank) {Sb Sc : Site} {c : Cls}
    (hSb : StaticSite proj Sb) (hSb2 : Sb.2 ≠ []) (hkc : ObjKind proj Sc c) {y : Name}
    (hp : sitePath proj Sc = sitePath proj Sb ++ [y]) : 2 ≤ Sc.2.length := by
  cases hkc with
  | @mod m' hm' =>
    exfalso
    simp only [sitePath, List.append_nil] at hp
    obtain ⟨hne, hpar⟩ := wf.parentOk m' hm'
    have hlen : 2 ≤ (pathOf proj m').length := by
      have h1 : 1 ≤ (pathOf proj Sb.1).length := by
        have := (wf.parentOk Sb.1 hSb.1).1
        cases h : pathOf proj Sb.1 with
        | nil => exact absurd h this
        | cons a as => simp
      rw [hp]; simp only [List.length_append, List.length_singleton]; omega
    obtain ⟨q, hq, _, _⟩ := hpar hlen
    obtain ⟨hqn, hqp⟩ := modIdx_spec hq
    have hdl : (pathOf proj m').dropLast = pathOf proj Sb.1 ++ Sb.2 := by
      rw [hp]; simp
    have := site_unique wf (⟨hqn, Or.inl rfl⟩ : StaticSite proj (q, [])) hSb
      (by simp only [sitePath, List.append_nil]; rw [hqp, hdl])
    rw [← this] at hSb2; exact hSb2 rfl
  | @dfn m cp b0 st n c hb0 hst hkind =>
    cases cp with
    | nil =>
      exfalso
      simp only [sitePath, List.nil_append] at hp
      obtain ⟨e1, _⟩ := List.append_inj' hp rfl
      have := site_unique wf (⟨(siteBody_lt hb0 : m < proj.length), Or.inl rfl⟩ : StaticSite proj (m, [])) hSb
        (by simp only [sitePath, List.append_nil]; exact e1)
      rw [← this] at hSb2; exact hSb2 rfl
    | cons a as => simp

/-- an entry of `contents` called `y` of a class object, and a class-level binding of `y` somewhere: the
qualified name of the entry denotes the binding -/
theorem content_den {proj : Project} {rank : List Nat} (wf : WFacts proj rank) (ciu : CIU proj) {s : St}
    (hI : PdInv proj s) {b : Nat} {bo : Obj} (hbo : s.reg.objs[b]? = some bo) (hbcls : bo.cls = .cls) {y : Name} {c : Nat}
    (hd : dget bo.contents y = some c) {A : Site} (hA : A.2 ≠ []) {w : SVal} (hj : Jpy proj A [y] w) :
    ∃ kb, path s.reg b = some kb ∧ path s.reg c = some (kb ++ [y]) ∧ AbsDen proj (kb ++ [y]) w := by
  have hbl := (List.getElem?_eq_some_iff.1 hbo).1
  obtain ⟨kb, hkb⟩ := hI.reg.full b hbl
  have hpb := hI.reg.reg.keys kb b hkb
  have hpc := path_child hI.reg hbo hd hpb
  obtain ⟨oc, hoc⟩ : ∃ oc, s.reg.objs[c]? = some oc := ⟨s.reg.objs[c]'(path_lt hpc), by simp [path_lt hpc]⟩
  obtain ⟨Sc, hkc, hpsc⟩ := hI.site c oc hoc
  rw [hpc] at hpsc; injection hpsc with hpsc
  obtain ⟨Sb, hkb', hpsb⟩ := hI.site b bo hbo
  rw [hpb] at hpsb; injection hpsb with hpsb
  have hSb2 : Sb.2 ≠ [] := by
    intro h0
    have := hkb'.isMod.2 h0
    rw [hbcls] at this; simp [isModuleCls] at this
  have h2 := class_child_depth wf hkb'.static hSb2 hkc (y := y) (by rw [← hpsc, hpsb])
  have := entity_is_binding wf ciu hkc.static h2 (by rw [← hpsc]; simp) hA hj
  refine ⟨kb, hpb, hpc, ?_⟩
  rw [this, hpsc]
  exact canon_site wf hkc.static

/-- an alias entry for `y` of a class object, and a class-level binding of `y` somewhere: the alias
target denotes the binding -/
theorem alias_den {proj : Project} {rank : List Nat} (wf : WFacts proj rank) (ciu : CIU proj) {s : St}
    (hI : PdInv proj s) {b : Nat} {bo : Obj} (hbo : s.reg.objs[b]? = some bo) {Sb : Site}
    (hp : path s.reg b = some (sitePath proj Sb)) (hSb : StaticSite proj Sb) (hcl : Sb.2 ≠ []) {y : Name} {tgt : Path}
    (hda : dget bo.aliases y = some tgt) {A : Site} (hA : A.2 ≠ []) {w : SVal} (hj : Jpy proj A [y] w) :
    AbsDenW proj tgt w := by
  have hjd := hI.alias b bo Sb hbo hp hSb y tgt hda
  obtain ⟨bb, st, hbb, hst, hxs, hD⟩ := jpd_inv wf hjd
  have hex : y ∈ explicitNames st := explicit_of_stmtNames (fun lvl M hst' => hcl (wf.nostar hbb (hst' ▸ hst))) hxs
  have hdn : st.defName = none := by cases st <;> simp_all [StmtD, Stmt.defName]
  have hm := classImportList_mem hbb hcl hst hdn hex
  obtain ⟨b2, st2, hb2, hst2, hx2, hJ2, hc2⟩ := jpy_class_inv wf hA hj
  rcases hc2 with ⟨hd2, _⟩ | hd2
  · exact (def_import_absurd ciu hA hb2 hst2 hd2 hm).elim
  · rcases ciu.one Sb A y _ _ hm (classImportList_mem hb2 hA hst2 hd2 hx2) with h | h
    · subst h; exact jpd_jpy wf hjd hj
    · exact jpd_jpy wf hjd (jpy_same_key hbb hst hex hdn hx2 hd2 h hJ2)

/-- the rest of the loop of `expandName` once a component has become the dotted name `fn` -/
def contLoop (e : Names.Env) (fn : Path) (rest : List Name) : Option Path :=
  match Names.objFor e fn with
  | none => some (fn ++ rest)
  | some nxt => match rest with
    | [] => some fn
    | _ :: _ => Names.expandLoop e nxt false rest

theorem expandLoop_eq {e : Names.Env} {i : Nat} {first : Bool} {y : Name} {rest : List Name} {fn : Path}
    (hc : Names.componentName e i first y = some fn) (hne : (decide (fn = [y]) && !first) = false) :
    Names.expandLoop e i first (y :: rest) = contLoop e fn rest := expandLoop_found hc hne

theorem expandLoop_inh {e : Names.Env} {i : Nat} {y : Name} {rest : List Name} {o : Obj} {q : Path}
    (hc : Names.componentName e i false y = some [y]) (ho : getObj e.st i = some o) (hcls : o.cls = .cls)
    (hq : Names.classLookup e i y = some q) (hne : q ≠ [y]) :
    Names.expandLoop e i false (y :: rest) = contLoop e q rest := by
  rw [Names.expandLoop]
  unfold contLoop
  simp only [hc, ho, hcls, hq, hne, decide_true, Bool.not_false, Bool.and_self, if_true, if_false]
  cases Names.objFor e q <;> cases rest <;> rfl

theorem expandLoop_inh_self {e : Names.Env} {i : Nat} {y : Name} {rest : List Name} {o : Obj} {op : Path}
    (hc : Names.componentName e i false y = some [y]) (ho : getObj e.st i = some o) (hcls : o.cls = .cls)
    (hq : Names.classLookup e i y = none ∨ Names.classLookup e i y = some [y]) (hp : path e.st i = some op) :
    Names.expandLoop e i false (y :: rest) = some (op ++ [y] ++ rest) := by
  rw [Names.expandLoop]
  rcases hq with hq | hq <;> simp [hc, ho, hcls, hq, hp]

/-- **expandName is sound, inherited members included**: on a finished well-behaved state of a
`classImportsUnique` project, the dotted name that `expandName` returns for `ys` looked up in object
`i` (scope `S`) denotes whatever Python gives for `ys` in `S`, the attribute steps through classes
following the MRO on both sides. -/
theorem expand_soundI {proj : Project} {rank : List Nat} (wf : WFacts proj rank) (ciu : CIU proj) {s : St}
    (hI : PdInv proj s) (hn : NoProcessing s) (e : Names.Env) (he : e.st = s.reg)
    (hmro : ∀ c, ∃ t, Names.mroOf e c = c :: t)
    (hmem : ∀ i b, b ∈ Names.mroOf e i → b = i ∨ ∃ o : Obj, s.reg.objs[b]? = some o ∧ o.cls = .cls) :
    ∀ (ys : List Name) (i : Nat) (first : Bool) (S : Site) (o : Obj) (v : SVal) (p : Path),
      s.reg.objs[i]? = some o → path s.reg i = some (sitePath proj S) → ObjKind proj S o.cls →
      JpyI proj first S ys v → Names.expandLoop e i first ys = some p → AbsDenIW proj p v
  | [], _, _, _, _, _, _, _, _, _, hj, _ => by cases hj
  | y :: rest, i, first, S, o, v, p, ho, hp, hk, hj, hx => by
    obtain ⟨w, hw, hrest⟩ : ∃ w, Step proj first S y w ∧
        ((rest = [] ∧ v = w) ∨ (∃ y2 r, rest = y2 :: r ∧ JpyI proj false (scopeOf w) (y2 :: r) v)) := by
      cases rest with
      | nil => exact ⟨v, hj.one_inv, Or.inl ⟨rfl, rfl⟩⟩
      | cons y2 r =>
        obtain ⟨w, h1, h2⟩ := hj.cons_inv
        exact ⟨w, h1, Or.inr ⟨y2, r, rfl, h2⟩⟩
    have hgo : getObj e.st i = some o := by rw [he]; exact ho
    have hpe : path e.st i = some (sitePath proj S) := by rw [he]; exact hp
    have hcanon := canon_site wf hk.static
    have hSne : sitePath proj S ≠ [] := by
      obtain ⟨r, rest', root, hpp, _⟩ := hcanon; rw [hpp]; simp
    have hfullW : AbsDenIW proj (sitePath proj S ++ y :: rest) v :=
      AbsDenIW.ext hcanon.weak.toI hSne (by rw [scopeOf_svalOf]; exact hj.weaken)
    -- what happens once the component has been turned into the dotted name `fn`
    have cont0 : ∀ fn : Path, AbsDenIW proj fn w → fn ≠ [] →
        Names.expandLoop e i first (y :: rest) = contLoop e fn rest → AbsDenIW proj p v := by
      intro fn hfw hfne heq
      rw [heq] at hx
      unfold contLoop at hx
      cases hof : Names.objFor e fn with
      | none =>
        simp only [hof, Option.some.injEq] at hx; subst hx
        rcases hrest with ⟨hr, hv⟩ | ⟨y2, r, hr, hjr⟩
        · subst hr; subst hv; simpa using hfw
        · subst hr; exact AbsDenIW.ext hfw hfne hjr
      | some nxt =>
        simp only [hof] at hx
        have hreg : dget s.reg.all fn = some nxt := by
          have := hof; unfold Names.objFor at this; rw [he] at this; exact this
        have hpn : path s.reg nxt = some fn := hI.reg.reg.keys fn nxt (mem_of_dget hreg)
        obtain ⟨on, hon⟩ : ∃ on, s.reg.objs[nxt]? = some on := by
          have := path_lt hpn; exact ⟨s.reg.objs[nxt], by simp [this]⟩
        obtain ⟨Sn, hkn, hpn'⟩ := hI.site nxt on hon
        rw [hpn] at hpn'; injection hpn' with hpn'
        have hcn' := canon_site wf hkn.static
        rw [← hpn'] at hcn'
        have hwv : svalOf Sn = w := AbsDenI.fun wf ciu hcn' hfw
        rcases hrest with ⟨hr, hv⟩ | ⟨y2, r, hr, hjr⟩
        · subst hr; subst hv
          simp only [Option.some.injEq] at hx; subst hx; exact hfw
        · subst hr
          simp only at hx
          rw [← hwv, scopeOf_svalOf] at hjr
          exact expand_soundI wf ciu hI hn e he hmro hmem (y2 :: r) nxt false Sn on v p hon (by rw [hpn, hpn']) hkn hjr hx
    have cont : ∀ fn : Path, AbsDenIW proj fn w → fn ≠ [] → (decide (fn = [y]) && !first) = false →
        Names.componentName e i first y = some fn → AbsDenIW proj p v :=
      fun fn hfw hfne hnb hcn => cont0 fn hfw hfne (expandLoop_eq hcn hnb)
    by_cases hcan : canContainImports o.cls = true
    · cases hdc : dget o.contents y with
      | some c =>
        -- an entry of `contents`: the qualified name of the child
        have hcn : Names.componentName e i first y = some (sitePath proj S ++ [y]) := by
          rw [Names.componentName_contents first hgo hdc]
          unfold Names.fuelOf
          rw [Names.localName_contents _ hgo hcan hdc, he]
          exact path_child hI.reg ho hdc hp
        have hden : AbsDenIW proj (sitePath proj S ++ [y]) w := by
          rcases hw with hw | ⟨_, hS2, A, hA, hjA⟩
          · exact (AbsDen.ext hcanon (by rw [scopeOf_svalOf]; exact hw)).weak.toI
          · obtain ⟨kb, hpb, _, hden⟩ := content_den wf ciu hI ho (classSite_kind wf hk hS2) hdc hA hjA
            rw [hp] at hpb; injection hpb with hpb; subst hpb
            exact hden.weak.toI
        refine cont _ hden (by simp) ?_ hcn
        have : sitePath proj S ++ [y] ≠ [y] := by
          intro h
          have := congrArg List.length h
          simp at this
          exact hSne this
        simp [this]
      | none =>
        cases hda : dget o.aliases y with
        | some tgt =>
          have hjd : Jpd proj S y tgt := hI.alias i o S ho hp hk.static y tgt hda
          have hcn : Names.componentName e i first y = some tgt := by
            rw [Names.componentName_alias first hgo hda]
            unfold Names.fuelOf
            exact Names.localName_alias _ hgo hcan hdc hda
          have hden : AbsDenIW proj tgt w := by
            rcases hw with hw | ⟨_, hS2, A, hA, hjA⟩
            · exact (jpd_jpy wf hjd hw).toI
            · exact (alias_den wf ciu hI ho hp hk.static hS2.ne hda hA hjA).toI
          by_cases hnb : (decide (tgt = [y]) && !first) = false
          · exact cont tgt hden (jpd_ne_nil wf hjd) hnb hcn
          · -- the alias maps the name to itself and we are not at the first component: "not found"
            have hnb' : tgt = [y] ∧ first = false := by
              cases first <;> simp_all
            obtain ⟨ht, hf⟩ := hnb'
            subst hf
            rw [ht] at hcn
            by_cases hcl : o.cls = .cls
            · -- a class: the inherited-member step starts with the class itself, whose alias says `[y]` again
              have hcl' : Names.classLookup e i y = some [y] := by
                unfold Names.classLookup
                obtain ⟨t, ht'⟩ := hmro i
                rw [ht']
                simp [List.findSome?, hgo, hdc, hda, ht]
              rw [expandLoop_inh_self hcn hgo hcl (Or.inr hcl') hpe] at hx
              simp only [Option.some.injEq] at hx; subst hx
              simpa using hfullW
            · rw [expandLoop_notfound hcn hgo hcl hpe] at hx
              simp only [Option.some.injEq] at hx; subst hx
              simpa using hfullW
        | none =>
          -- neither defined nor imported here: the scope itself does not bind the name …
          have noplain : o.cls = .cls → Jpy proj S [y] w → False := by
            intro hcl hw
            have hS2 : S.2 ≠ [] := by
              intro h0
              have := hk.isMod.2 h0
              rw [hcl] at this; simp [isModuleCls] at this
            rcases jpy_inv wf hw with ⟨h0, _⟩ | ⟨b, st, hb, hst, hxs, _⟩
            · exact hS2 h0
            · have hcomp := class_complete hI hn hp hk.static hS2 hb
              have hex : y ∈ explicitNames st :=
                explicit_of_stmtNames (fun lvl M hst' => hS2 (wf.nostar hb (hst' ▸ hst))) hxs
              obtain ⟨o', ho', hent⟩ := complete_entry (hcomp.mem hst) hex
              rw [ho] at ho'; injection ho' with ho'; subst ho'
              rcases hent with h | h
              · exact h hdc
              · exact h hda
          by_cases hcl : o.cls = .cls
          · -- … so, in a class, the step is an inherited one
            obtain ⟨hf, A, hA, hjA⟩ : first = false ∧ ∃ A : Site, A.2 ≠ [] ∧ Jpy proj A [y] w := by
              rcases hw with hw | ⟨hf, _, A, hA, hjA⟩
              · exact (noplain hcl hw).elim
              · exact ⟨hf, A, hA, hjA⟩
            subst hf
            have hcn : Names.componentName e i false y = some [y] := by
              unfold Names.componentName
              simp [hgo, hcl, hdc, hda]
            cases hq : Names.classLookup e i y with
            | none =>
              rw [expandLoop_inh_self hcn hgo hcl (Or.inl hq) hpe] at hx
              simp only [Option.some.injEq] at hx; subst hx
              simpa using hfullW
            | some q =>
              by_cases hqy : q = [y]
              · rw [expandLoop_inh_self hcn hgo hcl (Or.inr (by rw [hq, hqy])) hpe] at hx
                simp only [Option.some.injEq] at hx; subst hx
                simpa using hfullW
              · -- found in a class of the linearisation
                have hden : AbsDenIW proj q w ∧ q ≠ [] := by
                  have hq' := hq
                  unfold Names.classLookup at hq'
                  obtain ⟨b, hbm, hb⟩ := List.exists_of_findSome?_eq_some hq'
                  cases hgb : getObj e.st b with
                  | none => simp [hgb] at hb
                  | some bo =>
                    simp only [hgb] at hb
                    have hbo : s.reg.objs[b]? = some bo := by rw [← he]; exact hgb
                    have hbcls : bo.cls = .cls := by
                      rcases hmem i b hbm with hbi | ⟨o', ho', hc'⟩
                      · subst hbi; rw [ho] at hbo; injection hbo with hbo; subst hbo; exact hcl
                      · rw [hbo] at ho'; injection ho' with ho'; subst ho'; exact hc'
                    cases hbc : dget bo.contents y with
                    | some c =>
                      simp only [hbc, Option.some.injEq] at hb
                      obtain ⟨kb, _, hpc, hden⟩ := content_den wf ciu hI hbo hbcls hbc hA hjA
                      rw [he, hpc] at hb
                      simp only [Option.getD_some] at hb
                      subst hb
                      exact ⟨hden.weak.toI, by simp⟩
                    | none =>
                      simp only [hbc] at hb
                      obtain ⟨Sb, hkb, hpsb⟩ := hI.site b bo hbo
                      have hSb2 : Sb.2 ≠ [] := by
                        intro h0
                        have := hkb.isMod.2 h0
                        rw [hbcls] at this; simp [isModuleCls] at this
                      have hjd := hI.alias b bo Sb hbo hpsb hkb.static y q hb
                      exact ⟨(alias_den wf ciu hI hbo hpsb hkb.static hSb2 hb hA hjA).toI, jpd_ne_nil wf hjd⟩
                exact cont0 q hden.1 hden.2 (expandLoop_inh hcn hgo hcl hq hqy)
          · have hmo : isModuleCls o.cls = true := by
              cases hc : o.cls <;> simp_all [canContainImports, isModuleCls]
            have hw' : Jpy proj S [y] w := by
              rcases hw with hw | ⟨_, hS2, _⟩
              · exact hw
              · exact absurd (hk.isMod.1 hmo) hS2.ne
            have hcn : Names.componentName e i first y = some [y] := by
              unfold Names.componentName
              simp only [hgo, hcl, decide_false, Bool.and_false, Bool.false_and, Bool.false_eq_true, if_false]
              rw [localName_module hgo hmo]; simp [hdc, hda]
            cases first with
            | true =>
              -- a bare name at the first position: a root module of that name, if there is one
              refine cont [y] ?_ (by simp) (by simp) hcn
              intro r rest' root hpr hroot
              injection hpr with e1 e2; subst e1; subst e2
              exact Or.inl ⟨rfl, jpy_root wf hw' y root rfl hroot⟩
            | false =>
              rw [expandLoop_notfound hcn hgo hcl hpe] at hx
              simp only [Option.some.injEq] at hx; subst hx
              simpa using hfullW
    · exact absurd hw (no_step_nonclass wf hk (by simpa using hcan))

end Imports

namespace Imports
open Registry

/-- a registered name that denotes `v` (inherited steps allowed) is the name of the object standing for `v` -/
theorem registered_identI {proj : Project} {rank : List Nat} (wf : WFacts proj rank) (ciu : CIU proj) {s : St}
    (hI : PdInv proj s) {p : Path} {v : SVal} {j : Nat} (hden : AbsDenIW proj p v) (hreg : dget s.reg.all p = some j) :
    identOf s.reg j = some (identSV proj v) := by
  have hpj : path s.reg j = some p := hI.reg.reg.keys p j (mem_of_dget hreg)
  obtain ⟨oj, hoj⟩ : ∃ oj, s.reg.objs[j]? = some oj := ⟨s.reg.objs[j]'(path_lt hpj), by simp [path_lt hpj]⟩
  obtain ⟨Sj, hkj, hpj'⟩ := hI.site j oj hoj
  rw [hpj] at hpj'; injection hpj' with hpj'
  have hc := canon_site wf hkj.static
  rw [← hpj'] at hc
  have := AbsDenI.fun wf ciu hc hden
  rw [← this]
  exact hkj.ident hoj (by rw [hpj, hpj'])

/-- **resolveName is sound on a finished well-behaved state, inherited members included** -/
theorem resolve_sound_stateI {proj : Project} {rank : List Nat} (wf : WFacts proj rank) (ciu : CIU proj) {s : St}
    (hI : PdInv proj s) (hn : NoProcessing s) {i : Nat} {o : Obj} {S : Site} (ho : s.reg.objs[i]? = some o)
    (hp : path s.reg i = some (sitePath proj S)) (hk : ObjKind proj S o.cls) {name : Path} {v : SVal} {j : Nat}
    (hj : JpyI proj true S name v) (hr : Names.resolveName (finalEnv s) i name = some j) :
    identOf s.reg j = some (identSV proj v) := by
  have hmro := mroOf_final_head s
  have hmem : ∀ i b, b ∈ Names.mroOf (finalEnv s) i → b = i ∨ ∃ o : Obj, s.reg.objs[b]? = some o ∧ o.cls = .cls :=
    fun i b hb => mro_member_class hI hb
  unfold Names.resolveName at hr
  cases hx : Names.expandName (finalEnv s) i name with
  | none => simp [hx] at hr
  | some p =>
    simp only [hx] at hr
    have hden := expand_soundI wf ciu hI hn (finalEnv s) rfl hmro hmem name i true S o v p ho hp hk hj hx
    cases hof : Names.objFor (finalEnv s) p with
    | some j' =>
      simp only [hof, Option.some.injEq] at hr; subst hr
      exact registered_identI wf ciu hI hden hof
    | none =>
      simp only [hof] at hr
      cases hfo : Names.findObject (finalEnv s) p with
      | obj j' =>
        simp only [hfo, Option.some.injEq] at hr; subst hr
        have hfo := Names.findObject_old_of_obj hfo
        unfold Names.findObjectOld at hfo
        simp only [hof] at hfo
        cases p with
        | nil => simp at hfo
        | cons r rest =>
          simp only at hfo
          split at hfo
          · cases hfo
          · rename_i ro hfind
            by_cases hrest : rest = []
            · simp [hrest] at hfo
            · simp only [hrest, if_false] at hfo
              cases hx2 : Names.expandName (finalEnv s) ro rest with
              | none => simp [hx2] at hfo
              | some p2 =>
                simp only [hx2] at hfo
                cases hof2 : Names.objFor (finalEnv s) p2 with
                | none => simp [hof2] at hfo
                | some j2 =>
                  simp only [hof2, Names.Found.obj.injEq] at hfo; subst hfo
                  -- the root object found by name
                  have hmem' := List.mem_of_find?_eq_some hfind
                  have hpred := List.find?_some hfind
                  obtain ⟨oo, hoo, hpar⟩ := hI.reg.tree.rootsOk ro hmem'
                  have hgo : getObj (finalEnv s).st ro = some oo := hoo
                  simp only [hgo, decide_eq_true_eq] at hpred
                  have hpro : path s.reg ro = some [r] := by
                    rw [← hpred]; simp only [path]; exact pathAux_root hoo hpar
                  obtain ⟨Sr, hkr, hpr'⟩ := hI.site ro oo hoo
                  rw [hpro] at hpr'; injection hpr' with hpr'
                  -- it is a root module of the project
                  obtain ⟨m, cp⟩ := Sr
                  have hlt := hkr.static.1
                  simp only at hlt
                  have hne := (wf.parentOk m hlt).1
                  have hcp : cp = [] ∧ pathOf proj m = [r] := by
                    simp only [sitePath] at hpr'
                    cases hpm : pathOf proj m with
                    | nil => exact absurd hpm hne
                    | cons a as =>
                      rw [hpm] at hpr'
                      simp only [List.cons_append, List.cons.injEq] at hpr'
                      obtain ⟨h1, h2⟩ := hpr'
                      have h3 := List.append_eq_nil_iff.1 h2.symm
                      exact ⟨h3.2, by rw [h1, h3.1]⟩
                  obtain ⟨hcp, hpm⟩ := hcp
                  subst hcp
                  have hroot : modIdx proj [r] = some m := by rw [← hpm]; exact modIdx_of_path wf.modNodup hlt
                  rcases hden r rest m rfl hroot with ⟨h0, _⟩ | ⟨_, hjr⟩
                  · exact absurd h0 hrest
                  · have hden2 := expand_soundI wf ciu hI hn (finalEnv s) rfl hmro hmem rest ro true (m, []) oo v p2 hoo
                      (by rw [hpro]; simp [sitePath, hpm]) hkr hjr hx2
                    exact registered_identI wf ciu hI hden2 hof2
      | external => simp [hfo] at hr
      | lookupError => simp [hfo] at hr
      | indexError => simp [hfo] at hr
      | crash => simp [hfo] at hr

end Imports
