/-
C04, inherited members: soundness of `resolveName` for dotted names whose attribute steps go through
an INHERITED member of a class, for the decidable sub-class `classImportsUnique` of `WF`.

Why no reasoning about the ORDER of the MRO (nor about how the bases are resolved) is needed: names of
definitions are globally unique (`namesUnique`), and `classImportsUnique` makes the class that binds a
name by an import unique too — so "some class binds `y`" determines the binding.  `Step` is the
over-approximation of Python's `type.__getattribute__`: the attribute is found in the class's own
namespace, or in the namespace of SOME class.  pydoctor's `classLookup` walks ITS linearisation and
finds the name in the contents / alias map of some class object; both finds are the same binding.
-/
import PdProps.C04Base

namespace Imports
open Registry

/-! ## the sub-class: imports in class bodies -/

theorem classImports_here {m : Nat} {cp : List Name} (hcp : cp ≠ []) : ∀ {body : List Stmt} {st : Stmt} {x : Name},
    st ∈ body → st.defName = none → x ∈ explicitNames st → ((m, cp), x) ∈ classImports m cp body
  | [], _, _, h, _, _ => by cases h
  | s0 :: rest, st, x, h, hd, hx => by
    simp only [classImports, List.mem_append]
    rcases List.mem_cons.1 h with rfl | h'
    · left
      have hne : cp.isEmpty = false := by cases cp <;> simp_all
      cases st <;> simp_all [Stmt.defName, classImportsStmt]
    · right; exact classImports_here hcp h' hd hx

theorem classImports_class {m : Nat} {pre : List Name} {c : Name} {bs : List Path} {b1 : List Stmt} :
    ∀ {body : List Stmt}, Stmt.classDef c bs b1 ∈ body → ∀ {e}, e ∈ classImports m (pre ++ [c]) b1 →
      e ∈ classImports m pre body
  | [], h, _, _ => by cases h
  | x :: xs, h, e, he => by
    simp only [classImports, List.mem_append]
    rcases List.mem_cons.1 h with rfl | h'
    · left; simp only [classImportsStmt]; exact he
    · right; exact classImports_class h' he

theorem classImports_mem {m : Nat} : ∀ {cs pre : List Name} {body b : List Stmt} {st : Stmt} {x : Name},
    bodyAt body cs = some b → st ∈ b → st.defName = none → x ∈ explicitNames st → pre ++ cs ≠ [] →
      ((m, pre ++ cs), x) ∈ classImports m pre body
  | [], pre, body, b, st, x, hb, hst, hd, hx, hne => by
    simp only [bodyAt, Option.some.injEq] at hb; subst hb
    simp only [List.append_nil] at hne ⊢
    exact classImports_here hne hst hd hx
  | c :: cs, pre, body, b, st, x, hb, hst, hd, hx, _ => by
    simp only [bodyAt] at hb
    cases hf : findClass body c with
    | none => simp [hf] at hb
    | some b1 =>
      simp only [hf] at hb
      obtain ⟨bs, hm⟩ := findClass_mem hf
      have := classImports_mem (m := m) (pre := pre ++ [c]) hb hst hd hx (by simp)
      have e : pre ++ [c] ++ cs = pre ++ c :: cs := by simp
      rw [e] at this
      exact classImports_class hm this

theorem classImportList_mem {proj : Project} {S : Site} {b : List Stmt} (hb : siteBody proj S = some b) (hS : S.2 ≠ [])
    {st : Stmt} {x : Name} (hst : st ∈ b) (hd : st.defName = none) (hx : x ∈ explicitNames st) :
    (S, x) ∈ classImportList proj := by
  obtain ⟨m, cp⟩ := S
  unfold classImportList
  rw [List.mem_flatMap]
  refine ⟨m, List.mem_range.2 (siteBody_lt hb), ?_⟩
  have := classImports_mem (m := m) (pre := []) (siteBody_bodyAt hb) hst hd hx (by simpa using hS)
  simpa using this

/-- what `classImportsUnique` says -/
structure CIU (proj : Project) : Prop where
  fresh : ∀ S x, (S, x) ∈ classImportList proj → isRootName proj x = true ∨
    ∀ E ∈ entities proj, (sitePath proj E).getLast? ≠ some x
  one : ∀ S S' x, (S, x) ∈ classImportList proj → (S', x) ∈ classImportList proj → S = S'

theorem CIU.of {proj : Project} (h : classImportsUnique proj = true) : CIU proj := by
  unfold classImportsUnique at h
  simp only [List.all_eq_true, Bool.and_eq_true, Bool.or_eq_true, Bool.not_eq_true', bne_iff_ne, ne_eq,
    beq_iff_eq, Prod.forall] at h
  constructor
  · intro S x hm
    obtain ⟨m, cp⟩ := S
    rcases (h m cp x hm).1 with hr | hn
    · exact Or.inl hr
    · right
      intro E hE heq
      have : (List.map (fun S => (sitePath proj S).getLast?) (entities proj)).contains (some x) = true := by
        rw [List.contains_iff_mem]
        exact List.mem_map.2 ⟨E, hE, heq⟩
      rw [this] at hn; cases hn
  · intro S S' x hm hm'
    obtain ⟨m, cp⟩ := S
    obtain ⟨m', cp'⟩ := S'
    rcases (h m cp x hm).2 m' cp' x hm' with hne | heq
    · exact absurd rfl hne
    · exact heq

/-! ## bindings in class bodies -/

/-- a class-level binding is a definition of the class or an import in its body -/
theorem jpy_class_inv {proj : Project} {rank : List Nat} (wf : WFacts proj rank) {A : Site} (hA : A.2 ≠ []) {y : Name}
    {w : SVal} (h : Jpy proj A [y] w) :
    ∃ b st, siteBody proj A = some b ∧ st ∈ b ∧ y ∈ explicitNames st ∧
      ((st.defName = some y ∧ w = .dfn A.1 (A.2 ++ [y])) ∨ st.defName = none) := by
  rcases jpy_inv wf h with ⟨h0, _⟩ | ⟨b, st, hb, hst, hxs, hJ⟩
  · exact absurd h0 hA
  · have hex : y ∈ explicitNames st := explicit_of_stmtNames (fun lvl M hst' => hA (wf.nostar hb (hst' ▸ hst))) hxs
    refine ⟨b, st, hb, hst, hex, ?_⟩
    cases st <;> simp_all [Stmt.defName, StmtJ, explicitNames]

theorem def_static {proj : Project} {A : Site} {b : List Stmt} {st : Stmt} {y : Name} (hb : siteBody proj A = some b)
    (hst : st ∈ b) (hd : st.defName = some y) : StaticSite proj (A.1, A.2 ++ [y]) :=
  ⟨siteBody_lt hb, Or.inr ⟨A.2, y, b, st, rfl, hb, hst, hd⟩⟩

theorem def_last (proj : Project) (A : Site) (y : Name) : (sitePath proj (A.1, A.2 ++ [y])).getLast? = some y := by
  simp [sitePath, ← List.append_assoc]

theorem root_static {proj : Project} {y : Name} (hr : isRootName proj y = true) :
    ∃ root, StaticSite proj (root, []) ∧ sitePath proj (root, []) = [y] := by
  unfold isRootName at hr
  cases hm : modIdx proj [y] with
  | none => simp [hm] at hr
  | some root =>
    obtain ⟨hlt, hp⟩ := modIdx_spec hm
    exact ⟨root, ⟨hlt, Or.inl rfl⟩, by simp [sitePath, hp]⟩

/-- a name that a class body binds by an import is not the name of a definition -/
theorem def_import_absurd {proj : Project} {rank : List Nat} (wf : WFacts proj rank) (ciu : CIU proj) {S : Site}
    {b : List Stmt} {st : Stmt} {y : Name} (hb : siteBody proj S = some b) (hst : st ∈ b) (hd : st.defName = some y)
    {A : Site} (hm : (A, y) ∈ classImportList proj) : False := by
  have hE := def_static hb hst hd
  rcases ciu.fresh A y hm with hr | hn
  · obtain ⟨root, hrs, hrp⟩ := root_static hr
    have := site_unique_last wf hE hrs (by rw [def_last, hrp]; rfl)
    injection this with _ h2
    simp at h2
  · exact hn _ (static_mem_entities hE) (def_last proj S y)

/-- with `classImportsUnique`, the class-level bindings of a name all over the project agree -/
theorem class_bind_same {proj : Project} {rank : List Nat} (wf : WFacts proj rank) (ciu : CIU proj) {S A : Site}
    (hS : S.2 ≠ []) (hA : A.2 ≠ []) {y : Name} {v w : SVal} (h1 : Jpy proj S [y] v) (h2 : Jpy proj A [y] w) : v = w := by
  obtain ⟨b1, st1, hb1, hst1, hx1, hc1⟩ := jpy_class_inv wf hS h1
  obtain ⟨b2, st2, hb2, hst2, hx2, hc2⟩ := jpy_class_inv wf hA h2
  rcases hc1 with ⟨hd1, hv⟩ | hd1 <;> rcases hc2 with ⟨hd2, hw⟩ | hd2
  · have := site_unique_last wf (def_static hb1 hst1 hd1) (def_static hb2 hst2 hd2) (by rw [def_last, def_last])
    injection this with e1 e2
    rw [hv, hw, e1, e2]
  · exact (def_import_absurd wf ciu hb1 hst1 hd1 (classImportList_mem hb2 hA hst2 hd2 hx2)).elim
  · exact (def_import_absurd wf ciu hb2 hst2 hd2 (classImportList_mem hb1 hS hst1 hd1 hx1)).elim
  · have := ciu.one S A y (classImportList_mem hb1 hS hst1 hd1 hx1) (classImportList_mem hb2 hA hst2 hd2 hx2)
    subst this
    exact jpy_fun wf h1 h2

/-- an entity called `y` that is registered below another object, and a class-level binding of `y`:
the binding is that entity -/
theorem entity_is_binding {proj : Project} {rank : List Nat} (wf : WFacts proj rank) (ciu : CIU proj) {Sc : Site}
    (hSc : StaticSite proj Sc) {q : Path} (hq : q ≠ []) {y : Name} (hp : sitePath proj Sc = q ++ [y])
    {A : Site} (hA : A.2 ≠ []) {w : SVal} (hj : Jpy proj A [y] w) : w = svalOf Sc := by
  have hlast : (sitePath proj Sc).getLast? = some y := by rw [hp]; simp
  obtain ⟨b, st, hb, hst, hx, hc⟩ := jpy_class_inv wf hA hj
  rcases hc with ⟨hd, hw⟩ | hd
  · have := site_unique_last wf hSc (def_static hb hst hd) (by rw [hlast, def_last])
    subst this
    rw [hw]; simp [svalOf]
  · exfalso
    rcases ciu.fresh A y (classImportList_mem hb hA hst hd hx) with hr | hn
    · obtain ⟨root, hrs, hrp⟩ := root_static hr
      have := site_unique_last wf hSc hrs (by rw [hlast, hrp]; rfl)
      subst this
      rw [hrp] at hp
      have hl := congrArg List.length hp
      simp only [List.length_append, List.length_singleton, List.length_cons, List.length_nil] at hl
      exact hq (List.eq_nil_of_length_eq_zero (by omega))
    · exact hn _ (static_mem_entities hSc) hlast

/-! ## attribute access with inheritance -/

/-- one step of a dotted name: the binding of `y` in scope `S` itself, or — for an attribute of a
class (not the first component) — in the body of SOME class (over-approximation of the MRO walk) -/
def Step (proj : Project) (f : Bool) (S : Site) (y : Name) (w : SVal) : Prop :=
  Jpy proj S [y] w ∨ (f = false ∧ S.2 ≠ [] ∧ ∃ A : Site, A.2 ≠ [] ∧ Jpy proj A [y] w)

/-- `Jpy` with inherited attribute steps -/
inductive JpyI (proj : Project) : Bool → Site → List Name → SVal → Prop
  | one {f : Bool} {S : Site} {y : Name} {v : SVal} : Step proj f S y v → JpyI proj f S [y] v
  | cons {f : Bool} {S : Site} {y y2 : Name} {ys : List Name} {w v : SVal} :
      Step proj f S y w → JpyI proj false (scopeOf w) (y2 :: ys) v → JpyI proj f S (y :: y2 :: ys) v

theorem Step.weaken {proj : Project} {f : Bool} {S : Site} {y : Name} {w : SVal} (h : Step proj f S y w) :
    Step proj false S y w := by
  rcases h with h | ⟨_, h⟩
  · exact Or.inl h
  · exact Or.inr ⟨rfl, h⟩

theorem Step.ofMod {proj : Project} {f g : Bool} {S : Site} (hS : S.2 = []) {y : Name} {w : SVal}
    (h : Step proj f S y w) : Step proj g S y w := by
  rcases h with h | ⟨_, h, _⟩
  · exact Or.inl h
  · exact absurd hS h

theorem JpyI.one_inv {proj : Project} {f : Bool} {S : Site} {y : Name} {v : SVal} (h : JpyI proj f S [y] v) :
    Step proj f S y v := by
  cases h with
  | one h => exact h

theorem JpyI.cons_inv {proj : Project} {f : Bool} {S : Site} {y y2 : Name} {ys : List Name} {v : SVal}
    (h : JpyI proj f S (y :: y2 :: ys) v) : ∃ w, Step proj f S y w ∧ JpyI proj false (scopeOf w) (y2 :: ys) v := by
  cases h with
  | cons h1 h2 => exact ⟨_, h1, h2⟩

theorem JpyI.weaken {proj : Project} {f : Bool} {S : Site} {ys : List Name} {v : SVal} (h : JpyI proj f S ys v) :
    JpyI proj false S ys v := by
  cases h with
  | one h => exact .one h.weaken
  | cons h1 h2 => exact .cons h1.weaken h2

theorem JpyI.ofMod {proj : Project} {f g : Bool} {S : Site} (hS : S.2 = []) {ys : List Name} {v : SVal}
    (h : JpyI proj f S ys v) : JpyI proj g S ys v := by
  cases h with
  | one h => exact .one (h.ofMod hS)
  | cons h1 h2 => exact .cons (h1.ofMod hS) h2

/-- a derivation without inherited steps is one with -/
theorem JpyI.ofJpy {proj : Project} (f : Bool) : ∀ {ys : List Name} {S : Site} {v : SVal}, Jpy proj S ys v → ys ≠ [] →
    JpyI proj f S ys v
  | [], _, _, _, hne => absurd rfl hne
  | [y], _, _, h, _ => .one (Or.inl h)
  | y :: y2 :: ys, S, v, h, _ => by
    obtain ⟨w, h1, h2⟩ := jpy_cons_inv h
    exact .cons (Or.inl h1) (JpyI.ofJpy false h2 (by simp))

theorem jpy_ne_nil {proj : Project} {S : Site} {ys : List Name} {v : SVal} (h : Jpy proj S ys v) : ys ≠ [] := by
  cases h <;> simp

theorem JpyI.append {proj : Project} : ∀ {xs : List Name} {f : Bool} {S : Site} {w v : SVal} {y : Name} {ys : List Name},
    JpyI proj f S xs w → JpyI proj false (scopeOf w) (y :: ys) v → JpyI proj f S (xs ++ y :: ys) v
  | [], _, _, _, _, _, _, h1, _ => by cases h1
  | [x], _, _, _, _, _, _, h1, h2 => .cons h1.one_inv h2
  | x :: x2 :: xs, f, S, w, v, y, ys, h1, h2 => by
    obtain ⟨w1, ha, hb⟩ := h1.cons_inv
    exact .cons ha (JpyI.append (xs := x2 :: xs) hb h2)

/-- a step from a scope in which the plain derivation binds the name gives the same value -/
theorem step_fun {proj : Project} {rank : List Nat} (wf : WFacts proj rank) (ciu : CIU proj) {f : Bool} {S : Site}
    {y : Name} {v w : SVal} (h1 : Jpy proj S [y] v) (h2 : Step proj f S y w) : v = w := by
  rcases h2 with h2 | ⟨_, hS, A, hA, h2⟩
  · exact jpy_fun wf h1 h2
  · exact class_bind_same wf ciu hS hA h1 h2

/-- **functionality**: what the derivation with inherited steps gives for a name that the plain
derivation binds is the same value -/
theorem jpyI_fun {proj : Project} {rank : List Nat} (wf : WFacts proj rank) (ciu : CIU proj) :
    ∀ {ys : List Name} {f : Bool} {S : Site} {v w : SVal}, Jpy proj S ys v → JpyI proj f S ys w → v = w
  | [], _, _, _, _, h, _ => absurd rfl (jpy_ne_nil h)
  | [y], _, _, _, _, h1, h2 => step_fun wf ciu h1 h2.one_inv
  | y :: y2 :: ys, _, _, _, _, h1, h2 => by
    obtain ⟨w1, ha, hb⟩ := jpy_cons_inv h1
    obtain ⟨w2, hc, hd⟩ := h2.cons_inv
    have := step_fun wf ciu ha hc
    subst this
    exact jpyI_fun wf ciu hb hd

/-! ## absolute names, with inherited steps -/

/-- the absolute dotted name `p` denotes `v` (inherited attribute steps allowed) if its first
component is a root module at all -/
def AbsDenIW (proj : Project) (p : Path) (v : SVal) : Prop :=
  ∀ r rest root, p = r :: rest → modIdx proj [r] = some root →
    ((rest = [] ∧ v = .mod root) ∨ (rest ≠ [] ∧ JpyI proj true (root, []) rest v))

theorem AbsDenW.toI {proj : Project} {p : Path} {v : SVal} (h : AbsDenW proj p v) : AbsDenIW proj p v := by
  intro r rest root hp hr
  rcases h r rest root hp hr with h | ⟨hne, hj⟩
  · exact Or.inl h
  · exact Or.inr ⟨hne, JpyI.ofJpy true hj hne⟩

theorem AbsDenIW.ext {proj : Project} {p : Path} {w v : SVal} {y : Name} {ys : List Name}
    (h : AbsDenIW proj p w) (hp : p ≠ []) (h2 : JpyI proj false (scopeOf w) (y :: ys) v) :
    AbsDenIW proj (p ++ y :: ys) v := by
  intro r rest root he hr
  cases p with
  | nil => exact absurd rfl hp
  | cons r0 rest0 =>
    simp only [List.cons_append] at he
    injection he with e1 e2; subst e1; subst e2
    refine Or.inr ⟨by simp, ?_⟩
    rcases h r0 rest0 root rfl hr with ⟨h0, hw⟩ | ⟨hne, hj⟩
    · subst h0; subst hw
      simpa [scopeOf] using (h2.ofMod (g := true) (by simp [scopeOf]))
    · exact JpyI.append hj h2

theorem AbsDenI.fun {proj : Project} {rank : List Nat} (wf : WFacts proj rank) (ciu : CIU proj) {p : Path} {v w : SVal}
    (h1 : AbsDen proj p v) (h2 : AbsDenIW proj p w) : v = w := by
  obtain ⟨r, rest, root, hp, hr, hv⟩ := h1
  rcases hv with ⟨h0, hv⟩ | ⟨hne, hj⟩ <;> rcases h2 r rest root hp hr with ⟨h0', hw⟩ | ⟨hne', hj'⟩
  · rw [hv, hw]
  · exact absurd h0 hne'
  · exact absurd h0' hne
  · exact jpyI_fun wf ciu hj hj'

end Imports
