/-
C04, re-exports (item 3), layer E — name resolution on the finished state with relocated paths
(milestone M3): `expandName` / `resolveName` are sound up to the relocation, and at the end of a run
that covers every module the relocation is `finalLoc`.
-/
import PdProps.C04ReexpD

namespace Imports.Rx
open Registry Imports

/-! ## no imports in class bodies: `classImportsUnique` holds, class objects have no aliases -/

mutual
theorem classImportsStmt_inv {proj : Project} {rank : List Nat} (wf : WFacts proj rank) {m : Nat} : ∀ (cp : List Name) (st : Stmt) (e : Site × Name × ImpKey),
    e ∈ classImportsStmt proj m cp st → (∃ b, siteBody proj (m, cp) = some b ∧ st ∈ b) →
    ∃ S b st', siteBody proj S = some b ∧ st' ∈ b ∧ S.2 ≠ [] ∧ isImportStmt st' = true
  | cp, .classDef n bs body, e, he, ⟨b, hb, hst⟩ => by
    simp only [classImportsStmt] at he
    exact classImports_inv wf (cp ++ [n]) body e he body (fun _ h => h)
      (siteBody_snoc hb (findClass_of_mem wf hb hst))
  | cp, .importMod t a, e, he, ⟨b, hb, hst⟩ => by
    simp only [classImportsStmt] at he
    by_cases hcp : cp.isEmpty = true
    · simp [hcp] at he
    · exact ⟨(m, cp), b, _, hb, hst, by simpa using hcp, rfl⟩
  | cp, .importFrom l M n a, e, he, ⟨b, hb, hst⟩ => by
    simp only [classImportsStmt] at he
    by_cases hcp : cp.isEmpty = true
    · simp [hcp] at he
    · exact ⟨(m, cp), b, _, hb, hst, by simpa using hcp, rfl⟩
  | cp, .importStar l M, e, he, ⟨b, hb, hst⟩ => by
    simp only [classImportsStmt] at he
    by_cases hcp : cp.isEmpty = true
    · simp [hcp] at he
    · exact ⟨(m, cp), b, _, hb, hst, by simpa using hcp, rfl⟩
  | cp, .funcDef n, e, he, _ => by simp [classImportsStmt, Stmt.defName] at he
  | cp, .assign n v, e, he, _ => by simp [classImportsStmt, Stmt.defName] at he
  | cp, .allAssign l, e, he, _ => by simp [classImportsStmt, Stmt.defName, explicitNames] at he
theorem classImports_inv {proj : Project} {rank : List Nat} (wf : WFacts proj rank) {m : Nat} : ∀ (cp : List Name) (sts : List Stmt) (e : Site × Name × ImpKey),
    e ∈ classImports proj m cp sts → ∀ (full : List Stmt), (∀ st ∈ sts, st ∈ full) → siteBody proj (m, cp) = some full →
    ∃ S b st', siteBody proj S = some b ∧ st' ∈ b ∧ S.2 ≠ [] ∧ isImportStmt st' = true
  | _, [], e, he, _, _, _ => by simp [classImports] at he
  | cp, st :: rest, e, he, full, hsub, hb => by
    simp only [classImports, List.mem_append] at he
    rcases he with he | he
    · exact classImportsStmt_inv wf cp st e he ⟨full, hb, hsub st (List.mem_cons_self ..)⟩
    · exact classImports_inv wf cp rest e he full (fun x hx => hsub x (List.mem_cons_of_mem _ hx)) hb
end

theorem ciu_of_shape {proj : Project} {rank : List Nat} (wf : WFacts proj rank) (rx : RxFacts proj) : CIU proj := by
  have hno : ∀ e, e ∉ classImportList proj := by
    intro e he
    unfold classImportList at he
    rw [List.mem_flatMap] at he
    obtain ⟨m, hm, he⟩ := he
    have hml := List.mem_range.1 hm
    obtain ⟨S, b, st', hb, hst', hS, himp⟩ :=
      classImports_inv wf [] (bodyOf proj m) e he (bodyOf proj m) (fun _ h => h) (siteBody_zero hml)
    have := rx.noClsImp hb hst' hS
    rw [himp] at this; cases this
  exact ⟨fun S x k h => absurd h (hno _), fun S S' x k k' h _ => absurd h (hno _)⟩

/-- class objects hold no alias: class bodies do not import -/
theorem no_class_alias {proj : Project} {rank : List Nat} (wf : WFacts proj rank) (rx : RxFacts proj) {s : St}
    (hI : PdInv proj s) {i : Nat} {o : Obj} {S : Site} (ho : s.reg.objs[i]? = some o)
    (hp : path s.reg i = some (loc proj s S)) (hS : StaticSite proj S) (hS2 : S.2 ≠ []) {x : Name} {tgt : Path}
    (hx : dget o.aliases x = some tgt) : False := by
  have hj := hI.alias i o S ho hp hS x tgt hx
  rcases jpdR_inv wf rx hj with ⟨b, st, hb, hst, _, hD⟩ | ⟨r, _, hSe, _, _⟩
  · have hni := rx.noClsImp hb hst hS2
    cases st <;> simp_all [StmtD, isImportStmt]
  · rw [hSe] at hS2; exact hS2 rfl

/-! ## complete bodies of classes -/

/-- following a chain of class names through complete bodies -/
theorem complete_walk {proj : Project} {s : St} (m : Nat) :
    ∀ (cs pre : List Name) (i : Nat) (b b' : List Stmt), CompleteStmts proj s (m, pre) i b → bodyAt b cs = some b' →
      (cs = [] → path s.reg i = some (loc proj s (m, pre))) →
      ∃ j, path s.reg j = some (loc proj s (m, pre ++ cs)) ∧ CompleteStmts proj s (m, pre ++ cs) j b'
  | [], pre, i, b, b', hc, hb, hp => by
    simp only [bodyAt, Option.some.injEq] at hb; subst hb
    exact ⟨i, by simpa using hp rfl, by simpa using hc⟩
  | c :: cs, pre, i, b, b', hc, hb, _ => by
    simp only [bodyAt] at hb
    cases hf : findClass b c with
    | none => simp [hf] at hb
    | some b1 =>
      simp only [hf] at hb
      obtain ⟨bs, hm⟩ := findClass_mem hf
      have h1 := completeStmts_mem hc hm
      simp only [CompleteStmt] at h1
      obtain ⟨_, _, cid, o, hpc, _, _, hcb⟩ := h1
      obtain ⟨j, hj, hcj⟩ := complete_walk m cs (pre ++ [c]) cid b1 b' hcb hb (fun _ => hpc)
      exact ⟨j, by simpa using hj, by simpa using hcj⟩

/-- the object of a class scope holds an entry for every statement of the class body -/
theorem class_complete {proj : Project} {s : St} (hI : PdInv proj s) (hn : NoProcessing s) {i : Nat} {S : Site}
    {b : List Stmt} (hp : path s.reg i = some (loc proj s S)) (hS : StaticSite proj S) (hne : S.2 ≠ [])
    (hb : siteBody proj S = some b) : CompleteStmts proj s S i b := by
  have hst := hI.started i S hp hS hne
  have hlt := hS.1
  have hmd : proj[S.1]? = some proj[S.1] := by simp [hlt]
  have hproc : getPs s S.1 = .processed := by
    cases h : getPs s S.1 with
    | processed => rfl
    | processing => exact absurd h (hn S.1)
    | unprocessed => exact absurd h hst
  have hc := hI.complete S.1 _ hmd hproc
  obtain ⟨o, ho, hpm, _⟩ := hI.mods S.1 hlt
  have hb' := siteBody_bodyAt hb
  rw [bodyOf_eq hmd] at hb'
  obtain ⟨j, hj, hcj⟩ := complete_walk S.1 S.2 [] S.1 _ b hc hb' (fun _ => by rw [loc_mod]; exact hpm)
  simp only [List.nil_append] at hj hcj
  have : j = i := by
    have h1 := dget_of_path hI.reg hj
    have h2 := dget_of_path hI.reg hp
    rw [h1] at h2; injection h2
  subst this; exact hcj

/-! ## the members of pydoctor's linearisations are class objects (as in C04Inh, over `Rx.PdInv`) -/

/-- the final bases of a class are class objects -/
theorem finalBases_class {proj : Project} {s : St} (hI : PdInv proj s) {c b : Nat} (hb : b ∈ finalBases s c) :
    ∃ o : Obj, s.reg.objs[b]? = some o ∧ o.cls = .cls := by
  have hcls : ∀ b, isClassObj s.reg b = true → ∃ o : Obj, s.reg.objs[b]? = some o ∧ o.cls = .cls := by
    intro b hcl
    unfold isClassObj at hcl
    cases hg : getObj s.reg b with
    | none => simp [hg] at hcl
    | some o =>
      simp only [hg, beq_iff_eq] at hcl
      exact ⟨o, hg, hcl⟩
  unfold finalBases finalBasesIn at hb
  cases hd : dget s.cinfo c with
  | none => simp [hd] at hb
  | some ci =>
    simp only [hd, List.mem_filterMap] at hb
    obtain ⟨x, hx, hxb⟩ := hb
    cases hx2 : x.2 with
    | some b' =>
      simp only [hx2, Option.some.injEq] at hxb; subst hxb
      have hmem : some b' ∈ ci.objs := by
        have := (List.of_mem_zip (show (x.1, x.2) ∈ _ from hx)).2
        rw [hx2] at this; exact this
      exact hI.cbase (c, ci) (mem_of_dget hd) b' hmem
    | none =>
      simp only [hx2] at hxb
      split at hxb
      · rename_i b0 hb0
        injection hxb with hxb; subst hxb
        split at hb0
        · split at hb0
          · rename_i hcl; injection hb0 with hb0; subst hb0; exact hcls _ hcl
          · cases hb0
        · cases hb0
      · split at hxb
        · split at hxb
          · rename_i hcl; injection hxb with hxb; subst hxb; exact hcls _ hcl
          · cases hxb
        · cases hxb

/-- **every member of a final linearisation other than the class itself is a class object** -/
theorem mro_member_class {proj : Project} {s : St} (hI : PdInv proj s) {i b : Nat}
    (hb : b ∈ Names.mroOf (finalEnv s) i) : b = i ∨ ∃ o : Obj, s.reg.objs[b]? = some o ∧ o.cls = .cls := by
  unfold Names.mroOf finalEnv at hb
  simp only at hb
  cases hd : dget (finalMro s) i with
  | none => simp [hd] at hb; exact Or.inl hb
  | some v =>
    unfold finalMro at hd
    have := dget_map_key (fun c => match Mro.mroFuel (finalBases s) (s.reg.objs.length + 1) c with
      | some l => l
      | none => Mro.allbasesFuel (finalBases s) (fun _ => false) (s.reg.objs.length + 1) c) _ _ _ hd
    have hfm : dget (finalMro s) i = some v := by unfold finalMro; exact hd
    rw [hfm] at hb
    simp only [Option.getD_some, this] at hb
    have hor : b = i ∨ ∃ d, b ∈ finalBases s d := by
      cases hm : Mro.mroFuel (finalBases s) (s.reg.objs.length + 1) i with
      | some l => simp only [hm] at hb; exact mroFuel_mem' _ _ _ _ hm b hb
      | none => simp only [hm] at hb; exact allbasesFuel_mem _ _ _ _ _ hb
    rcases hor with h | ⟨d, hd'⟩
    · exact Or.inl h
    · exact Or.inr (finalBases_class hI hd')


/-! ## `expandName` / `resolveName` on a finished state, with relocated paths -/

/-- an entry of `contents` called `y` of a class object, and a class-level binding of `y` somewhere: the
(current) qualified name of the entry denotes the binding -/
theorem content_den {proj : Project} {rank : List Nat} (wf : WFacts proj rank) (rx : RxFacts proj) {s : St}
    (hI : PdInv proj s) {b : Nat} {bo : Obj} (hbo : s.reg.objs[b]? = some bo) (hbcls : bo.cls = .cls) {y : Name} {c : Nat}
    (hd : dget bo.contents y = some c) {A : Site} (hA : A.2 ≠ []) {w : SVal} (hj : Jpy proj A [y] w) :
    ∃ kb, path s.reg b = some kb ∧ path s.reg c = some (kb ++ [y]) ∧ AbsDen proj (kb ++ [y]) w := by
  have ciu := ciu_of_shape wf rx
  have hbl := (List.getElem?_eq_some_iff.1 hbo).1
  obtain ⟨kb, hkb⟩ := hI.reg.full b hbl
  have hpb := hI.reg.reg.keys kb b hkb
  have hpc := path_child hI.reg hbo hd hpb
  obtain ⟨oc, hoc, hcp, hcn⟩ := hI.reg.tree.coh b bo y c hbo (mem_of_dget hd)
  obtain ⟨Sc, hkc, hpsc⟩ := hI.site c oc hoc
  obtain ⟨Sb, hkb', hpsb⟩ := hI.site b bo hbo
  have hSb2 : Sb.2 ≠ [] := by
    intro h0
    have := hkb'.isMod.2 h0
    rw [hbcls] at this; simp [isModuleCls] at this
  have hkbe : kb = loc proj s Sb := by rw [hpb] at hpsb; injection hpsb
  have hnm : isModuleCls oc.cls = false := by
    cases hm : isModuleCls oc.cls with
    | false => rfl
    | true =>
      exfalso
      have hS2 := hkc.isMod.1 hm
      obtain ⟨mi, cpi⟩ := Sc
      simp only at hS2; subst hS2
      have hmlt : mi < proj.length := hkc.static.1
      rw [loc_mod, hpc] at hpsc; injection hpsc with hpsc
      obtain ⟨t, ht, _⟩ := mod_path_prefix wf 1 mi kb [y] rfl hmlt hpsc.symm
        (by rw [hkbe]; exact relocSite_ne_nil wf rx _ hkb'.static) (by simp)
      obtain ⟨htl, htp⟩ := modIdx_spec ht
      have : Sb = (t, []) := loc_inj wf rx s hkb'.static ⟨htl, Or.inl rfl⟩ (by rw [loc_mod, htp, hkbe])
      rw [this] at hSb2; exact hSb2 rfl
  have hSc : Sc = (Sb.1, Sb.2 ++ [y]) := by
    rcases site_child wf rx hoc hcp hnm hkc hpsc hkb'.static hpsb with h | ⟨r, _, _, _, h, _⟩
    · rw [h, hcn]
    · rw [h] at hSb2; exact absurd rfl hSb2
  have h2 : 2 ≤ Sc.2.length := by
    rw [hSc]
    have := List.length_pos_iff.2 hSb2
    simp only [List.length_append, List.length_singleton]; omega
  have := entity_is_binding wf ciu hkc.static h2 (by rw [hSc]; exact def_last proj Sb y) hA hj
  refine ⟨kb, hpb, hpc, ?_⟩
  have hcan := canon_reloc wf rx (movedB proj s) hkc.static
  rw [this]
  have : loc proj s Sc = kb ++ [y] := by rw [hpc] at hpsc; injection hpsc with hpsc; exact hpsc.symm
  rw [← this]; exact hcan

/-- **expandName is sound up to the relocation**: on a finished state of a `WFr` project, the dotted name that
`expandName` returns for `ys` looked up in object `i` (the object of site `S`) denotes whatever Python gives
for `ys` in `S` (inherited attribute steps included) -/
theorem expand_sound {proj : Project} {rank : List Nat} (wf : WFacts proj rank) (rx : RxFacts proj) {s : St}
    (hI : PdInv proj s) (hn : NoProcessing s) (e : Names.Env) (he : e.st = s.reg)
    (hmro : ∀ c, ∃ t, Names.mroOf e c = c :: t)
    (hmem : ∀ i b, b ∈ Names.mroOf e i → b = i ∨ ∃ o : Obj, s.reg.objs[b]? = some o ∧ o.cls = .cls) :
    ∀ (ys : List Name) (i : Nat) (first : Bool) (S : Site) (o : Obj) (v : SVal) (p : Path),
      s.reg.objs[i]? = some o → path s.reg i = some (loc proj s S) → ObjKind proj S o.cls →
      JpyI proj first S ys v → Names.expandLoop e i first ys = some p → AbsDenIW proj p v
  | [], _, _, _, _, _, _, _, _, _, hj, _ => by cases hj
  | y :: rest, i, first, S, o, v, p, ho, hp, hk, hj, hx => by
    have ciu := ciu_of_shape wf rx
    obtain ⟨w, hw, hrest⟩ : ∃ w, Step proj first S y w ∧
        ((rest = [] ∧ v = w) ∨ (∃ y2 r, rest = y2 :: r ∧ JpyI proj false (scopeOf w) (y2 :: r) v)) := by
      cases rest with
      | nil => exact ⟨v, hj.one_inv, Or.inl ⟨rfl, rfl⟩⟩
      | cons y2 r =>
        obtain ⟨w, h1, h2⟩ := hj.cons_inv
        exact ⟨w, h1, Or.inr ⟨y2, r, rfl, h2⟩⟩
    have hgo : getObj e.st i = some o := by rw [he]; exact ho
    have hpe : path e.st i = some (loc proj s S) := by rw [he]; exact hp
    have hcanon := canon_reloc wf rx (movedB proj s) hk.static
    have hSne : loc proj s S ≠ [] := relocSite_ne_nil wf rx _ hk.static
    have hfullW : AbsDenIW proj (loc proj s S ++ y :: rest) v :=
      AbsDenIW.ext hcanon.weak.toI hSne (by rw [scopeOf_svalOf]; exact hj.weaken)
    -- what happens once the component has been turned into the dotted name `fn`
    have cont0 : ∀ fn : Path, AbsDenIW proj fn w → fn ≠ [] →
        Names.expandLoop e i first (y :: rest) = contLoop e fn rest → AbsDenIW proj p v := by
      intro fn hfw hfne heq
      rw [heq] at hx
      unfold contLoop at hx
      cases hof : Names.objFor e fn with
      | none =>
        simp only [hof, Option.some.injEq] at hx; subst hx
        rcases hrest with ⟨hr, hv⟩ | ⟨y2, r, hr, hjr⟩
        · subst hr; subst hv; simpa using hfw
        · subst hr; exact AbsDenIW.ext hfw hfne hjr
      | some nxt =>
        simp only [hof] at hx
        have hreg : dget s.reg.all fn = some nxt := by
          have := hof; unfold Names.objFor at this; rw [he] at this; exact this
        have hpn : path s.reg nxt = some fn := hI.reg.reg.keys fn nxt (mem_of_dget hreg)
        obtain ⟨on, hon⟩ : ∃ on, s.reg.objs[nxt]? = some on := by
          have := path_lt hpn; exact ⟨s.reg.objs[nxt], by simp [this]⟩
        obtain ⟨Sn, hkn, hpn'⟩ := hI.site nxt on hon
        rw [hpn] at hpn'; injection hpn' with hpn'
        have hcn' := canon_reloc wf rx (movedB proj s) hkn.static
        rw [show relocSite proj (movedB proj s) Sn = fn from hpn'.symm] at hcn'
        have hwv : svalOf Sn = w := AbsDenI.fun wf ciu hcn' hfw
        rcases hrest with ⟨hr, hv⟩ | ⟨y2, r, hr, hjr⟩
        · subst hr; subst hv
          simp only [Option.some.injEq] at hx; subst hx; exact hfw
        · subst hr
          simp only at hx
          rw [← hwv, scopeOf_svalOf] at hjr
          exact expand_sound wf rx hI hn e he hmro hmem (y2 :: r) nxt false Sn on v p hon (by rw [hpn, hpn']) hkn hjr hx
    have cont : ∀ fn : Path, AbsDenIW proj fn w → fn ≠ [] → (decide (fn = [y]) && !first) = false →
        Names.componentName e i first y = some fn → AbsDenIW proj p v :=
      fun fn hfw hfne hnb hcn => cont0 fn hfw hfne (expandLoop_eq hcn hnb)
    by_cases hcan : canContainImports o.cls = true
    · cases hdc : dget o.contents y with
      | some c =>
        -- an entry of `contents`: the qualified name of the child
        have hcn : Names.componentName e i first y = some (loc proj s S ++ [y]) := by
          rw [Names.componentName_contents first hgo hdc]
          unfold Names.fuelOf
          rw [Names.localName_contents _ hgo hcan hdc, he]
          exact path_child hI.reg ho hdc hp
        have hden : AbsDenIW proj (loc proj s S ++ [y]) w := by
          rcases hw with hw | ⟨_, hS2, A, hA, hjA⟩
          · exact (AbsDen.ext hcanon (by rw [scopeOf_svalOf]; exact hw)).weak.toI
          · obtain ⟨kb, hpb, _, hden⟩ := content_den wf rx hI ho (classSite_kind wf hk hS2) hdc hA hjA
            rw [hp] at hpb; injection hpb with hpb; subst hpb
            exact hden.weak.toI
        refine cont _ hden (by simp) ?_ hcn
        have : loc proj s S ++ [y] ≠ [y] := by
          intro h
          have := congrArg List.length h
          simp at this
          exact hSne this
        simp [this]
      | none =>
        cases hda : dget o.aliases y with
        | some tgt =>
          -- an alias: only module objects hold aliases
          have hS2 : S.2 = [] := by
            cases h : S.2 with
            | nil => rfl
            | cons a as => exact (no_class_alias wf rx hI ho hp hk.static (by rw [h]; simp) hda).elim
          have hjd : JpdR proj S y tgt := hI.alias i o S ho hp hk.static y tgt hda
          have hcn : Names.componentName e i first y = some tgt := by
            rw [Names.componentName_alias first hgo hda]
            unfold Names.fuelOf
            exact Names.localName_alias _ hgo hcan hdc hda
          have hw' : Jpy proj S [y] w := by
            rcases hw with hw | ⟨_, hcs, _⟩
            · exact hw
            · exact absurd hS2 hcs.ne
          have hden : AbsDenIW proj tgt w := (jpdR_jpy wf rx hjd hw').toI
          by_cases hnb : (decide (tgt = [y]) && !first) = false
          · exact cont tgt hden (jpdR_ne_nil wf hjd) hnb hcn
          · have hnb' : tgt = [y] ∧ first = false := by
              cases first <;> simp_all
            obtain ⟨ht, hf⟩ := hnb'
            subst hf
            rw [ht] at hcn
            have hcl : o.cls ≠ .cls := by
              intro hcl
              have := hk.isMod.2 hS2
              rw [hcl] at this; simp [isModuleCls] at this
            rw [expandLoop_notfound hcn hgo hcl hpe] at hx
            simp only [Option.some.injEq] at hx; subst hx
            simpa using hfullW
        | none =>
          -- neither defined nor imported here: the scope itself does not bind the name …
          have noplain : o.cls = .cls → Jpy proj S [y] w → False := by
            intro hcl hw
            have hS2 : S.2 ≠ [] := by
              intro h0
              have := hk.isMod.2 h0
              rw [hcl] at this; simp [isModuleCls] at this
            rcases jpy_inv wf hw with ⟨h0, _⟩ | ⟨b, st, hb, hst, hxs, _⟩
            · exact hS2 h0
            · have hcomp := class_complete hI hn hp hk.static hS2 hb
              have hex : y ∈ explicitNames st :=
                explicit_of_stmtNames (fun lvl M hst' => hS2 (wf.nostar hb (hst' ▸ hst))) hxs
              obtain ⟨o', ho', hent⟩ := complete_entry (completeStmts_mem hcomp hst) hex
              rw [ho] at ho'; injection ho' with ho'; subst ho'
              rcases hent with h | h
              · exact h hdc
              · exact h hda
          by_cases hcl : o.cls = .cls
          · -- … so, in a class, the step is an inherited one
            obtain ⟨hf, A, hA, hjA⟩ : first = false ∧ ∃ A : Site, A.2 ≠ [] ∧ Jpy proj A [y] w := by
              rcases hw with hw | ⟨hf, _, A, hA, hjA⟩
              · exact (noplain hcl hw).elim
              · exact ⟨hf, A, hA, hjA⟩
            subst hf
            have hcn : Names.componentName e i false y = some [y] := by
              unfold Names.componentName
              simp [hgo, hcl, hdc, hda]
            cases hq : Names.classLookup e i y with
            | none =>
              rw [expandLoop_inh_self hcn hgo hcl (Or.inl hq) hpe] at hx
              simp only [Option.some.injEq] at hx; subst hx
              simpa using hfullW
            | some q =>
              by_cases hqy : q = [y]
              · rw [expandLoop_inh_self hcn hgo hcl (Or.inr (by rw [hq, hqy])) hpe] at hx
                simp only [Option.some.injEq] at hx; subst hx
                simpa using hfullW
              · -- found in a class of the linearisation
                have hden : AbsDenIW proj q w ∧ q ≠ [] := by
                  have hq' := hq
                  unfold Names.classLookup at hq'
                  obtain ⟨b, hbm, hb⟩ := List.exists_of_findSome?_eq_some hq'
                  cases hgb : getObj e.st b with
                  | none => simp [hgb] at hb
                  | some bo =>
                    simp only [hgb] at hb
                    have hbo : s.reg.objs[b]? = some bo := by rw [← he]; exact hgb
                    have hbcls : bo.cls = .cls := by
                      rcases hmem i b hbm with hbi | ⟨o', ho', hc'⟩
                      · subst hbi; rw [ho] at hbo; injection hbo with hbo; subst hbo; exact hcl
                      · rw [hbo] at ho'; injection ho' with ho'; subst ho'; exact hc'
                    cases hbc : dget bo.contents y with
                    | some c =>
                      simp only [hbc, Option.some.injEq] at hb
                      obtain ⟨kb, _, hpc, hden⟩ := content_den wf rx hI hbo hbcls hbc hA hjA
                      rw [he, hpc] at hb
                      simp only [Option.getD_some] at hb
                      subst hb
                      exact ⟨hden.weak.toI, by simp⟩
                    | none =>
                      simp only [hbc] at hb
                      exfalso
                      obtain ⟨Sb, hkb, hpsb⟩ := hI.site b bo hbo
                      have hSb2 : Sb.2 ≠ [] := by
                        intro h0
                        have := hkb.isMod.2 h0
                        rw [hbcls] at this; simp [isModuleCls] at this
                      exact no_class_alias wf rx hI hbo hpsb hkb.static hSb2 hb
                exact cont0 q hden.1 hden.2 (expandLoop_inh hcn hgo hcl hq hqy)
          · have hmo : isModuleCls o.cls = true := by
              cases hc : o.cls <;> simp_all [canContainImports, isModuleCls]
            have hw' : Jpy proj S [y] w := by
              rcases hw with hw | ⟨_, hS2, _⟩
              · exact hw
              · exact absurd (hk.isMod.1 hmo) hS2.ne
            have hcn : Names.componentName e i first y = some [y] := by
              unfold Names.componentName
              simp only [hgo, hcl, decide_false, Bool.and_false, Bool.false_and, Bool.false_eq_true, if_false]
              rw [localName_module hgo hmo]; simp [hdc, hda]
            cases first with
            | true =>
              refine cont [y] ?_ (by simp) (by simp) hcn
              intro r rest' root hpr hroot
              injection hpr with e1 e2; subst e1; subst e2
              exact Or.inl ⟨rfl, jpy_root wf hw' y root rfl hroot⟩
            | false =>
              rw [expandLoop_notfound hcn hgo hcl hpe] at hx
              simp only [Option.some.injEq] at hx; subst hx
              simpa using hfullW
    · exact absurd hw (no_step_nonclass wf hk (by simpa using hcan))

/-- the identity pydoctor reports for the object of a static value: its current qualified name -/
def locIdent (proj : Project) (s : St) : SVal → Ident
  | .mod m => .mod (pathOf proj m)
  | .dfn m cp => .dfn (loc proj s (m, cp))

theorem objKind_ident {proj : Project} {s : St} {j : Nat} {o : Obj} {S : Site} (hk : ObjKind proj S o.cls)
    (ho : s.reg.objs[j]? = some o) (hp : path s.reg j = some (loc proj s S)) :
    identOf s.reg j = some (locIdent proj s (svalOf S)) := by
  unfold identOf
  have : getObj s.reg j = some o := ho
  simp only [this, hp]
  obtain ⟨m, cp⟩ := S
  by_cases hcp : cp = []
  · subst hcp
    have := hk.isMod.2 rfl
    simp [this, svalOf, locIdent, loc_mod]
  · have : isModuleCls o.cls = false := by
      cases h : isModuleCls o.cls with
      | false => rfl
      | true => exact absurd (hk.isMod.1 h) hcp
    simp [this, svalOf, hcp, locIdent]

/-- a registered name that denotes `v` (inherited steps allowed) is the name of the object standing for `v` -/
theorem registered_ident {proj : Project} {rank : List Nat} (wf : WFacts proj rank) (rx : RxFacts proj) {s : St}
    (hI : PdInv proj s) {p : Path} {v : SVal} {j : Nat} (hden : AbsDenIW proj p v) (hreg : dget s.reg.all p = some j) :
    identOf s.reg j = some (locIdent proj s v) ∧ ∃ S, StaticSite proj S ∧ svalOf S = v := by
  have ciu := ciu_of_shape wf rx
  have hpj : path s.reg j = some p := hI.reg.reg.keys p j (mem_of_dget hreg)
  obtain ⟨oj, hoj⟩ : ∃ oj, s.reg.objs[j]? = some oj := ⟨s.reg.objs[j]'(path_lt hpj), by simp [path_lt hpj]⟩
  obtain ⟨Sj, hkj, hpj'⟩ := hI.site j oj hoj
  rw [hpj] at hpj'; injection hpj' with hpj'
  have hc := canon_reloc wf rx (movedB proj s) hkj.static
  rw [show relocSite proj (movedB proj s) Sj = p from hpj'.symm] at hc
  have := AbsDenI.fun wf ciu hc hden
  rw [← this]
  exact ⟨objKind_ident hkj hoj (by rw [hpj, hpj']), Sj, hkj.static, rfl⟩

/-- **resolveName is sound up to the relocation on a finished state** -/
theorem resolve_sound_state {proj : Project} {rank : List Nat} (wf : WFacts proj rank) (rx : RxFacts proj) {s : St}
    (hI : PdInv proj s) (hn : NoProcessing s) {i : Nat} {o : Obj} {S : Site} (ho : s.reg.objs[i]? = some o)
    (hp : path s.reg i = some (loc proj s S)) (hk : ObjKind proj S o.cls) {name : Path} {v : SVal} {j : Nat}
    (hj : JpyI proj true S name v) (hr : Names.resolveName (finalEnv s) i name = some j) :
    identOf s.reg j = some (locIdent proj s v) ∧ ∃ S', StaticSite proj S' ∧ svalOf S' = v := by
  have hmro := mroOf_final_head s
  have hmem : ∀ i b, b ∈ Names.mroOf (finalEnv s) i → b = i ∨ ∃ o : Obj, s.reg.objs[b]? = some o ∧ o.cls = .cls :=
    fun i b hb => mro_member_class hI hb
  unfold Names.resolveName at hr
  cases hx : Names.expandName (finalEnv s) i name with
  | none => simp [hx] at hr
  | some p =>
    simp only [hx] at hr
    have hden := expand_sound wf rx hI hn (finalEnv s) rfl hmro hmem name i true S o v p ho hp hk hj hx
    cases hof : Names.objFor (finalEnv s) p with
    | some j' =>
      simp only [hof, Option.some.injEq] at hr; subst hr
      exact registered_ident wf rx hI hden hof
    | none =>
      simp only [hof] at hr
      cases hfo : Names.findObject (finalEnv s) p with
      | obj j' =>
        simp only [hfo, Option.some.injEq] at hr; subst hr
        have hfo := Names.findObject_old_of_obj hfo
        unfold Names.findObjectOld at hfo
        simp only [hof] at hfo
        cases p with
        | nil => simp at hfo
        | cons r rest =>
          simp only at hfo
          split at hfo
          · cases hfo
          · rename_i ro hfind
            by_cases hrest : rest = []
            · simp [hrest] at hfo
            · simp only [hrest, if_false] at hfo
              cases hx2 : Names.expandName (finalEnv s) ro rest with
              | none => simp [hx2] at hfo
              | some p2 =>
                simp only [hx2] at hfo
                cases hof2 : Names.objFor (finalEnv s) p2 with
                | none => simp [hof2] at hfo
                | some j2 =>
                  simp only [hof2, Names.Found.obj.injEq] at hfo; subst hfo
                  have hmem' := List.mem_of_find?_eq_some hfind
                  have hpred := List.find?_some hfind
                  obtain ⟨oo, hoo, hpar⟩ := hI.reg.tree.rootsOk ro hmem'
                  have hgo : getObj (finalEnv s).st ro = some oo := hoo
                  simp only [hgo, decide_eq_true_eq] at hpred
                  have hpro : path s.reg ro = some [r] := by
                    rw [← hpred]; simp only [path]; exact pathAux_root hoo hpar
                  obtain ⟨Sr, hkr, hpr'⟩ := hI.site ro oo hoo
                  -- it is a root module of the project
                  have hSr2 : Sr.2 = [] := by
                    cases h : Sr.2 with
                    | nil => rfl
                    | cons a as =>
                      exfalso
                      have := loc_len2 wf s hkr.static (by rw [h]; simp)
                      rw [hpro] at hpr'; injection hpr' with hpr'
                      rw [← hpr'] at this; simp at this
                  obtain ⟨m, cp⟩ := Sr
                  simp only at hSr2; subst hSr2
                  rw [loc_mod, hpro] at hpr'; injection hpr' with hpr'
                  have hlt := hkr.static.1
                  simp only at hlt
                  have hroot : modIdx proj [r] = some m := by rw [hpr']; exact modIdx_of_path wf.modNodup hlt
                  rcases hden r rest m rfl hroot with ⟨h0, _⟩ | ⟨_, hjr⟩
                  · exact absurd h0 hrest
                  · have hden2 := expand_sound wf rx hI hn (finalEnv s) rfl hmro hmem rest ro true (m, []) oo v p2 hoo
                      (by rw [hpro, loc_mod, hpr']) hkr hjr hx2
                    exact registered_ident wf rx hI hden2 hof2
      | external => simp [hfo] at hr
      | lookupError => simp [hfo] at hr
      | indexError => simp [hfo] at hr
      | crash => simp [hfo] at hr

/-! ## at the end of a run that covers every module, the relocation is `finalLoc` -/

theorem relocSite_congr {proj : Project} {mv mv' : Req → Bool} (h : ∀ r ∈ reexportReqs proj, mv r = mv' r) (S : Site) :
    relocSite proj mv S = relocSite proj mv' S := by
  obtain ⟨m, cp⟩ := S
  cases cp with
  | nil => rfl
  | cons n rest =>
    unfold relocSite
    simp only
    have : (reexportReqs proj).find? (fun r => r.1 == m && r.2.1 == n && mv r) =
        (reexportReqs proj).find? (fun r => r.1 == m && r.2.1 == n && mv' r) := by
      apply find?_congr'
      intro r hr
      rw [h r hr]
    rw [this]

/-- every request whose re-exporter is processed has been carried out -/
theorem all_moved {proj : Project} {s : St} (hI : PdInv proj s) (hproc : ∀ m, m < proj.length → getPs s m = .processed) :
    ∀ r ∈ reexportReqs proj, movedB proj s r = true := by
  intro r hr
  obtain ⟨hx, hbx, lvl, M, asn, hst, ha, ht⟩ := req_stmt hr
  have hmd : proj[r.2.2.1]? = some proj[r.2.2.1] := by simp [hx]
  have hcomp := hI.complete r.2.2.1 _ hmd (hproc _ hx)
  rw [← bodyOf_eq hmd] at hcomp
  have h1 := completeStmts_mem hcomp hst
  simp only [CompleteStmt] at h1
  have hr' : ((r.1, r.2.1, r.2.2.1, asn.getD r.2.1) : Req) ∈ reexportReqs proj := by
    rw [← ha]; exact hr
  have h2 := h1.2 r.1
  simp only [ht, forall_const] at h2
  have := h2 hr'
  rw [← ha] at this
  exact this

theorem locIdent_final {proj : Project} {rank : List Nat} (wf : WFacts proj rank) {s : St}
    (hall : ∀ r ∈ reexportReqs proj, movedB proj s r = true) {S : Site} (hS : StaticSite proj S) :
    locIdent proj s (svalOf S) = finalLoc proj (identSV proj (svalOf S)) := by
  obtain ⟨m, cp⟩ := S
  by_cases hcp : cp = []
  · subst hcp; simp [svalOf, locIdent, identSV, finalLoc]
  · simp only [svalOf, hcp, if_false, locIdent, identSV, finalLoc, Ident.dfn.injEq]
    unfold finalLocPath
    have hmem := static_mem_entities hS
    cases hf : (entities proj).find? (fun S' => sitePath proj S' == pathOf proj m ++ cp) with
    | none =>
      have := List.find?_eq_none.1 hf (m, cp) hmem
      simp [sitePath] at this
    | some S' =>
      have hp := List.find?_some hf
      simp only [beq_iff_eq] at hp
      have hS' : S' = (m, cp) :=
        nodup_map_inj wf.pathsNodup (List.mem_of_find?_eq_some hf) hmem (by rw [hp]; simp [sitePath])
      subst hS'
      simp only
      exact relocSite_congr (fun r hr => by rw [hall r hr]) (m, cp)

end Imports.Rx
