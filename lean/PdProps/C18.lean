/-
C18 — equal inputs give byte-identical output.

Property theorems over `PdModel.Determinism`:

* `sort_perm_invariant`, `sortedBy_perm_invariant`, `traversal_listing_invariant`
    — `sorted(listing)` does not depend on the order of the listing, hence neither does the
      sequence of modules `System.addPackage` creates.
* `membership_only_invariant`, `sorted_after_invariant`, `sortedBy_after_invariant`,
  `singleton_only_invariant` — the three harmless classes of set-iteration site, for EVERY
  enumeration of the set; then one theorem per concrete site of the catalogue.
* project-name guess: `projectname_invariant` — full statement (the code sorts the root names since
  /repo f35e237); the pre-fix function is kept as `projectNameOld` with the historical
  `projectname_counterexample_old`, `projectname_old_depends_on_enumeration`.
* `keyed_writes_invariant` — static files written from an unsorted template listing.
* `rerun_idempotent`, `output_independent_of_old_content` — the output directory.
* `sortedWith_perm_invariant`, `sortedWith_stable`, per-key theorems (`lc_order_invariant`,
  `alpha_order_invariant_partial` + `alpha_tie_counterexample`, `source_never_mixed`, …),
  `unmaskedAttrs_enum_invariant` — the sort keys of the writers and the inherited-member lists.
* `addTemplateDirSorted_listing_invariant` — `--template-dir`: full (the directory is walked in name order
  since /repo ea400d3); `addTemplateDir_listing_invariant_partial`, historical
  `addTemplateDir_listing_counterexample_old` about the unsorted walk.
* `buildtime_function_of_inputs`, `buildtime_epoch_zero`, … — the footer time is a function of
  (SOURCE_DATE_EPOCH, --buildtime) whenever either is set.
-/
import PdModel.Determinism

namespace Determinism

/-! ## `lexLe` is an antisymmetric total order -/

theorem lexLe_total : ∀ a b : Name, (lexLe a b || lexLe b a) = true
  | [], _ => by simp [lexLe]
  | _ :: _, [] => by simp [lexLe]
  | a :: as, b :: bs => by
    have ih := lexLe_total as bs
    simp only [lexLe]
    by_cases h1 : a < b
    · simp [h1]
    · by_cases h2 : a = b
      · subst h2; simpa using ih
      · have h3 : b < a := by omega
        have h4 : ¬ b = a := fun h => h2 h.symm
        simp [h1, h2, h3]

theorem lexLe_trans : ∀ a b c : Name, lexLe a b = true → lexLe b c = true → lexLe a c = true
  | [], _, _ => by simp [lexLe]
  | _ :: _, [], _ => by simp [lexLe]
  | _ :: _, _ :: _, [] => by simp [lexLe]
  | a :: as, b :: bs, c :: cs => by
    have ih := lexLe_trans as bs cs
    simp only [lexLe]
    by_cases hab : a < b
    · by_cases hbc : b < c
      · have : a < c := by omega
        simp [this]
      · by_cases hbc' : b = c
        · subst hbc'; simp [hab]
        · simp [hbc, hbc']
    · by_cases hab' : a = b
      · subst hab'
        by_cases hac : a < c
        · simp [hac]
        · by_cases hac' : a = c
          · subst hac'; simpa using ih
          · simp [hac, hac']
      · simp [hab, hab']

theorem lexLe_antisymm : ∀ a b : Name, lexLe a b = true → lexLe b a = true → a = b
  | [], [] => by simp
  | [], _ :: _ => by simp [lexLe]
  | _ :: _, [] => by simp [lexLe]
  | a :: as, b :: bs => by
    have ih := lexLe_antisymm as bs
    simp only [lexLe]
    by_cases hab : a < b
    · have h1 : ¬ b < a := by omega
      have h2 : ¬ b = a := by omega
      simp [h1, h2]
    · by_cases hab' : a = b
      · subst hab'
        simp only [Nat.lt_irrefl, if_false, if_true]
        intro h1 h2
        rw [ih h1 h2]
      · simp [hab, hab']

/-! ## directory traversal -/

/-- **sorted(listing) does not depend on the order of the listing.** -/
theorem sort_perm_invariant {l₁ l₂ : List Name} (h : l₁.Perm l₂) : sorted l₁ = sorted l₂ := by
  unfold sorted
  apply List.Perm.eq_of_pairwise (le := fun a b => lexLe a b = true)
  · intro a b _ _ hab hba
    exact lexLe_antisymm a b hab hba
  · exact List.pairwise_mergeSort lexLe_trans lexLe_total l₁
  · exact List.pairwise_mergeSort lexLe_trans lexLe_total l₂
  · exact (List.mergeSort_perm l₁ _).trans (h.trans (List.mergeSort_perm l₂ _).symm)

example : sorted [[112, 107, 103], [108, 105, 98]] = sorted [[108, 105, 98], [112, 107, 103]] :=
  sort_perm_invariant (List.Perm.swap _ _ _)

/-- the same for `sorted(entries, key=k)` when the keys of the entries are distinct (the names in
one directory are) -/
theorem sortedBy_perm_invariant {α : Type} (k : α → Name) {l₁ l₂ : List α} (h : l₁.Perm l₂)
    (hdistinct : ∀ a ∈ l₁, ∀ b ∈ l₁, k a = k b → a = b) : sortedBy k l₁ = sortedBy k l₂ := by
  unfold sortedBy
  apply List.Perm.eq_of_pairwise (le := fun a b => lexLe (k a) (k b) = true)
  · intro a b ha hb hab hba
    have ha' : a ∈ l₁ := (List.mergeSort_perm l₁ _).mem_iff.mp ha
    have hb' : b ∈ l₁ := h.mem_iff.mpr ((List.mergeSort_perm l₂ _).mem_iff.mp hb)
    exact hdistinct a ha' b hb' (lexLe_antisymm _ _ hab hba)
  · exact List.pairwise_mergeSort (le := fun a b => lexLe (k a) (k b))
      (fun a b c => lexLe_trans (k a) (k b) (k c)) (fun a b => lexLe_total (k a) (k b)) l₁
  · exact List.pairwise_mergeSort (le := fun a b => lexLe (k a) (k b))
      (fun a b c => lexLe_trans (k a) (k b) (k c)) (fun a b => lexLe_total (k a) (k b)) l₂
  · exact (List.mergeSort_perm l₁ _).trans (h.trans (List.mergeSort_perm l₂ _).symm)

/-- **The modules `addPackage` creates, and their order, do not depend on the order in which the
file system lists any directory.** -/
theorem traversal_listing_invariant (cfg : Cfg) (ls₁ ls₂ : List Name → List (Name × Kind))
    (hperm : ∀ p, (ls₁ p).Perm (ls₂ p))
    (hdistinct : ∀ p, ∀ a ∈ ls₁ p, ∀ b ∈ ls₁ p, a.1 = b.1 → a = b) :
    ∀ fuel pkg, addPackage cfg ls₁ fuel pkg = addPackage cfg ls₂ fuel pkg := by
  intro fuel
  induction fuel with
  | zero => intro pkg; rfl
  | succ n ih =>
    intro pkg
    have hrec : addPackage cfg ls₁ n = addPackage cfg ls₂ n := funext ih
    simp only [addPackage]
    rw [sortedBy_perm_invariant (·.1) (hperm pkg) (hdistinct pkg), hrec]

/- non-vacuity: two listings of the same package, reversed -/
example (cfg : Cfg) :
    addPackage cfg (fun _ => [([98, 46, 112, 121], .file), ([97, 46, 112, 121], .file)]) 1 [[112]]
      = addPackage cfg (fun _ => [([97, 46, 112, 121], .file), ([98, 46, 112, 121], .file)]) 1 [[112]] :=
  traversal_listing_invariant cfg _ _ (fun _ => List.Perm.swap _ _ _)
    (fun _ a ha b hb => by
      simp only [List.mem_cons, List.not_mem_nil, or_false] at ha hb
      rcases ha with rfl | rfl <;> rcases hb with rfl | rfl <;> simp) 1 [[112]]

/-! ## the harmless classes of set-iteration site -/

/-- a set that is only asked `x in s` -/
theorem membership_only_invariant {α : Type} [BEq α] [LawfulBEq α] (x : α) {l₁ l₂ : List α}
    (h : l₁.Perm l₂) : membershipSite x l₁ = membershipSite x l₂ := by
  unfold membershipSite
  rw [Bool.eq_iff_iff]
  simp only [List.contains_iff_mem]
  exact h.mem_iff

/-- `f(sorted(s))` -/
theorem sorted_after_invariant {β : Type} (f : List Name → β) {l₁ l₂ : List Name}
    (h : l₁.Perm l₂) : sortedSite f l₁ = sortedSite f l₂ := by
  unfold sortedSite
  rw [sort_perm_invariant h]

/-- `f(sorted(s, key=k))`, distinct keys -/
theorem sortedBy_after_invariant {α β : Type} (k : α → Name) (f : List α → β) {l₁ l₂ : List α}
    (h : l₁.Perm l₂) (hdistinct : ∀ a ∈ l₁, ∀ b ∈ l₁, k a = k b → a = b) :
    sortedBySite k f l₁ = sortedBySite k f l₂ := by
  unfold sortedBySite
  rw [sortedBy_perm_invariant k h hdistinct]

/-- `if len(s) == 1: f(the element) else: dflt` -/
theorem singleton_only_invariant {α β : Type} (f : α → β) (dflt : β) {l₁ l₂ : List α}
    (h : l₁.Perm l₂) : singletonSite f dflt l₁ = singletonSite f dflt l₂ := by
  unfold singletonSite
  have hl := h.length_eq
  by_cases h1 : l₁.length = 1
  · obtain ⟨x, hx⟩ := List.length_eq_one_iff.mp h1
    subst hx
    have h2 : l₂ = [x] := (List.singleton_perm.mp h).symm
    subst h2
    rfl
  · have h2 : ¬ l₂.length = 1 := by omega
    simp [h1, h2]

example : singletonSite (fun n : Name => n ++ dotHtml) [] [[112]] = [112] ++ dotHtml := by decide

/-! ### the concrete sites of the catalogue -/

theorem perm_eq_singleton {α : Type} {l₁ l₂ : List α} (h : l₁.Perm l₂) (x : α) :
    l₁ = [x] ↔ l₂ = [x] := by
  constructor
  · intro e; subst e; exact (List.singleton_perm.mp h).symm
  · intro e; subst e; exact List.perm_singleton.mp h

/-- `Documentable.url` — `list(root_names) == [fullName]` -/
theorem pageUrl_invariant {l₁ l₂ : List Name} (h : l₁.Perm l₂) (full : Name) :
    pageUrl l₁ full = pageUrl l₂ full := by
  unfold pageUrl
  by_cases h1 : l₁ = [full]
  · have h2 : l₂ = [full] := (perm_eq_singleton h full).mp h1
    simp [h1, h2]
  · have h2 : ¬ l₂ = [full] := fun e => h1 ((perm_eq_singleton h full).mpr e)
    simp [h1, h2]

/-- `writeSummaryPages` — the name that becomes a symlink to index.html -/
theorem rootSymlink_invariant {l₁ l₂ : List Name} (h : l₁.Perm l₂) (vis : Bool) (pageFiles : List Name) :
    rootSymlink l₁ vis pageFiles = rootSymlink l₂ vis pageFiles := by
  unfold rootSymlink
  have hl := h.length_eq
  by_cases h1 : l₁.length = 1
  · obtain ⟨x, hx⟩ := List.length_eq_one_iff.mp h1
    subst hx
    have h2 : l₂ = [x] := (List.singleton_perm.mp h).symm
    subst h2
    rfl
  · have h2 : ¬ l₂.length = 1 := by omega
    simp [h1, h2]

/-- under its guard the `list(...)[0]` never raises -/
theorem rootSymlink_no_indexError (l : List Name) (vis : Bool) (pageFiles : List Name) :
    rootSymlink l vis pageFiles ≠ .indexError := by
  unfold rootSymlink
  by_cases h1 : l.length = 1
  · obtain ⟨x, hx⟩ := List.length_eq_one_iff.mp h1
    subst hx
    simp only [List.length_cons, List.length_nil, if_true, List.getElem?_cons_zero]
    split
    · simp
    · split
      · simp
      · split <;> simp
  · simp [h1]

/-- the alias never takes the name of index.html nor of a summary / search page of the run (since /repo
5201211), and is only made for a visible root (a3977d7): this is what makes the `wfRun` hypothesis of
`rerun_idempotent` true of every real run -/
theorem rootSymlink_link_fresh (l : List Name) (vis : Bool) (pageFiles : List Name) (s : Name)
    (h : rootSymlink l vis pageFiles = .link s) :
    vis = true ∧ s ≠ indexHtml ∧ pageFiles.contains s = false := by
  unfold rootSymlink at h
  by_cases h1 : l.length = 1
  · obtain ⟨x, hx⟩ := List.length_eq_one_iff.mp h1
    subst hx
    simp only [List.length_cons, List.length_nil, if_true, List.getElem?_cons_zero] at h
    cases vis with
    | false => simp at h
    | true =>
      simp only [Bool.not_true, Bool.false_eq_true, if_false] at h
      by_cases h2 : x ++ dotHtml = indexHtml
      · simp [h2] at h
      · cases h3 : pageFiles.contains (x ++ dotHtml) with
        | true => simp only [h2, if_false, h3, if_true] at h; cases h
        | false =>
          simp only [h2, if_false, h3, Bool.false_eq_true] at h
          have : x ++ dotHtml = s := by simpa using h
          subst this
          exact ⟨rfl, h2, h3⟩
  · simp [h1] at h

/-- a hidden single root gets no alias -/
theorem rootSymlink_hidden (l pageFiles : List Name) : rootSymlink l false pageFiles ≠ .link (l.headD [] ++ dotHtml) := by
  intro h
  have := (rootSymlink_link_fresh l false pageFiles _ h).1
  simp at this

example : rootSymlink [[112]] true [[99] ++ dotHtml] = .link ([112] ++ dotHtml) := by decide
example : rootSymlink [[112]] false [[99] ++ dotHtml] = .noLink := by decide
example : rootSymlink [[99]] true [[99] ++ dotHtml] = .noLink := by decide
example : rootSymlink [[105, 110, 100, 101, 120]] true [] = .noLink := by decide

/-- `summaryPages` — whether index.html is the IndexPage -/
theorem hasIndexPage_invariant {l₁ l₂ : List Name} (h : l₁.Perm l₂) (anyRootVisible : Bool) :
    hasIndexPage l₁ anyRootVisible = hasIndexPage l₂ anyRootVisible := by
  unfold hasIndexPage
  rw [h.length_eq]

/-- linker — `prefix not in root_names` -/
theorem rootUnknown_invariant {l₁ l₂ : List Name} (h : l₁.Perm l₂) (pfx : Name) :
    rootUnknown l₁ pfx = rootUnknown l₂ pfx := by
  unfold rootUnknown
  rw [membership_only_invariant pfx h]

/-- `astutils._annotation_for_elements` — `names.pop()` under `len(names) == 1` -/
theorem popSingle_invariant {α : Type} {l₁ l₂ : List α} (h : l₁.Perm l₂) : popSingle l₁ = popSingle l₂ := by
  unfold popSingle
  have hl := h.length_eq
  by_cases h1 : l₁.length = 1
  · obtain ⟨x, hx⟩ := List.length_eq_one_iff.mp h1
    subst hx
    have h2 : l₂ = [x] := (List.singleton_perm.mp h).symm
    subst h2
    rfl
  · have h2 : ¬ l₂.length = 1 := by omega
    simp [h1, h2]

/-- `IndexPage.rootkind` — `sorted(set(kinds), key=name)` -/
theorem rootKinds_invariant {l₁ l₂ : List Name} (h : l₁.Perm l₂) : rootKinds l₁ = rootKinds l₂ :=
  sorted_after_invariant _ h

/-! ## the project-name guess

Since /repo f35e237 `driver.get_system` joins the SORTED root names, so the site is of class
`sorted_after` and the full statement holds.  The function the code used before
(`projectNameOld`, `'/'.join(<set>)`) is kept only to record why the fix was needed. -/

/-- **The project name (guessed or given) does not depend on the enumeration of the roots** —
full statement, every enumeration, with or without `--project-name`, any number of roots. -/
theorem projectname_invariant (e : Option Name) {l₁ l₂ : List Name} (h : l₁.Perm l₂) :
    projectName e l₁ = projectName e l₂ := by
  cases e with
  | some n => rfl
  | none =>
    simp only [projectName]
    rw [sort_perm_invariant h]

/- non-vacuity: two roots in the two possible enumerations, three roots rotated -/
example : projectName none [[112], [113]] = projectName none [[113], [112]] :=
  projectname_invariant none (List.Perm.swap _ _ _)
example : projectName none [[97], [98], [99]] = projectName none [[99], [97], [98]] :=
  projectname_invariant none
    ((List.perm_append_comm (l₁ := [[97], [98]]) (l₂ := [[99]])))

/-- the guess is the `sorted_after` site instance `join "/"` -/
theorem projectName_eq_sortedSite (l : List Name) : projectName none l = sortedSite (join [slash]) l := rfl

/-- with one root the guess is that root's name (what the code did before and after the fix) -/
theorem projectName_single (r : Name) : projectName none [r] = r := by
  simp [projectName, sorted, join]

/-- before and after the fix agree whenever a name is given or there is at most one root: the fix
changes nothing for those runs -/
theorem projectName_eq_old (e : Option Name) (l : List Name) (hyp : e.isSome = true ∨ l.length ≤ 1) :
    projectName e l = projectNameOld e l := by
  cases e with
  | some n => rfl
  | none =>
    have hlen : l.length ≤ 1 := by
      rcases hyp with h0 | h0
      · simp at h0
      · exact h0
    match l, hlen with
    | [], _ => simp [projectName, projectNameOld, sorted]
    | [x], _ => simp [projectName, projectNameOld, sorted]

/-! ### historical: the code before f35e237 -/

/-- HISTORICAL (pre-f35e237 code): what held of the old function -/
theorem projectname_old_invariant_partial (e : Option Name) {l₁ l₂ : List Name} (h : l₁.Perm l₂)
    (hyp : e.isSome = true ∨ l₁.length ≤ 1) : projectNameOld e l₁ = projectNameOld e l₂ := by
  cases e with
  | some n => rfl
  | none =>
    have hlen : l₁.length ≤ 1 := by
      rcases hyp with h0 | h0
      · simp at h0
      · exact h0
    match l₁, hlen, h with
    | [], _, h => rw [List.nil_perm.mp h]
    | [x], _, h => rw [(List.singleton_perm.mp h).symm]

/-- HISTORICAL (pre-f35e237 code): two roots `p`, `q`, no `--project-name`: the two enumerations of
`{p, q}` gave two names -/
theorem projectname_counterexample_old :
    ∃ l₁ l₂ : List Name, l₁.Perm l₂ ∧ l₁.Nodup ∧ projectNameOld none l₁ ≠ projectNameOld none l₂ :=
  ⟨[[112], [113]], [[113], [112]], List.Perm.swap _ _ _, by decide, by decide⟩

theorem append_sep_inj : ∀ (a b s t : Name), slash ∉ a → slash ∉ b →
    a ++ slash :: s = b ++ slash :: t → a = b
  | [], [], _, _, _, _, _ => rfl
  | [], y :: b, s, t, _, hb, h => by
    simp only [List.nil_append, List.cons_append, List.cons.injEq] at h
    exact absurd (h.1 ▸ List.mem_cons_self) hb
  | x :: a, [], s, t, ha, _, h => by
    simp only [List.nil_append, List.cons_append, List.cons.injEq] at h
    exact absurd (h.1 ▸ List.mem_cons_self) ha
  | x :: a, y :: b, s, t, ha, hb, h => by
    simp only [List.cons_append, List.cons.injEq] at h
    have ha' : slash ∉ a := fun m => ha (List.mem_cons_of_mem _ m)
    have hb' : slash ∉ b := fun m => hb (List.mem_cons_of_mem _ m)
    rw [h.1, append_sep_inj a b s t ha' hb' h.2]

/-- HISTORICAL (pre-f35e237 code): for ANY two distinct root names (module names hold no `/`) the
old guess depended on the enumeration -/
theorem projectname_old_depends_on_enumeration (a b : Name) (hab : a ≠ b) (ha : slash ∉ a) (hb : slash ∉ b) :
    projectNameOld none [a, b] ≠ projectNameOld none [b, a] := by
  simp only [projectNameOld, join, List.append_assoc, List.singleton_append]
  intro h
  exact hab (append_sep_inj a b b a ha hb h)

/-! ## the output directory -/

theorem get_set (d : Dir) (n : Name) (e : Entry) (m : Name) :
    (d.set n e).get m = if n = m then some e else d.get m := by
  simp [Dir.set, Dir.get]

theorem get_remove (d : Dir) (n m : Name) :
    (d.remove n).get m = if n = m then none else d.get m := by
  induction d with
  | nil => simp [Dir.remove, Dir.get]
  | cons p rest ih =>
    obtain ⟨k, e⟩ := p
    simp only [Dir.remove] at ih
    simp only [Dir.remove, List.filter_cons]
    by_cases hk : k = n
    · subst hk
      by_cases hm : k = m
      · subst hm; simpa [Dir.get] using ih
      · simpa [Dir.get, hm] using ih
    · by_cases hm : k = m
      · subst hm
        have : ¬ n = k := fun h => hk h.symm
        simp [hk, Dir.get, this]
      · simp only [ne_eq, hk, not_false_eq_true, decide_true, if_true, Dir.get, hm, if_false]
        exact ih

theorem run_append (a b : List Op) (d : Dir) :
    run (a ++ b) d = match run a d with
      | .ok d' => run b d'
      | .error e => .error e := by
  induction a generalizing d with
  | nil => simp [run]
  | cons op ops ih =>
    simp only [List.cons_append, run]
    cases step d op with
    | ok d' => exact ih d'
    | error e => rfl

/-- `open` of a name that is not a link opens that name -/
theorem resolve_not_link (d : Dir) (n : Name) (fuel : Nat) (h : ∀ t, d.get n ≠ some (.link t)) :
    resolve d (fuel + 1) n = some n := by
  simp only [resolve]

/-- the content the last `write` to `m` in `ws` leaves, if any -/
def lastWrite : List (Name × Nat) → Name → Option Nat
  | [], _ => none
  | w :: ws, m =>
    match lastWrite ws m with
    | some c => some c
    | none => if w.1 = m then some w.2 else none

/-- writes to names that are not links are plain overwrites -/
theorem run_writes (ws : List (Name × Nat)) : ∀ (d : Dir),
    (∀ w ∈ ws, ∀ t, d.get w.1 ≠ some (.link t)) →
    ∃ d', run (ws.map (fun w => Op.write w.1 w.2)) d = .ok d' ∧
      ∀ m, d'.get m = match lastWrite ws m with
        | some c => some (.file c)
        | none => d.get m := by
  induction ws with
  | nil => intro d _; exact ⟨d, rfl, fun m => by simp [lastWrite]⟩
  | cons w ws ih =>
    intro d hd
    have hw := hd w List.mem_cons_self
    have hstep : step d (.write w.1 w.2) = .ok (d.set w.1 (.file w.2)) := by
      simp only [step, maxLinks, resolve_not_link d w.1 40 hw]
    have hd' : ∀ w' ∈ ws, ∀ t, (d.set w.1 (.file w.2)).get w'.1 ≠ some (.link t) := by
      intro w' hw' t
      rw [get_set]
      by_cases h : w.1 = w'.1
      · simp [h]
      · simpa [h] using hd w' (List.mem_cons_of_mem _ hw') t
    obtain ⟨d', hrun, hget⟩ := ih (d.set w.1 (.file w.2)) hd'
    refine ⟨d', ?_, ?_⟩
    · simp only [List.map_cons, run, hstep]
      exact hrun
    · intro m
      rw [hget m]
      simp only [lastWrite]
      cases lastWrite ws m with
      | some c => rfl
      | none =>
        rw [get_set]
        by_cases h : w.1 = m <;> simp [h]

/-- when the names are distinct, the last write to `m` is the only one -/
theorem lastWrite_eq_some_iff (ws : List (Name × Nat)) (hnd : (names ws).Nodup) (m : Name) (c : Nat) :
    lastWrite ws m = some c ↔ (m, c) ∈ ws := by
  induction ws with
  | nil => simp [lastWrite]
  | cons w ws ih =>
    obtain ⟨n, c'⟩ := w
    simp only [names, List.map_cons, List.nodup_cons] at hnd
    have ih' := ih (by simpa [names] using hnd.2)
    simp only [lastWrite, List.mem_cons, Prod.mk.injEq]
    cases hl : lastWrite ws m with
    | some c₀ =>
      have hmem : (m, c₀) ∈ ws := by
        have := ih (by simpa [names] using hnd.2)
        rw [hl] at ih'
        exact (lastWrite_mem ws m c₀ hl)
      have hn : ¬ m = n := by
        intro e
        apply hnd.1
        rw [← e]
        exact List.mem_map.mpr ⟨(m, c₀), hmem, rfl⟩
      constructor
      · intro h
        have : c₀ = c := by simpa using h
        subst this
        exact Or.inr hmem
      · intro h
        rcases h with ⟨e, _⟩ | h
        · exact absurd e hn
        · have := ih'.mpr h
          rw [hl] at this
          exact this
    | none =>
      rw [hl] at ih'
      by_cases hnm : n = m
      · subst hnm
        simp only [if_true, Option.some.injEq, true_and]
        constructor
        · intro h; exact Or.inl h.symm
        · intro h
          rcases h with h | h
          · exact h.symm
          · exact absurd (ih'.mpr h) (by simp)
      · have hmn : ¬ m = n := fun e => hnm e.symm
        simp only [hnm, if_false, hmn, false_and, false_or]
        constructor
        · intro h; exact absurd h (by simp)
        · intro h; exact absurd (ih'.mpr h) (by simp)
where
  lastWrite_mem : ∀ (ws : List (Name × Nat)) (m : Name) (c : Nat), lastWrite ws m = some c → (m, c) ∈ ws
    | [], _, _, h => by simp [lastWrite] at h
    | w :: ws, m, c, h => by
      simp only [lastWrite] at h
      cases hl : lastWrite ws m with
      | some c₀ =>
        rw [hl] at h
        have : c₀ = c := by simpa using h
        subst this
        exact List.mem_cons_of_mem _ (lastWrite_mem ws m c₀ hl)
      | none =>
        rw [hl] at h
        by_cases e : w.1 = m
        · simp only [e, if_true, Option.some.injEq] at h
          subst h
          rw [← e]
          exact List.mem_cons_self
        · simp [e] at h

/-- **Static files written from an unsorted listing** (`Template.fromdir` iterates `iterdir()`
unsorted; `prepOutputDirectory` then writes each static template under its own name): any two
orders of the same writes with distinct names leave the same directory. -/
theorem keyed_writes_invariant (ws₁ ws₂ : List (Name × Nat)) (h : ws₁.Perm ws₂)
    (hnd : (names ws₁).Nodup) (d : Dir) (hd : ∀ w ∈ ws₁, ∀ t, d.get w.1 ≠ some (.link t)) :
    ∃ d₁ d₂, run (ws₁.map (fun w => Op.write w.1 w.2)) d = .ok d₁ ∧
      run (ws₂.map (fun w => Op.write w.1 w.2)) d = .ok d₂ ∧ ∀ m, d₁.get m = d₂.get m := by
  have hd₂ : ∀ w ∈ ws₂, ∀ t, d.get w.1 ≠ some (.link t) := fun w hw t => hd w (h.mem_iff.mpr hw) t
  have hnd₂ : (names ws₂).Nodup := by
    have := (h.map (fun w => w.1)).nodup_iff.mp (by simpa [names] using hnd)
    simpa [names] using this
  obtain ⟨d₁, hr₁, hg₁⟩ := run_writes ws₁ d hd
  obtain ⟨d₂, hr₂, hg₂⟩ := run_writes ws₂ d hd₂
  refine ⟨d₁, d₂, hr₁, hr₂, fun m => ?_⟩
  rw [hg₁ m, hg₂ m]
  have hlw : lastWrite ws₁ m = lastWrite ws₂ m := by
    apply Option.ext
    intro c
    rw [lastWrite_eq_some_iff ws₁ hnd, lastWrite_eq_some_iff ws₂ hnd₂]
    exact h.mem_iff
  rw [hlw]

example : ∃ d₁ d₂, run ([([1], 7), ([2], 8)].map (fun w => Op.write w.1 w.2)) [] = .ok d₁ ∧
    run ([([2], 8), ([1], 7)].map (fun w => Op.write w.1 w.2)) [] = .ok d₂ ∧ ∀ m, d₁.get m = d₂.get m :=
  keyed_writes_invariant _ _ (List.Perm.swap _ _ _) (by decide) [] (by simp [Dir.get])

/-- what one run leaves under name `m`, given what the directory held before -/
def final (before : List (Name × Nat)) (link : Option (Name × Name)) (after : List (Name × Nat))
    (d : Dir) (m : Name) : Option Entry :=
  match lastWrite after m with
  | some c => some (.file c)
  | none =>
    match link with
    | some (s, t) =>
      if s = m then some (.link t) else
        match lastWrite before m with
        | some c => some (.file c)
        | none => d.get m
    | none =>
      match lastWrite before m with
      | some c => some (.file c)
      | none => d.get m

/-- the only link a directory may hold is the one this run creates, pointing where this run points it -/
def OnlyLink (link : Option (Name × Name)) (d : Dir) : Prop :=
  ∀ n t', d.get n = some (.link t') → link = some (n, t')

theorem lastWrite_none_of_not_mem (ws : List (Name × Nat)) (m : Name) (h : (names ws).contains m = false) :
    lastWrite ws m = none := by
  induction ws with
  | nil => rfl
  | cons w ws ih =>
    simp only [names, List.map_cons, List.contains_cons, Bool.or_eq_false_iff] at h
    have h1 : ¬ w.1 = m := by
      intro e
      have := h.1
      simp [e] at this
    simp [lastWrite, ih (by simpa [names] using h.2), h1]

theorem mem_names_of_lastWrite (ws : List (Name × Nat)) (m : Name) (c : Nat) (h : lastWrite ws m = some c) :
    (names ws).contains m = true := by
  cases hc : (names ws).contains m with
  | true => rfl
  | false => rw [lastWrite_none_of_not_mem ws m hc] at h; simp at h

theorem resolve_link (d : Dir) (s t : Name) (fuel : Nat) (hs : d.get s = some (.link t))
    (ht : ∀ t', d.get t ≠ some (.link t')) : resolve d (fuel + 2) s = some t := by
  rw [resolve, hs]
  exact resolve_not_link d t fuel ht

/-- writes before the link is made may go through the link a previous run left: they then land in `t` -/
theorem run_writes_through (s t : Name) (hst : s ≠ t) (ws : List (Name × Nat)) : ∀ (d : Dir),
    OnlyLink (some (s, t)) d →
    ∃ d', run (ws.map (fun w => Op.write w.1 w.2)) d = .ok d' ∧ OnlyLink (some (s, t)) d' ∧
      ∀ m, m ≠ s → m ≠ t → d'.get m = match lastWrite ws m with
        | some c => some (.file c)
        | none => d.get m := by
  induction ws with
  | nil => intro d hP; exact ⟨d, rfl, hP, fun m _ _ => by simp [lastWrite]⟩
  | cons w ws ih =>
    intro d hP
    have htnl : ∀ t', d.get t ≠ some (.link t') := by
      intro t' h
      have := hP t t' h
      simp at this
      exact hst this.1
    -- where the write lands
    have hland : ∃ k, step d (.write w.1 w.2) = .ok (d.set k (.file w.2)) ∧ (k = w.1 ∨ (w.1 = s ∧ k = t)) := by
      cases hg : d.get w.1 with
      | none =>
        refine ⟨w.1, ?_, Or.inl rfl⟩
        have : ∀ t', d.get w.1 ≠ some (.link t') := by intro t' h; rw [hg] at h; simp at h
        simp only [step, maxLinks, resolve_not_link d w.1 40 this]
      | some e =>
        cases e with
        | file c =>
          refine ⟨w.1, ?_, Or.inl rfl⟩
          have : ∀ t', d.get w.1 ≠ some (.link t') := by intro t' h; rw [hg] at h; simp at h
          simp only [step, maxLinks, resolve_not_link d w.1 40 this]
        | link t' =>
          have := hP w.1 t' hg
          simp at this
          obtain ⟨e1, e2⟩ := this
          rw [← e2] at hg
          refine ⟨t, ?_, Or.inr ⟨e1.symm, rfl⟩⟩
          simp only [step, maxLinks, resolve_link d w.1 t 39 hg htnl]
    obtain ⟨k, hstep, hk⟩ := hland
    have hP' : OnlyLink (some (s, t)) (d.set k (.file w.2)) := by
      intro n t' h
      rw [get_set] at h
      by_cases e : k = n
      · simp [e] at h
      · simp only [e, if_false] at h
        exact hP n t' h
    obtain ⟨d', hrun, hPd', hget⟩ := ih (d.set k (.file w.2)) hP'
    refine ⟨d', ?_, hPd', ?_⟩
    · simp only [List.map_cons, run, hstep]
      exact hrun
    · intro m hms hmt
      rw [hget m hms hmt]
      simp only [lastWrite]
      cases lastWrite ws m with
      | some c => rfl
      | none =>
        rw [get_set]
        rcases hk with hk | ⟨hw, hk⟩
        · subst hk
          by_cases h : w.1 = m <;> simp [h]
        · subst hk
          have h1 : ¬ k = m := fun e => hmt e.symm
          have h2 : ¬ w.1 = m := fun e => hms (by rw [← e, hw])
          simp [h1, h2]

theorem lastWrite_some_of_mem : ∀ (ws : List (Name × Nat)) (m : Name), (names ws).contains m = true →
    (lastWrite ws m).isSome = true
  | [], _, h => by simp [names] at h
  | w :: ws, m, h => by
    simp only [lastWrite]
    cases hl : lastWrite ws m with
    | some c => rfl
    | none =>
      simp only [names, List.map_cons, List.contains_cons, Bool.or_eq_true] at h
      rcases h with h | h
      · have : w.1 = m := by simpa using Eq.symm (by simpa using h)
        simp [this]
      · have := lastWrite_some_of_mem ws m (by simpa [names] using h)
        rw [hl] at this; simp at this

/-- one run, from any directory whose only possible link is the run's own symlink -/
theorem run_characterization (before : List (Name × Nat)) (link : Option (Name × Name))
    (after : List (Name × Nat)) (hwf : wfRun before link after = true) (d : Dir) (hP : OnlyLink link d) :
    ∃ d', run (runOps before link after) d = .ok d' ∧ OnlyLink link d' ∧
      ∀ m, d'.get m = final before link after d m := by
  cases link with
  | none =>
    have hno : ∀ n t', d.get n ≠ some (.link t') := by
      intro n t' h
      have := hP n t' h
      simp at this
    obtain ⟨d₁, hr₁, hg₁⟩ := run_writes before d (fun w _ t => hno w.1 t)
    have hno₁ : ∀ n t', d₁.get n ≠ some (.link t') := by
      intro n t'
      rw [hg₁ n]
      cases lastWrite before n with
      | some c => simp
      | none => exact hno n t'
    obtain ⟨d₂, hr₂, hg₂⟩ := run_writes after d₁ (fun w _ t => hno₁ w.1 t)
    refine ⟨d₂, ?_, ?_, ?_⟩
    · simp only [runOps, List.append_nil]
      rw [run_append, hr₁]
      exact hr₂
    · intro n t' h
      rw [hg₂ n] at h
      cases hl : lastWrite after n with
      | some c => rw [hl] at h; simp at h
      | none => rw [hl] at h; exact absurd h (hno₁ n t')
    · intro m
      rw [hg₂ m]
      simp only [final]
      cases lastWrite after m with
      | some c => rfl
      | none => exact hg₁ m
  | some st =>
    obtain ⟨s, t⟩ := st
    simp only [wfRun, Bool.and_eq_true, Bool.not_eq_true', Bool.or_eq_true, bne_iff_ne, ne_eq] at hwf
    obtain ⟨hsa, hcase⟩ := hwf
    -- a name other than `s` is never a link
    have hlink : ∀ (d : Dir), OnlyLink (some (s, t)) d → ∀ (ws : List (Name × Nat)),
        (names ws).contains s = false → ∀ w ∈ ws, ∀ t', d.get w.1 ≠ some (.link t') := by
      intro d hP ws hs w hw t' h
      have ht₀ := hP w.1 t' h
      have e : s = w.1 := by simp at ht₀; exact ht₀.1
      have : (names ws).contains s = true := by
        rw [e]
        simp only [names, List.contains_iff_mem]
        exact List.mem_map.mpr ⟨w, hw, rfl⟩
      rw [this] at hs
      exact absurd hs (by simp)
    -- phase 1: the writes before the link; away from `s` and `t` they are plain overwrites
    have hphase1 : ∃ d₁, run (before.map (fun w => Op.write w.1 w.2)) d = .ok d₁ ∧ OnlyLink (some (s, t)) d₁ ∧
        ∀ m, m ≠ s → (m ≠ t ∨ (names before).contains s = false) →
          d₁.get m = match lastWrite before m with
            | some c => some (.file c)
            | none => d.get m := by
      rcases hcase with hsb | ⟨_, hst⟩
      · obtain ⟨d₁, hr₁, hg₁⟩ := run_writes before d (hlink d hP before hsb)
        refine ⟨d₁, hr₁, ?_, fun m _ _ => hg₁ m⟩
        intro n t' h
        rw [hg₁ n] at h
        cases hl : lastWrite before n with
        | some c => rw [hl] at h; simp at h
        | none => rw [hl] at h; exact hP n t' h
      · obtain ⟨d₁, hr₁, hP₁, hg₁⟩ := run_writes_through s t hst before d hP
        refine ⟨d₁, hr₁, hP₁, ?_⟩
        intro m hms hmt
        rcases hmt with hmt | hsb
        · exact hg₁ m hms hmt
        · -- `s` is not written before: nothing went through the link
          obtain ⟨d₁', hr₁', hg₁'⟩ := run_writes before d (hlink d hP before hsb)
          rw [hr₁] at hr₁'
          cases hr₁'
          exact hg₁' m
    obtain ⟨d₁, hr₁, hP₁, hg₁⟩ := hphase1
    -- phase 2: unlink (missing ok), then symlink
    let d₂ := (d₁.remove s).set s (.link t)
    have hstep₂ : run [Op.unlinkOk s, Op.symlink s t] d₁ = .ok d₂ := by
      simp [run, step, get_remove, d₂]
    have hg₂ : ∀ m, d₂.get m = if s = m then some (.link t) else d₁.get m := by
      intro m
      simp only [d₂, get_set, get_remove]
      by_cases h : s = m <;> simp [h]
    have hP₂ : OnlyLink (some (s, t)) d₂ := by
      intro n t' h
      rw [hg₂ n] at h
      by_cases e : s = n
      · simp only [e, if_true, Option.some.injEq, Entry.link.injEq] at h
        rw [e, h]
      · simp only [e, if_false] at h
        exact hP₁ n t' h
    -- phase 3: the writes after the link never name `s`
    obtain ⟨d₃, hr₃, hg₃⟩ := run_writes after d₂ (hlink d₂ hP₂ after hsa)
    refine ⟨d₃, ?_, ?_, ?_⟩
    · simp only [runOps]
      rw [run_append, run_append, hr₁]
      simp only [hstep₂]
      exact hr₃
    · intro n t' h
      rw [hg₃ n] at h
      cases hl : lastWrite after n with
      | some c => rw [hl] at h; simp at h
      | none => rw [hl] at h; exact hP₂ n t' h
    · intro m
      rw [hg₃ m]
      simp only [final]
      cases hla : lastWrite after m with
      | some c => rfl
      | none =>
        simp only [hg₂ m]
        by_cases e : s = m
        · simp [e]
        · simp only [e, if_false]
          apply hg₁ m (fun h => e h.symm)
          rcases hcase with hsb | ⟨hta, _⟩
          · exact Or.inr hsb
          · left
            intro hmt
            have := lastWrite_some_of_mem after t hta
            rw [← hmt, hla] at this
            simp at this

/-- **Running again into the directory the previous run left gives the same directory.**
`d0` is the directory before the first run: fresh (`[]`) or holding any regular files. -/
theorem rerun_idempotent (before : List (Name × Nat)) (link : Option (Name × Name))
    (after : List (Name × Nat)) (hwf : wfRun before link after = true)
    (d0 : Dir) (hfresh : ∀ n t', d0.get n ≠ some (.link t')) :
    ∃ d1 d2, run (runOps before link after) d0 = .ok d1 ∧
      run (runOps before link after) d1 = .ok d2 ∧ ∀ m, d2.get m = d1.get m := by
  have hP0 : OnlyLink link d0 := fun n t' h => absurd h (hfresh n t')
  obtain ⟨d1, hr1, hP1, hg1⟩ := run_characterization before link after hwf d0 hP0
  obtain ⟨d2, hr2, _, hg2⟩ := run_characterization before link after hwf d1 hP1
  refine ⟨d1, d2, hr1, hr2, fun m => ?_⟩
  rw [hg2 m]
  have h1 := hg1 m
  simp only [final] at h1 ⊢
  cases hla : lastWrite after m with
  | some c => rw [hla] at h1; exact h1.symm
  | none =>
    rw [hla] at h1
    simp only at h1 ⊢
    cases link with
    | none =>
      simp only at h1 ⊢
      cases hlb : lastWrite before m with
      | some c => rw [hlb] at h1; exact h1.symm
      | none => rfl
    | some st =>
      obtain ⟨s, t⟩ := st
      simp only at h1 ⊢
      by_cases e : s = m
      · simp only [e, if_true] at h1 ⊢; exact h1.symm
      · simp only [e, if_false] at h1 ⊢
        cases hlb : lastWrite before m with
        | some c => rw [hlb] at h1; exact h1.symm
        | none => rfl

/- non-vacuity: a single-root run (static file, summary page, symlink pkg.html -> index.html,
root page, inventory), fresh directory, run twice -/
example :
    let ops := runOps [([1], 10), ([2], 11)] (some ([3], [4])) [([4], 12), ([5], 13)]
    wfRun [([1], 10), ([2], 11)] (some ([3], [4])) [([4], 12), ([5], 13)] = true ∧
    (match run ops [] with
     | .ok d1 => (match run ops d1 with
        | .ok d2 => [[1], [2], [3], [4], [5], [6]].all (fun m => d2.get m == d1.get m)
        | .error _ => false)
     | .error _ => false) = true := by
  decide

/- (shape of the code before /repo 5201211, still inside the hypothesis) a single root module called like a
summary page: `s` is also written before the link is made, and a re-run writes it THROUGH the old link into
index.html, which is rewritten afterwards.  The current code makes no alias there (`rootSymlink_link_fresh`). -/
example :
    let ops := runOps [([3], 10)] (some ([3], [4])) [([4], 12)]
    wfRun [([3], 10)] (some ([3], [4])) [([4], 12)] = true ∧
    (match run ops [] with
     | .ok d1 => (match run ops d1 with
        | .ok d2 => [[3], [4]].all (fun m => d2.get m == d1.get m)
        | .error _ => false)
     | .error _ => false) = true := by
  decide

/- outside the hypothesis: a link that points at itself (what a root module called `index` produced before the
alias was skipped for it): the root page cannot be written -/
example : wfRun [] (some ([4], [4])) [([4], 12)] = false ∧ (match run (runOps [] (some ([4], [4])) [([4], 12)]) [] with
    | .error .eloop => true
    | _ => false) = true := by
  decide

/-- **Overwrite on write**: what a run leaves under every name it writes or links does not depend
on what the directory held before (two link-free starting directories). -/
theorem output_independent_of_old_content (before : List (Name × Nat)) (link : Option (Name × Name))
    (after : List (Name × Nat)) (hwf : wfRun before link after = true)
    (d d' : Dir) (hd : ∀ n t', d.get n ≠ some (.link t')) (hd' : ∀ n t', d'.get n ≠ some (.link t')) :
    ∃ e e', run (runOps before link after) d = .ok e ∧ run (runOps before link after) d' = .ok e' ∧
      ∀ m, ((names before).contains m = true ∨ (names after).contains m = true ∨ (∃ t, link = some (m, t))) →
        e.get m = e'.get m := by
  obtain ⟨e, hr, _, hg⟩ := run_characterization before link after hwf d (fun n t' h => absurd h (hd n t'))
  obtain ⟨e', hr', _, hg'⟩ := run_characterization before link after hwf d' (fun n t' h => absurd h (hd' n t'))
  refine ⟨e, e', hr, hr', fun m hm => ?_⟩
  rw [hg m, hg' m]
  simp only [final]
  cases hla : lastWrite after m with
  | some c => rfl
  | none =>
    have ha : (names after).contains m = false := by
      cases hc : (names after).contains m with
      | false => rfl
      | true =>
        exfalso
        -- a written name has a last write
        have := lastWrite_some_of_mem after m hc
        rw [hla] at this
        simp at this
    cases link with
    | none =>
      simp only
      cases hlb : lastWrite before m with
      | some c => rfl
      | none =>
        exfalso
        rcases hm with h | h | ⟨t, h⟩
        · have := lastWrite_some_of_mem before m h
          rw [hlb] at this; simp at this
        · rw [ha] at h; simp at h
        · simp at h
    | some st =>
      obtain ⟨s, t⟩ := st
      simp only
      by_cases e0 : s = m
      · simp [e0]
      · simp only [e0, if_false]
        cases hlb : lastWrite before m with
        | some c => rfl
        | none =>
          exfalso
          rcases hm with h | h | ⟨t', h⟩
          · have := lastWrite_some_of_mem before m h
            rw [hlb] at this; simp at this
          · rw [ha] at h; simp at h
          · simp at h; exact e0 h.1

/-! ## the build time -/

/-- **The time in the footer is a function of (SOURCE_DATE_EPOCH, --buildtime) only, whenever either
is set** — whatever the clock says, and whatever the value (`0` included). -/
theorem buildtime_function_of_inputs (now₁ now₂ : Int) (env : EnvEpoch) (opt : OptTime)
    (hset : env ≠ .unset ∨ opt ≠ .notGiven) : buildTime now₁ env opt = buildTime now₂ env opt := by
  cases env <;> cases opt <;> simp_all [buildTime]

example : buildTime 1727481600 (.value 0) .notGiven = buildTime 1727481603 (.value 0) .notGiven :=
  buildtime_function_of_inputs _ _ _ _ (Or.inl (by simp))

/-- a set SOURCE_DATE_EPOCH is used as it is: the boundary value 0 is the epoch, not "unset" -/
theorem buildtime_epoch_used (now n : Int) : buildTime now (.value n) .notGiven = .time n := rfl

theorem buildtime_epoch_zero (now : Int) : buildTime now (.value 0) .notGiven = .time 0 := rfl

/-- `--buildtime` wins over the variable -/
theorem buildtime_option_wins (now n t : Int) : buildTime now (.value n) (.time t) = .time t := rfl

/-- honest converse: with neither set the footer shows the clock (this is what C18 does not promise) -/
theorem buildtime_clock_when_unset (now : Int) : buildTime now .unset .notGiven = .time now := rfl

/-- the same refusal in every run: a variable that is not a number is an error whatever else is given -/
theorem buildtime_notInt_refused (now : Int) (opt : OptTime) : buildTime now .notInt opt = .exitError := rfl

/-! ## presentation order: the sort keys of the writers -/

/-- the three laws that make `sorted(key=...)` with an injective key independent of the input order -/
structure IsOrder {κ : Type} (le : κ → κ → Bool) : Prop where
  total : ∀ a b, (le a b || le b a) = true
  trans : ∀ a b c, le a b = true → le b c = true → le a c = true
  antisymm : ∀ a b, le a b = true → le b a = true → a = b

theorem intLe_isOrder : IsOrder intLe where
  total a b := by simp only [intLe, Bool.or_eq_true, decide_eq_true_eq]; omega
  trans a b c := by simp only [intLe, decide_eq_true_eq]; omega
  antisymm a b := by simp only [intLe, decide_eq_true_eq]; omega

theorem lexLe_isOrder : IsOrder lexLe := ⟨lexLe_total, lexLe_trans, lexLe_antisymm⟩

theorem pairLe_iff {α β : Type} (leA : α → α → Bool) (leB : β → β → Bool) (x y : α × β) :
    pairLe leA leB x y = true ↔
      (leA x.1 y.1 = true ∧ leA y.1 x.1 = false) ∨ (leA x.1 y.1 = true ∧ leA y.1 x.1 = true ∧ leB x.2 y.2 = true) := by
  unfold pairLe
  cases h1 : leA x.1 y.1 <;> cases h2 : leA y.1 x.1 <;> simp

theorem pairLe_isOrder {α β : Type} {leA : α → α → Bool} {leB : β → β → Bool}
    (hA : IsOrder leA) (hB : IsOrder leB) : IsOrder (pairLe leA leB) where
  total x y := by
    have ht := hA.total x.1 y.1
    have hb := hB.total x.2 y.2
    simp only [Bool.or_eq_true, pairLe_iff] at *
    cases h1 : leA x.1 y.1 <;> cases h2 : leA y.1 x.1 <;> simp_all
  trans x y z hxy hyz := by
    rw [pairLe_iff] at *
    rcases hxy with ⟨a1, a2⟩ | ⟨a1, a2, a3⟩ <;> rcases hyz with ⟨b1, b2⟩ | ⟨b1, b2, b3⟩
    · left
      refine ⟨hA.trans _ _ _ a1 b1, ?_⟩
      cases h : leA z.1 x.1 with
      | false => rfl
      | true => have := hA.trans _ _ _ h a1; simp_all
    · left
      refine ⟨hA.trans _ _ _ a1 b1, ?_⟩
      cases h : leA z.1 x.1 with
      | false => rfl
      | true => have := hA.trans _ _ _ b1 h; simp_all
    · left
      refine ⟨hA.trans _ _ _ a1 b1, ?_⟩
      cases h : leA z.1 x.1 with
      | false => rfl
      | true => have := hA.trans _ _ _ h a1; simp_all
    · right
      exact ⟨hA.trans _ _ _ a1 b1, hA.trans _ _ _ b2 a2, hB.trans _ _ _ a3 b3⟩
  antisymm x y hxy hyx := by
    rw [pairLe_iff] at *
    rcases hxy with ⟨a1, a2⟩ | ⟨a1, a2, a3⟩ <;> rcases hyx with ⟨b1, b2⟩ | ⟨b1, b2, b3⟩
    · simp_all
    · simp_all
    · simp_all
    · exact Prod.ext (hA.antisymm _ _ a1 a2) (hB.antisymm _ _ a3 b3)

theorem thirdLe_isOrder : IsOrder thirdLe where
  total a b := by
    match a, b with
    | .num x, .num y => simp only [thirdLe, Bool.or_eq_true, decide_eq_true_eq]; omega
    | .str x, .str y => exact lexLe_total x y
    | .num _, .str _ => rfl
    | .str _, .num _ => rfl
  trans a b c := by
    match a, b, c with
    | .num x, .num y, .num z => simp only [thirdLe, decide_eq_true_eq]; omega
    | .str x, .str y, .str z => exact lexLe_trans x y z
    | .num _, .num _, .str _ => intros; rfl
    | .num _, .str _, .str _ => intros; rfl
    | .num _, .str _, .num _ => intro _ h; simp [thirdLe] at h
    | .str _, .num _, _ => intro h; simp [thirdLe] at h
    | .str _, .str _, .num _ => intro _ h; simp [thirdLe] at h
  antisymm a b := by
    match a, b with
    | .num x, .num y =>
      simp only [thirdLe, decide_eq_true_eq, Third.num.injEq]; omega
    | .str x, .str y =>
      intro h1 h2
      rw [lexLe_antisymm x y h1 h2]
    | .num _, .str _ => intro _ h; simp [thirdLe] at h
    | .str _, .num _ => intro h; simp [thirdLe] at h

theorem alphaLe_isOrder : IsOrder alphaLe := pairLe_isOrder intLe_isOrder (pairLe_isOrder intLe_isOrder lexLe_isOrder)
theorem sourceLe_isOrder : IsOrder sourceLe := pairLe_isOrder intLe_isOrder (pairLe_isOrder intLe_isOrder thirdLe_isOrder)
theorem lcLe_isOrder : IsOrder lcLe := pairLe_isOrder lexLe_isOrder lexLe_isOrder

/-! ### `sorted(key=...)` -/

/-- **Key injective on the list ⇒ the sorted list does not depend on the order of the input.** -/
theorem sortedWith_perm_invariant {α κ : Type} {le : κ → κ → Bool} (ho : IsOrder le) (key : α → κ)
    {l₁ l₂ : List α} (h : l₁.Perm l₂) (hinj : ∀ a ∈ l₁, ∀ b ∈ l₁, key a = key b → a = b) :
    sortedWith le key l₁ = sortedWith le key l₂ := by
  unfold sortedWith
  apply List.Perm.eq_of_pairwise (le := fun a b => le (key a) (key b) = true)
  · intro a b ha hb hab hba
    have ha' : a ∈ l₁ := (List.mergeSort_perm l₁ _).mem_iff.mp ha
    have hb' : b ∈ l₁ := h.mem_iff.mpr ((List.mergeSort_perm l₂ _).mem_iff.mp hb)
    exact hinj a ha' b hb' (ho.antisymm _ _ hab hba)
  · exact List.pairwise_mergeSort (le := fun a b => le (key a) (key b))
      (fun a b c => ho.trans (key a) (key b) (key c)) (fun a b => ho.total (key a) (key b)) l₁
  · exact List.pairwise_mergeSort (le := fun a b => le (key a) (key b))
      (fun a b c => ho.trans (key a) (key b) (key c)) (fun a b => ho.total (key a) (key b)) l₂
  · exact (List.mergeSort_perm l₁ _).trans (h.trans (List.mergeSort_perm l₂ _).symm)

/-- the result is a permutation of the input, in non-decreasing key order -/
theorem sortedWith_perm {α κ : Type} (le : κ → κ → Bool) (key : α → κ) (l : List α) :
    (sortedWith le key l).Perm l := List.mergeSort_perm l _

theorem sortedWith_sorted {α κ : Type} {le : κ → κ → Bool} (ho : IsOrder le) (key : α → κ) (l : List α) :
    (sortedWith le key l).Pairwise (fun a b => le (key a) (key b) = true) :=
  List.pairwise_mergeSort (le := fun a b => le (key a) (key b))
    (fun a b c => ho.trans (key a) (key b) (key c)) (fun a b => ho.total (key a) (key b)) l

/-- **Stability**: two elements with the same key come out in the order they went in — so where a
key is not injective, the order of the tied elements is the order of the INPUT list. -/
theorem sortedWith_stable {α κ : Type} {le : κ → κ → Bool} (ho : IsOrder le) (key : α → κ)
    (a b : α) (l : List α) (hk : key a = key b) (hsub : [a, b].Sublist l) :
    [a, b].Sublist (sortedWith le key l) := by
  unfold sortedWith
  apply List.pair_sublist_mergeSort (le := fun a b => le (key a) (key b))
    (fun a b c => ho.trans (key a) (key b) (key c)) (fun a b => ho.total (key a) (key b)) _ hsub
  rw [hk]
  have := ho.total (key b) (key b)
  simpa using this

/-- a tie, the two input orders, two outputs: with a non-injective key the output DOES depend on the
input order -/
theorem sortedWith_tie_depends_on_input {α κ : Type} {le : κ → κ → Bool} (ho : IsOrder le) (key : α → κ)
    (a b : α) (hk : key a = key b) (hab : a ≠ b) :
    sortedWith le key [a, b] ≠ sortedWith le key [b, a] := by
  have hrefl : ∀ k, le k k = true := fun k => by simpa using ho.total k k
  have h1 : sortedWith le key [a, b] = [a, b] := by
    unfold sortedWith
    apply List.mergeSort_of_pairwise
    simp [hk, hrefl]
  have h2 : sortedWith le key [b, a] = [b, a] := by
    unfold sortedWith
    apply List.mergeSort_of_pairwise
    simp [hk, hrefl]
  rw [h1, h2]
  intro h
  exact hab (by simpa using (List.cons.inj h).1)

/-! ### the keys of the writers: which are injective on what they sort -/

/-- `_lckey` holds the full name itself: injective on objects with distinct full names (the objects
of one `allobjects`) -/
theorem lcKey_injective (a b : Obj) (h : lcKey a = lcKey b) : a.full = b.full := by
  simp only [lcKey, Prod.mk.injEq] at h
  exact h.2

/-- **classIndex subclass lists, nameIndex same-name lists** (`sorted(..., key=_lckey)`): the order
shown does not depend on the order in which the objects were collected -/
theorem lc_order_invariant {l₁ l₂ : List Obj} (h : l₁.Perm l₂)
    (hdistinct : ∀ a ∈ l₁, ∀ b ∈ l₁, a.full = b.full → a = b) : sortedLc l₁ = sortedLc l₂ :=
  sortedWith_perm_invariant lcLe_isOrder lcKey h
    (fun a ha b hb hk => hdistinct a ha b hb (lcKey_injective a b hk))

/-- **undoccedSummary** (`key=fullName`) -/
theorem full_order_invariant {l₁ l₂ : List Obj} (h : l₁.Perm l₂)
    (hdistinct : ∀ a ∈ l₁, ∀ b ∈ l₁, a.full = b.full → a = b) : sortedFull l₁ = sortedFull l₂ :=
  sortedWith_perm_invariant lexLe_isOrder fullKey h hdistinct

/-- **nameIndex names** (`key=(x.lower(), x)`) — distinct strs (dict keys) -/
theorem names_order_invariant {l₁ l₂ : List Str} (h : l₁.Perm l₂)
    (hdistinct : ∀ a ∈ l₁, ∀ b ∈ l₁, a.s = b.s → a = b) : sortedNames l₁ = sortedNames l₂ :=
  sortedWith_perm_invariant lcLe_isOrder nameKey h
    (fun a ha b hb hk => hdistinct a ha b hb (by simp only [nameKey, Prod.mk.injEq] at hk; exact hk.2))

/-- **member / module tables, alphabetical** (`util.alphabetical_order_func`).  Full statement
("independent of the input order for objects with distinct full names") is FALSE: the key holds the
LOWERED name only.  Proved when no two objects of the list share privacy, kind and lowered name. -/
theorem alpha_order_invariant_partial {l₁ l₂ : List Obj} (h : l₁.Perm l₂)
    (hdistinct : ∀ a ∈ l₁, ∀ b ∈ l₁, alphaKey a = alphaKey b → a = b) : sortedAlpha l₁ = sortedAlpha l₂ :=
  sortedWith_perm_invariant alphaLe_isOrder alphaKey h hdistinct

/-- sufficient: lowered full names distinct -/
theorem alpha_order_invariant_of_lower_distinct {l₁ l₂ : List Obj} (h : l₁.Perm l₂)
    (hdistinct : ∀ a ∈ l₁, ∀ b ∈ l₁, a.lowerFull = b.lowerFull → a = b) : sortedAlpha l₁ = sortedAlpha l₂ :=
  alpha_order_invariant_partial h (fun a ha b hb hk => hdistinct a ha b hb (by
    simp only [alphaKey, Prod.mk.injEq] at hk; exact hk.2.2))

def objF : Obj := { privacy := 2, kind := some 400, full := [109, 46, 70], lowerFull := [109, 46, 102], line := 1, isModule := false }
def objf : Obj := { privacy := 2, kind := some 400, full := [109, 46, 102], lowerFull := [109, 46, 102], line := 2, isModule := false }

/-- functions `m.F` and `m.f`: same key, the table shows them in the order of the input -/
theorem alpha_tie_counterexample : alphaKey objF = alphaKey objf ∧ objF.full ≠ objf.full ∧
    sortedAlpha [objF, objf] ≠ sortedAlpha [objf, objF] :=
  ⟨by decide, by decide, sortedWith_tie_depends_on_input alphaLe_isOrder alphaKey objF objf (by decide) (by decide)⟩

/-- the tied elements of the alphabetical tables keep the order of the input (`contents` order) -/
theorem alpha_ties_keep_input_order (a b : Obj) (l : List Obj) (hk : alphaKey a = alphaKey b)
    (hsub : [a, b].Sublist l) : [a, b].Sublist (sortedAlpha l) :=
  sortedWith_stable alphaLe_isOrder alphaKey a b l hk hsub

/-- **member tables in source order** (`util.source_order_func`): proved when no two objects share
privacy, kind and line (modules: lowered name) -/
theorem source_order_invariant_partial {l₁ l₂ : List Obj} (h : l₁.Perm l₂)
    (hdistinct : ∀ a ∈ l₁, ∀ b ∈ l₁, sourceKey a = sourceKey b → a = b) :
    sortedWith sourceLe sourceKey l₁ = sortedWith sourceLe sourceKey l₂ :=
  sortedWith_perm_invariant sourceLe_isOrder sourceKey h hdistinct

def objFirst : Obj := { privacy := 2, kind := some 300, full := [66, 46, 97], lowerFull := [98, 46, 97], line := 2, isModule := false }
def objSecond : Obj := { privacy := 2, kind := some 300, full := [66, 46, 98], lowerFull := [98, 46, 98], line := 2, isModule := false }

/-- `first = second = 0` on one line: same source key -/
theorem source_tie_counterexample : sourceKey objFirst = sourceKey objSecond ∧
    sortedWith sourceLe sourceKey [objFirst, objSecond] ≠ sortedWith sourceLe sourceKey [objSecond, objFirst] :=
  ⟨by decide, sortedWith_tie_depends_on_input sourceLe_isOrder sourceKey objFirst objSecond (by decide) (by decide)⟩

theorem source_ties_keep_input_order (a b : Obj) (l : List Obj) (hk : sourceKey a = sourceKey b)
    (hsub : [a, b].Sublist l) : [a, b].Sublist (sortedWith sourceLe sourceKey l) :=
  sortedWith_stable sourceLe_isOrder sourceKey a b l hk hsub

/-- what every real `Documentable` satisfies: modules and packages, and only they, have the kinds
MODULE (900) / PACKAGE (1000) -/
def KindMatchesType (o : Obj) : Prop := o.isModule = true ↔ (o.kind = some 900 ∨ o.kind = some 1000)

theorem isModule_iff_negKind (o : Obj) (h : KindMatchesType o) :
    o.isModule = true ↔ negKind o = -900 := by
  unfold KindMatchesType at h
  rw [h]
  unfold negKind mapKind
  cases o.kind with
  | none => simp
  | some k =>
    simp only [Option.some.injEq]
    by_cases e : k = 1000
    · simp [e]
    · simp only [e, if_false, or_false]
      constructor
      · intro hk; rw [hk]; rfl
      · intro hk
        have : Int.ofNat k = 900 := by omega
        exact Int.ofNat.inj this

/-- **`source_order_func` never makes Python compare a str with an int**: two objects whose keys agree
on privacy and kind are both modules or both not -/
theorem source_never_mixed (a b : Obj) (ha : KindMatchesType a) (hb : KindMatchesType b) :
    sourceComparable a b = true := by
  unfold sourceComparable
  by_cases h1 : (sourceKey a).1 = (sourceKey b).1
  · by_cases h2 : (sourceKey a).2.1 = (sourceKey b).2.1
    · have hk : negKind a = negKind b := h2
      have hiff : a.isModule = true ↔ b.isModule = true := by
        rw [isModule_iff_negKind a ha, isModule_iff_negKind b hb, hk]
      have hm : a.isModule = b.isModule := by
        cases ham : a.isModule <;> cases hbm : b.isModule <;> simp_all
      simp [hm]
    · simp [h2]
  · simp [h1]

/-- hence `sorted(objs, key=source_order_func)` is defined for every list of real objects -/
theorem sortedSource_defined (objs : List Obj) (h : ∀ o ∈ objs, KindMatchesType o) :
    sortedSource? objs = some (sortedWith sourceLe sourceKey objs) := by
  unfold sortedSource?
  have : (objs.all fun a => objs.all fun b => sourceComparable a b) = true := by
    simp only [List.all_eq_true]
    intro a ha b hb
    exact source_never_mixed a b (h a ha) (h b hb)
  simp [this]

/-- **classIndex roots, "implements" lists** (`key=lambda x: x.lower()`): proved when the lowered strs
are distinct; two names that differ in case only keep the input (dict) order -/
theorem lower_order_invariant_partial {l₁ l₂ : List Str} (h : l₁.Perm l₂)
    (hdistinct : ∀ a ∈ l₁, ∀ b ∈ l₁, a.lower = b.lower → a = b) : sortedLower l₁ = sortedLower l₂ :=
  sortedWith_perm_invariant lexLe_isOrder lowerKey h hdistinct

theorem lower_tie_counterexample :
    sortedLower [⟨[101, 46, 70], [101, 46, 102]⟩, ⟨[101, 46, 102], [101, 46, 102]⟩] ≠
      sortedLower [⟨[101, 46, 102], [101, 46, 102]⟩, ⟨[101, 46, 70], [101, 46, 102]⟩] :=
  sortedWith_tie_depends_on_input lexLe_isOrder lowerKey _ _ rfl (by decide)

/-! ### inherited members -/

/-- the set `maybe_masking` is only asked `in`: any two enumerations give the same members -/
theorem unmaskedAttrs_enum_invariant (first : List Member) {m₁ m₂ : List Name} (h : m₁.Perm m₂) :
    unmaskedAttrsWith first m₁ = unmaskedAttrsWith first m₂ := by
  unfold unmaskedAttrsWith
  congr 1
  funext o
  have : m₁.contains o.name = m₂.contains o.name := by
    rw [Bool.eq_iff_iff]
    simp only [List.contains_iff_mem]
    exact h.mem_iff
  rw [this]

/-- … and they come in the order of the defining class's `contents` (what a rewrite through a set
difference loses) -/
theorem unmaskedAttrs_in_contents_order (first : List Member) (masking : List Name) :
    (unmaskedAttrsWith first masking).Sublist first := List.filter_sublist

theorem unmaskedAttrs_no_indexError (mro : List (List Member)) :
    ∀ chain ∈ nestedBases mro, unmaskedAttrs chain ≠ .indexError := by
  intro chain hc
  simp only [nestedBases, List.mem_map, List.mem_range] at hc
  obtain ⟨i, hi, rfl⟩ := hc
  cases hm : (List.take (i + 1) mro).reverse with
  | nil =>
    have : (List.take (i + 1) mro).length = 0 := by
      have := congrArg List.length hm
      simpa using this
    simp only [List.length_take] at this
    omega
  | cons x xs => simp [unmaskedAttrs]

/-- search documents are the visible objects in registry order -/
theorem documentOrder_in_registry_order (allobjects : List (Name × Bool)) :
    (documentOrder allobjects).Sublist (allobjects.map (·.1)) := by
  unfold documentOrder
  exact List.Sublist.map _ List.filter_sublist

theorem documentOrder_visible_only (allobjects : List (Name × Bool)) (n : Name) :
    n ∈ documentOrder allobjects ↔ (n, true) ∈ allobjects := by
  simp [documentOrder]


/-! ## the template lookup (`--template-dir`) -/

/-- two lookups that answer every key alike -/
def LookupExt (d d' : Lookup) : Prop := ∀ k, d.get k = d'.get k

/-- … or both refused -/
def OptExt : Option Lookup → Option Lookup → Prop
  | some d, some d' => LookupExt d d'
  | none, none => True
  | _, _ => False

theorem lookup_get_cons (d : Lookup) (k : Name) (e : TplEntry) (m : Name) :
    Lookup.get ((k, e) :: d) m = if k = m then some e else d.get m := by
  simp [Lookup.get]

theorem addTemplate_ext {d d' : Lookup} (h : LookupExt d d') (t : Tpl) :
    OptExt (addTemplate d t) (addTemplate d' t) := by
  unfold addTemplate
  rw [h t.lower]
  cases hg : d'.get t.lower with
  | none =>
    intro k
    rw [lookup_get_cons, lookup_get_cons, h k]
  | some e =>
    by_cases he : e.html = t.html
    · simp only [he, if_true]
      intro k
      rw [lookup_get_cons, lookup_get_cons, h k]
    · simp [he, OptExt]

theorem addTemplateDir_ext (l : List Tpl) : ∀ {d d' : Lookup}, LookupExt d d' →
    OptExt (addTemplateDir d l) (addTemplateDir d' l) := by
  induction l with
  | nil => intro d d' h; exact h
  | cons t rest ih =>
    intro d d' h
    have h1 := addTemplate_ext h t
    simp only [addTemplateDir]
    cases h2 : addTemplate d t <;> cases h3 : addTemplate d' t <;> rw [h2, h3] at h1
    · trivial
    · exact absurd h1 (by simp [OptExt])
    · exact absurd h1 (by simp [OptExt])
    · exact ih h1

/-- two templates with different lowered names can be added in either order -/
theorem addTemplate_swap (d : Lookup) (a b : Tpl) (hab : a.lower ≠ b.lower) :
    OptExt ((addTemplate d a).bind (fun d₁ => addTemplate d₁ b)) ((addTemplate d b).bind (fun d₁ => addTemplate d₁ a)) := by
  have hba : b.lower ≠ a.lower := fun h => hab h.symm
  unfold addTemplate
  cases hga : d.get a.lower <;> cases hgb : d.get b.lower
  all_goals simp only [Option.bind, lookup_get_cons, hab, hba, if_false, hga, hgb]
  · intro k
    simp only [lookup_get_cons]
    by_cases h1 : a.lower = k <;> by_cases h2 : b.lower = k <;> simp_all
  · rename_i eb
    by_cases h : eb.html = b.html
    · simp only [h, if_true, lookup_get_cons, hba, if_false, hga]
      intro k
      simp only [lookup_get_cons]
      by_cases h1 : a.lower = k <;> by_cases h2 : b.lower = k <;> simp_all
    · simp [h, OptExt]
  · rename_i ea
    by_cases h : ea.html = a.html
    · simp only [h, if_true, lookup_get_cons, hab, if_false, hgb]
      intro k
      simp only [lookup_get_cons]
      by_cases h1 : a.lower = k <;> by_cases h2 : b.lower = k <;> simp_all
    · simp [h, OptExt]
  · rename_i ea eb
    by_cases h : ea.html = a.html <;> by_cases h' : eb.html = b.html
    · simp only [h, h', if_true, lookup_get_cons, hab, hba, if_false, hga, hgb]
      intro k
      simp only [lookup_get_cons]
      by_cases h1 : a.lower = k <;> by_cases h2 : b.lower = k <;> simp_all
    · simp [h, h', OptExt, lookup_get_cons, hab, hgb]
    · simp [h, h', OptExt, lookup_get_cons, hba, hga]
    · simp [h, h', OptExt]

theorem OptExt.trans {a b c : Option Lookup} (h1 : OptExt a b) (h2 : OptExt b c) : OptExt a c := by
  cases a <;> cases b <;> cases c <;> simp_all [OptExt]
  intro k; rw [h1 k, h2 k]

theorem OptExt.refl (a : Option Lookup) : OptExt a a := by
  cases a <;> simp [OptExt, LookupExt]

theorem addTemplateDir_cons (d : Lookup) (t : Tpl) (rest : List Tpl) :
    addTemplateDir d (t :: rest) = (addTemplate d t).bind (fun d' => addTemplateDir d' rest) := by
  simp only [addTemplateDir]
  cases addTemplate d t <;> rfl

theorem addTemplateDir_bind_ext (l : List Tpl) {o o' : Option Lookup} (h : OptExt o o') :
    OptExt (o.bind (fun d => addTemplateDir d l)) (o'.bind (fun d => addTemplateDir d l)) := by
  cases o <;> cases o' <;> simp_all [OptExt]
  exact addTemplateDir_ext l h

/-- adding templates whose LOWERED names are distinct commutes (what held of the unsorted walk before
ea400d3; still the reason why the order of non-colliding files is immaterial) -/
theorem addTemplateDir_listing_invariant_partial {l₁ l₂ : List Tpl} (h : l₁.Perm l₂) :
    (l₁.map (·.lower)).Nodup → ∀ d d', LookupExt d d' → OptExt (addTemplateDir d l₁) (addTemplateDir d' l₂) := by
  induction h with
  | nil => intro _ d d' hd; exact hd
  | cons a _ ih =>
    intro hn d d' hd
    simp only [List.map_cons, List.nodup_cons] at hn
    rw [addTemplateDir_cons, addTemplateDir_cons]
    have h1 := addTemplate_ext hd a
    cases h2 : addTemplate d a <;> cases h3 : addTemplate d' a <;> rw [h2, h3] at h1
    · trivial
    · exact absurd h1 (by simp [OptExt])
    · exact absurd h1 (by simp [OptExt])
    · exact ih hn.2 _ _ h1
  | swap a b l =>
    intro hn d d' hd
    simp only [List.map_cons, List.nodup_cons, List.mem_cons, not_or] at hn
    have hab : b.lower ≠ a.lower := hn.1.1
    simp only [addTemplateDir_cons]
    have e1 : ((addTemplate d b).bind fun d' => (addTemplate d' a).bind fun d'' => addTemplateDir d'' l)
        = ((addTemplate d b).bind (fun d₁ => addTemplate d₁ a)).bind (fun d'' => addTemplateDir d'' l) := by
      cases addTemplate d b <;> rfl
    have e2 : ((addTemplate d' a).bind fun d₁ => (addTemplate d₁ b).bind fun d'' => addTemplateDir d'' l)
        = ((addTemplate d' a).bind (fun d₁ => addTemplate d₁ b)).bind (fun d'' => addTemplateDir d'' l) := by
      cases addTemplate d' a <;> rfl
    rw [e1, e2]
    apply addTemplateDir_bind_ext
    -- first move from d to d', then swap
    have s1 : OptExt ((addTemplate d b).bind (fun d₁ => addTemplate d₁ a)) ((addTemplate d' b).bind (fun d₁ => addTemplate d₁ a)) := by
      have h1 := addTemplate_ext hd b
      cases h2 : addTemplate d b <;> cases h3 : addTemplate d' b <;> rw [h2, h3] at h1
      · trivial
      · exact absurd h1 (by simp [OptExt])
      · exact absurd h1 (by simp [OptExt])
      · exact addTemplate_ext h1 a
    exact s1.trans (addTemplate_swap d' b a hab)
  | trans h₁ _ ih₁ ih₂ =>
    intro hn d d' hd
    have hn₂ := (h₁.map (·.lower)).nodup_iff.mp hn
    exact (ih₁ hn d d (fun _ => rfl)).trans (ih₂ hn₂ d d' hd)

def tplUpper : Tpl := { name := [69], lower := [101], html := false, content := 1 }     -- "E" (Extra.css)
def tplLower : Tpl := { name := [101], lower := [101], html := false, content := 2 }    -- "e" (extra.css)

/-- HISTORICAL (code before ea400d3, which walked the directory unsorted): two files whose names differ in
case only, the two listing orders: the file written had a different name AND different bytes -/
theorem addTemplateDir_listing_counterexample_old :
    (addTemplateDirOld [] [tplUpper, tplLower]).map (·.get [101]) = some (some ⟨[69], false, 2⟩) ∧
    (addTemplateDirOld [] [tplLower, tplUpper]).map (·.get [101]) = some (some ⟨[101], false, 1⟩) ∧
    [tplUpper, tplLower].Perm [tplLower, tplUpper] ∧ tplUpper.name ≠ tplLower.name := by
  refine ⟨by decide, by decide, List.Perm.swap _ _ _, by decide⟩

/-- **The template lookup built from a `--template-dir` does not depend on the order in which the
directory is listed** — full statement (since ea400d3 Template.fromdir walks the entries in name order;
file names of one directory are distinct) -/
theorem addTemplateDirSorted_listing_invariant {l₁ l₂ : List Tpl} (h : l₁.Perm l₂)
    (hdistinct : ∀ a ∈ l₁, ∀ b ∈ l₁, a.name = b.name → a = b) (d : Lookup) :
    addTemplateDirSorted d l₁ = addTemplateDirSorted d l₂ := by
  unfold addTemplateDirSorted
  rw [sortedWith_perm_invariant lexLe_isOrder (·.name) h hdistinct]

/-! ## hunter round -/

/-! ### extension load order (sorted since /repo 2786e75) -/

/-- **The order in which the built-in extensions are loaded does not depend on how the file system lists
pydoctor/extensions/** — full statement (names of one directory are distinct) -/
theorem getExtensions_listing_invariant {l₁ l₂ : List (Name × Bool)} (h : l₁.Perm l₂)
    (hdistinct : ∀ a ∈ l₁, ∀ b ∈ l₁, a.1 = b.1 → a = b) : getExtensions l₁ = getExtensions l₂ := by
  unfold getExtensions
  rw [sortedWith_perm_invariant lexLe_isOrder (·.1) h hdistinct]

/-- the same statement under the name it had while it described the proposed repair -/
theorem getExtensionsSorted_listing_invariant {l₁ l₂ : List (Name × Bool)} (h : l₁.Perm l₂)
    (hdistinct : ∀ a ∈ l₁, ∀ b ∈ l₁, a.1 = b.1 → a = b) : getExtensions l₁ = getExtensions l₂ :=
  getExtensions_listing_invariant h hdistinct

def extListing₁ : List (Name × Bool) := [([97, 46, 112, 121], true), ([122, 46, 112, 121], true)]      -- a.py, z.py
def extListing₂ : List (Name × Bool) := [([122, 46, 112, 121], true), ([97, 46, 112, 121], true)]

example : getExtensions extListing₁ = getExtensions extListing₂ :=
  getExtensions_listing_invariant (List.Perm.swap _ _ _) (by
    intro a ha b hb
    simp only [extListing₁, List.mem_cons, List.not_mem_nil, or_false] at ha hb
    rcases ha with rfl | rfl <;> rcases hb with rfl | rfl <;> simp)

/-- HISTORICAL (code before 2786e75, unsorted walk): two extension modules, the two listing orders, two load orders -/
theorem getExtensions_listing_counterexample_old :
    extListing₁.Perm extListing₂ ∧ getExtensionsOld extListing₁ = [[97], [122]] ∧ getExtensionsOld extListing₂ = [[122], [97]] :=
  ⟨List.Perm.swap _ _ _, by decide, by decide⟩

/-- HISTORICAL: what held of the unsorted walk — at most one extension module in the directory -/
theorem getExtensionsOld_listing_invariant_partial {l₁ l₂ : List (Name × Bool)} (h : l₁.Perm l₂)
    (hone : (getExtensionsOld l₁).length ≤ 1) : getExtensionsOld l₁ = getExtensionsOld l₂ := by
  have hp : (getExtensionsOld l₁).Perm (getExtensionsOld l₂) := by
    unfold getExtensionsOld
    exact h.filterMap _
  match hg : getExtensionsOld l₁, hone, hp with
  | [], _, hp => exact (List.nil_perm.mp hp).symm
  | [x], _, hp => exact List.singleton_perm.mp hp

/-- why the load order has to be fixed: two visitor extensions that both assign the kind of one assignment (attrs:
INSTANCE_VARIABLE = 200, zopeinterface: ATTRIBUTE = 210) — the last loaded wins -/
theorem kindAfterVisitors_order_counterexample :
    kindAfterVisitors 300 [some 200, some 210] = 210 ∧ kindAfterVisitors 300 [some 210, some 200] = 200 := by
  decide

/-- … and only then: when at most one loaded extension claims the assignment the order is immaterial -/
theorem kindAfterVisitors_single_claim (initial : Nat) (pre post : List (Option Nat)) (c : Option Nat)
    (hpre : ∀ x ∈ pre, x = none) (hpost : ∀ x ∈ post, x = none) :
    kindAfterVisitors initial (pre ++ c :: post) = (match c with | some k => k | none => initial) := by
  have hnone : ∀ (l : List (Option Nat)) (k : Nat), (∀ x ∈ l, x = none) → kindAfterVisitors k l = k := by
    intro l
    induction l with
    | nil => intro k _; rfl
    | cons x xs ih =>
      intro k h
      have hx : x = none := h x List.mem_cons_self
      subst hx
      exact ih k (fun y hy => h y (List.mem_cons_of_mem _ hy))
  unfold kindAfterVisitors at *
  rw [List.foldl_append, hnone pre initial hpre]
  simp only [List.foldl_cons]
  cases c with
  | none => exact hnone post initial hpost
  | some k => exact hnone post k hpost

/-! ### repr of a live set (elements sorted since /repo 828eb1f) -/

/-- **The text of a set default of an introspected signature does not depend on the enumeration of the set** — full -/
theorem setRepr_invariant {l₁ l₂ : List Name} (h : l₁.Perm l₂) : setRepr l₁ = setRepr l₂ := by
  unfold setRepr
  rw [sort_perm_invariant h]

/-- the same statement under the name it had while it described the proposed repair -/
theorem setReprSorted_invariant {l₁ l₂ : List Name} (h : l₁.Perm l₂) : setRepr l₁ = setRepr l₂ := setRepr_invariant h

example : setRepr [[39, 97, 39], [39, 98, 39]] = setRepr [[39, 98, 39], [39, 97, 39]] := setRepr_invariant (List.Perm.swap _ _ _)

/-- HISTORICAL (code before 828eb1f, plain repr): what held — sets of at most one element -/
theorem setReprOld_invariant_partial {l₁ l₂ : List Name} (h : l₁.Perm l₂) (hone : l₁.length ≤ 1) :
    setReprOld l₁ = setReprOld l₂ := by
  match l₁, hone, h with
  | [], _, h => rw [List.nil_perm.mp h]
  | [x], _, h => rw [(List.singleton_perm.mp h).symm]

/-- HISTORICAL: `{'a', 'b'}` enumerated as a, b and as b, a -/
theorem setRepr_counterexample_old :
    setReprOld [[39, 97, 39], [39, 98, 39]] ≠ setReprOld [[39, 98, 39], [39, 97, 39]] := by decide

/-! ### the docutils `date` directive.  Full statement — FALSE of the code:

    theorem rstDate_function_of_inputs (hset : env ≠ .unset ∨ opt ≠ .notGiven) :
        rstDateTime now₁ env opt = rstDateTime now₂ env opt

SOURCE_DATE_EPOCH / `--buildtime` fix the footer (`buildtime_function_of_inputs`) but not the time a docstring shows
through `.. |now| date::`.  There is no hypothesis on (env, opt) under which it holds: -/

theorem rstDate_is_the_clock (now : Int) (env : EnvEpoch) (opt : OptTime) : rstDateTime now env opt = now := rfl

/-- both ways of fixing the build time given, two wall-clock seconds: the footer agrees, the docstring does not -/
theorem rstDate_counterexample :
    rstDateTime 1750000000 (.value 0) (.time 1577836800) ≠ rstDateTime 1750000002 (.value 0) (.time 1577836800) ∧
    buildTime 1750000000 (.value 0) (.time 1577836800) = buildTime 1750000002 (.value 0) (.time 1577836800) := by
  decide


end Determinism
